//! C06 — the parser is total and `print` of a parsed tree re-parses to it.
//!
//! For every generated source text the real parser is driven through its
//! public entry point (`str::parse::<yash_syntax::syntax::List>()`, i.e.
//! `parser/from_str.rs`), the tree is printed with `Display`, the printed text
//! is parsed again, and both trees are written (locations erased) as Coq terms
//! of the AST type of `Yv.C06.Model`.  Coq then
//!   * evaluates the round-trip ORACLE on what the implementation returned
//!     (no panic, no hang, no read-ahead, re-parse succeeds, equal trees),
//!   * re-prints the tree with the Gallina model of `impl_display.rs` and
//!     compares with the implementation's text (all inputs),
//!   * re-parses the source with the Gallina model of the lexer/parser and
//!     compares with the implementation's tree (inputs inside the modelled
//!     language only; the harness says which inputs those are).

use std::cell::Cell;
use std::panic::{AssertUnwindSafe, catch_unwind};
use std::rc::Rc;
use std::sync::mpsc;
use std::time::Duration;
use yash_syntax::input::{Context, Input};
use yash_syntax::parser::Parser;
use yash_syntax::parser::lex::Lexer;
use yash_syntax::syntax::*;
use yv_harness::cli::Args;
use yv_harness::out::CasesWriter;
use yv_harness::rng::Rng;
use yv_harness::{coq, json_str};

// ---------------------------------------------------------------------------
// AST -> Coq term (locations erased)
// ---------------------------------------------------------------------------

struct Ser {
    /// include here-document contents
    bodies: bool,
}

/// A string as a Coq term of type `str` (= `list N`): printable ASCII as a
/// string literal (fast to parse), anything else as a list of code points.
fn cstr(s: &str) -> String {
    if !s.is_empty() && s.chars().all(|c| (' '..='~').contains(&c)) {
        format!("(lit \"{}\")", s.replace('"', "\"\""))
    } else {
        coq::s(s)
    }
}
fn clits(kind: &str, lits: &[char]) -> String {
    let s: String = lits.iter().collect();
    if s.chars().all(|c| (' '..='~').contains(&c)) {
        format!("{} (lit \"{}\")", kind, s.replace('"', "\"\""))
    } else {
        let v: Vec<String> = lits.iter().map(|c| cchar(*c)).collect();
        format!("{} [{}]%N", kind, v.join("; "))
    }
}
fn cchar(c: char) -> String {
    format!("{}", c as u32)
}

impl Ser {
    fn param(&self, p: &Param) -> String {
        let ty = match p.r#type {
            ParamType::Variable => "PtVariable".to_string(),
            ParamType::Special(s) => format!(
                "(PtSpecial {})",
                match s {
                    SpecialParam::At => "SpAt",
                    SpecialParam::Asterisk => "SpAsterisk",
                    SpecialParam::Number => "SpNumber",
                    SpecialParam::Question => "SpQuestion",
                    SpecialParam::Hyphen => "SpHyphen",
                    SpecialParam::Dollar => "SpDollar",
                    SpecialParam::Exclamation => "SpExclamation",
                    SpecialParam::Zero => "SpZero",
                }
            ),
            ParamType::Positional(n) => format!("(PtPositional {})", n),
        };
        format!("(mkParam {} {})", cstr(&p.id), ty)
    }

    fn modifier(&self, m: &Modifier) -> String {
        match m {
            Modifier::None => "MNone".into(),
            Modifier::Length => "MLength".into(),
            Modifier::Switch(s) => format!(
                "(MSwitch {} {} {})",
                match s.action {
                    SwitchAction::Alter => "SaAlter",
                    SwitchAction::Default => "SaDefault",
                    SwitchAction::Assign => "SaAssign",
                    SwitchAction::Error => "SaError",
                },
                match s.condition {
                    SwitchCondition::Unset => "ScUnset",
                    SwitchCondition::UnsetOrEmpty => "ScUnsetOrEmpty",
                },
                self.word(&s.word)
            ),
            Modifier::Trim(t) => format!(
                "(MTrim {} {} {})",
                match t.side {
                    TrimSide::Prefix => "TsPrefix",
                    TrimSide::Suffix => "TsSuffix",
                },
                match t.length {
                    TrimLength::Shortest => "TlShortest",
                    TrimLength::Longest => "TlLongest",
                },
                self.word(&t.pattern)
            ),
        }
    }

    fn text_unit(&self, u: &TextUnit) -> String {
        match u {
            TextUnit::Literal(c) => format!("(Literal {})", cchar(*c)),
            TextUnit::Backslashed(c) => format!("(Backslashed {})", cchar(*c)),
            TextUnit::RawParam { param, .. } => format!("(RawParam {})", self.param(param)),
            TextUnit::BracedParam(b) => {
                format!("(BracedParam {} {})", self.param(&b.param), self.modifier(&b.modifier))
            }
            TextUnit::CommandSubst { content, .. } => format!("(CommandSubst {})", cstr(content)),
            TextUnit::Backquote { content, .. } => {
                let v: Vec<String> = content
                    .iter()
                    .map(|b| match b {
                        BackquoteUnit::Literal(c) => format!("BqLiteral {}", cchar(*c)),
                        BackquoteUnit::Backslashed(c) => format!("BqBackslashed {}", cchar(*c)),
                    })
                    .collect();
                format!("(Backquote {})", coq::list(&v))
            }
            TextUnit::Arith { content, .. } => format!("(Arith {})", self.text(content)),
        }
    }

    /// `list text_unit`, runs of literals compressed as `tlits [..]`.
    fn text(&self, t: &Text) -> String {
        let mut parts: Vec<String> = vec![];
        let mut lits: Vec<char> = vec![];
        let mut single: Vec<String> = vec![];
        for u in &t.0 {
            if let TextUnit::Literal(c) = u {
                if !single.is_empty() {
                    parts.push(coq::list(&single));
                    single.clear();
                }
                lits.push(*c);
            } else {
                if !lits.is_empty() {
                    parts.push(clits("tlits", &lits));
                    lits.clear();
                }
                single.push(self.text_unit(u));
            }
        }
        if !lits.is_empty() {
            parts.push(clits("tlits", &lits));
        }
        if !single.is_empty() {
            parts.push(coq::list(&single));
        }
        match parts.len() {
            0 => "(@nil text_unit)".into(),
            1 => format!("({})", parts[0]),
            _ => format!("({})", parts.join(" ++ ")),
        }
    }

    fn escape_unit(&self, e: &EscapeUnit) -> String {
        use EscapeUnit::*;
        match e {
            Literal(c) => format!("EuLiteral {}", cchar(*c)),
            DoubleQuote => "EuDoubleQuote".into(),
            SingleQuote => "EuSingleQuote".into(),
            Backslash => "EuBackslash".into(),
            Question => "EuQuestion".into(),
            Alert => "EuAlert".into(),
            Backspace => "EuBackspace".into(),
            Escape => "EuEscape".into(),
            FormFeed => "EuFormFeed".into(),
            Newline => "EuNewline".into(),
            CarriageReturn => "EuCarriageReturn".into(),
            Tab => "EuTab".into(),
            VerticalTab => "EuVerticalTab".into(),
            Control(b) => format!("EuControl {}", b),
            Octal(b) => format!("EuOctal {}", b),
            Hex(b) => format!("EuHex {}", b),
            Unicode(c) => format!("EuUnicode {}", cchar(*c)),
        }
    }

    fn word_unit(&self, u: &WordUnit) -> String {
        match u {
            WordUnit::Unquoted(t) => format!("(Unquoted {})", self.text_unit(t)),
            WordUnit::SingleQuote(s) => format!("(SingleQuote {})", cstr(s)),
            WordUnit::DoubleQuote(t) => format!("(DoubleQuote {})", self.text(t)),
            WordUnit::DollarSingleQuote(e) => {
                let v: Vec<String> = e.0.iter().map(|x| self.escape_unit(x)).collect();
                format!("(DollarSingleQuote {})", coq::list(&v))
            }
            WordUnit::Tilde { name, followed_by_slash } => {
                format!("(Tilde {} {})", cstr(name), coq::b(*followed_by_slash))
            }
        }
    }

    /// `word` = `list word_unit`, runs of unquoted literals as `wlits [..]`.
    fn word(&self, w: &Word) -> String {
        self.units(&w.units)
    }
    fn units(&self, units: &[WordUnit]) -> String {
        let mut parts: Vec<String> = vec![];
        let mut lits: Vec<char> = vec![];
        let mut single: Vec<String> = vec![];
        for u in units {
            if let WordUnit::Unquoted(TextUnit::Literal(c)) = u {
                if !single.is_empty() {
                    parts.push(coq::list(&single));
                    single.clear();
                }
                lits.push(*c);
            } else {
                if !lits.is_empty() {
                    parts.push(clits("wlits", &lits));
                    lits.clear();
                }
                single.push(self.word_unit(u));
            }
        }
        if !lits.is_empty() {
            parts.push(clits("wlits", &lits));
        }
        if !single.is_empty() {
            parts.push(coq::list(&single));
        }
        match parts.len() {
            0 => "(@nil word_unit)".into(),
            1 => format!("({})", parts[0]),
            _ => format!("({})", parts.join(" ++ ")),
        }
    }

    fn words(&self, ws: &[Word]) -> String {
        if ws.is_empty() {
            return "(@nil word)".into();
        }
        let v: Vec<String> = ws.iter().map(|w| self.word(w)).collect();
        coq::list(&v)
    }

    fn redir(&self, r: &Redir) -> String {
        let fd = match r.fd {
            None => "None".to_string(),
            Some(fd) => format!("(Some {})", coq::z(fd.0 as i128)),
        };
        let body = match &r.body {
            RedirBody::Normal { operator, operand } => format!(
                "(RNormal {} {})",
                match operator {
                    RedirOp::FileIn => "FileIn",
                    RedirOp::FileInOut => "FileInOut",
                    RedirOp::FileOut => "FileOut",
                    RedirOp::FileAppend => "FileAppend",
                    RedirOp::FileClobber => "FileClobber",
                    RedirOp::FdIn => "FdIn",
                    RedirOp::FdOut => "FdOut",
                    RedirOp::Pipe => "Pipe",
                    RedirOp::String => "HereString",
                },
                self.word(operand)
            ),
            RedirBody::HereDoc(h) => {
                let content = match (self.bodies, h.content.get()) {
                    (true, Some(t)) => format!("(Some {})", self.text(t)),
                    _ => "None".to_string(),
                };
                format!(
                    "(RHereDoc {} {} {})",
                    self.word(&h.delimiter),
                    coq::b(h.remove_tabs),
                    content
                )
            }
        };
        format!("(mkRedir {} {})", fd, body)
    }
    fn redirs(&self, rs: &[Redir]) -> String {
        if rs.is_empty() {
            return "(@nil redir)".into();
        }
        let v: Vec<String> = rs.iter().map(|r| self.redir(r)).collect();
        coq::list(&v)
    }

    fn assign(&self, a: &Assign) -> String {
        let v = match &a.value {
            Value::Scalar(w) => format!("(Scalar {})", self.word(w)),
            Value::Array(ws) => format!("(Array {})", self.words(ws)),
        };
        format!("(mkAssign {} {})", cstr(&a.name), v)
    }

    fn list(&self, l: &List) -> String {
        if l.0.is_empty() {
            return "(@nil item)".into();
        }
        let v: Vec<String> = l.0.iter().map(|i| self.item(i)).collect();
        coq::list(&v)
    }
    fn item(&self, i: &Item) -> String {
        format!("(Item {} {})", self.and_or(&i.and_or), coq::b(i.async_flag.is_some()))
    }
    fn and_or(&self, a: &AndOrList) -> String {
        let rest: Vec<String> = a
            .rest
            .iter()
            .map(|(c, p)| {
                format!(
                    "({}, {})",
                    match c {
                        AndOr::AndThen => "AndThen",
                        AndOr::OrElse => "OrElse",
                    },
                    self.pipeline(p)
                )
            })
            .collect();
        format!("(AndOrList {} {})", self.pipeline(&a.first), coq::list(&rest))
    }
    fn pipeline(&self, p: &Pipeline) -> String {
        let v: Vec<String> = p.commands.iter().map(|c| self.command(c)).collect();
        format!("(Pipeline {} {})", coq::list(&v), coq::b(p.negation))
    }
    fn command(&self, c: &Command) -> String {
        match c {
            Command::Simple(s) => {
                let a: Vec<String> = s.assigns.iter().map(|a| self.assign(a)).collect();
                let w: Vec<String> = s
                    .words
                    .iter()
                    .map(|(w, m)| {
                        format!(
                            "({}, {})",
                            self.word(w),
                            match m {
                                ExpansionMode::Single => "Single",
                                ExpansionMode::Multiple => "Multiple",
                            }
                        )
                    })
                    .collect();
                format!(
                    "(CSimple {} {} {})",
                    if a.is_empty() { "(@nil assign)".to_string() } else { coq::list(&a) },
                    if w.is_empty() { "(@nil (word * exp_mode))".to_string() } else { coq::list(&w) },
                    self.redirs(&s.redirs)
                )
            }
            Command::Compound(f) => {
                format!("(CCompound {} {})", self.compound(&f.command), self.redirs(&f.redirs))
            }
            Command::Function(f) => format!(
                "(CFunction {} {} {} {})",
                coq::b(f.has_keyword),
                self.word(&f.name),
                self.compound(&f.body.command),
                self.redirs(&f.body.redirs)
            ),
        }
    }
    fn compound(&self, c: &CompoundCommand) -> String {
        match c {
            CompoundCommand::Grouping(l) => format!("(Grouping {})", self.list(l)),
            CompoundCommand::Subshell { body, .. } => format!("(Subshell {})", self.list(body)),
            CompoundCommand::For { name, values, body } => format!(
                "(For {} {} {})",
                self.word(name),
                match values {
                    None => "None".to_string(),
                    Some(v) => format!("(Some {})", self.words(v)),
                },
                self.list(body)
            ),
            CompoundCommand::While { condition, body } => {
                format!("(While {} {})", self.list(condition), self.list(body))
            }
            CompoundCommand::Until { condition, body } => {
                format!("(Until {} {})", self.list(condition), self.list(body))
            }
            CompoundCommand::If { condition, body, elifs, r#else } => {
                let e: Vec<String> = elifs
                    .iter()
                    .map(|e| format!("({}, {})", self.list(&e.condition), self.list(&e.body)))
                    .collect();
                format!(
                    "(If {} {} {} {})",
                    self.list(condition),
                    self.list(body),
                    if e.is_empty() {
                        "(@nil (list item * list item))".to_string()
                    } else {
                        coq::list(&e)
                    },
                    match r#else {
                        None => "None".to_string(),
                        Some(l) => format!("(Some {})", self.list(l)),
                    }
                )
            }
            CompoundCommand::Case { subject, items } => {
                let v: Vec<String> = items
                    .iter()
                    .map(|i| {
                        format!(
                            "(CaseItem {} {} {})",
                            self.words(&i.patterns),
                            self.list(&i.body),
                            match i.continuation {
                                CaseContinuation::Break => "CcBreak",
                                CaseContinuation::FallThrough => "CcFallThrough",
                                CaseContinuation::Continue => "CcContinue",
                            }
                        )
                    })
                    .collect();
                format!(
                    "(Case {} {})",
                    self.word(subject),
                    if v.is_empty() { "(@nil case_item)".to_string() } else { coq::list(&v) }
                )
            }
        }
    }
}

// ---------------------------------------------------------------------------
// here-documents of a tree, in the order their operators are printed
// ---------------------------------------------------------------------------

fn hd_redirs<'a>(rs: &'a [Redir], out: &mut Vec<&'a HereDoc>) {
    for r in rs {
        if let RedirBody::HereDoc(h) = &r.body {
            out.push(h);
        }
    }
}
fn hd_list<'a>(l: &'a List, out: &mut Vec<&'a HereDoc>) {
    for i in &l.0 {
        hd_pipeline(&i.and_or.first, out);
        for (_, p) in &i.and_or.rest {
            hd_pipeline(p, out);
        }
    }
}
fn hd_pipeline<'a>(p: &'a Pipeline, out: &mut Vec<&'a HereDoc>) {
    for c in &p.commands {
        match &**c {
            Command::Simple(s) => hd_redirs(&s.redirs, out),
            Command::Compound(f) => {
                hd_compound(&f.command, out);
                hd_redirs(&f.redirs, out);
            }
            Command::Function(f) => {
                hd_compound(&f.body.command, out);
                hd_redirs(&f.body.redirs, out);
            }
        }
    }
}
fn hd_compound<'a>(c: &'a CompoundCommand, out: &mut Vec<&'a HereDoc>) {
    match c {
        CompoundCommand::Grouping(l) => hd_list(l, out),
        CompoundCommand::Subshell { body, .. } => hd_list(body, out),
        CompoundCommand::For { body, .. } => hd_list(body, out),
        CompoundCommand::While { condition, body } | CompoundCommand::Until { condition, body } => {
            hd_list(condition, out);
            hd_list(body, out);
        }
        CompoundCommand::If { condition, body, elifs, r#else } => {
            hd_list(condition, out);
            hd_list(body, out);
            for e in elifs {
                hd_list(&e.condition, out);
                hd_list(&e.body, out);
            }
            if let Some(l) = r#else {
                hd_list(l, out);
            }
        }
        CompoundCommand::Case { items, .. } => {
            for i in items {
                hd_list(&i.body, out);
            }
        }
    }
}

// ---------------------------------------------------------------------------
// known finding F14: command substitutions accepted through the `$((` fallback
// ---------------------------------------------------------------------------

fn f14_content(c: &str) -> bool {
    let mut t = c;
    while let Some(r) = t.strip_prefix("\\\n") {
        t = r;
    }
    t.starts_with('(')
}
fn f14_text_unit(u: &TextUnit) -> bool {
    match u {
        TextUnit::CommandSubst { content, .. } => f14_content(content),
        TextUnit::BracedParam(b) => match &b.modifier {
            Modifier::Switch(s) => f14_word(&s.word),
            Modifier::Trim(t) => f14_word(&t.pattern),
            _ => false,
        },
        TextUnit::Arith { content, .. } => content.0.iter().any(f14_text_unit),
        _ => false,
    }
}
fn f14_word(w: &Word) -> bool {
    w.units.iter().any(|u| match u {
        WordUnit::Unquoted(t) => f14_text_unit(t),
        WordUnit::DoubleQuote(t) => t.0.iter().any(f14_text_unit),
        _ => false,
    })
}
fn f14_redirs(rs: &[Redir]) -> bool {
    rs.iter().any(|r| f14_word(r.body.operand()))
}
fn f14_list(l: &List) -> bool {
    l.0.iter().any(|i| {
        f14_pipeline(&i.and_or.first) || i.and_or.rest.iter().any(|(_, p)| f14_pipeline(p))
    })
}
fn f14_pipeline(p: &Pipeline) -> bool {
    p.commands.iter().any(|c| match &**c {
        Command::Simple(s) => {
            s.assigns.iter().any(|a| match &a.value {
                Value::Scalar(w) => f14_word(w),
                Value::Array(ws) => ws.iter().any(f14_word),
            }) || s.words.iter().any(|(w, _)| f14_word(w))
                || f14_redirs(&s.redirs)
        }
        Command::Compound(f) => f14_compound(&f.command) || f14_redirs(&f.redirs),
        Command::Function(f) => {
            f14_word(&f.name) || f14_compound(&f.body.command) || f14_redirs(&f.body.redirs)
        }
    })
}
fn f14_compound(c: &CompoundCommand) -> bool {
    match c {
        CompoundCommand::Grouping(l) => f14_list(l),
        CompoundCommand::Subshell { body, .. } => f14_list(body),
        CompoundCommand::For { name, values, body } => {
            f14_word(name)
                || values.as_ref().is_some_and(|v| v.iter().any(f14_word))
                || f14_list(body)
        }
        CompoundCommand::While { condition, body } | CompoundCommand::Until { condition, body } => {
            f14_list(condition) || f14_list(body)
        }
        CompoundCommand::If { condition, body, elifs, r#else } => {
            f14_list(condition)
                || f14_list(body)
                || elifs.iter().any(|e| f14_list(&e.condition) || f14_list(&e.body))
                || r#else.as_ref().is_some_and(f14_list)
        }
        CompoundCommand::Case { subject, items } => {
            f14_word(subject)
                || items.iter().any(|i| i.patterns.iter().any(f14_word) || f14_list(&i.body))
        }
    }
}

/// The text that has to follow the printed single-line form so that the
/// here-documents of the tree get their contents back: one body + delimiter
/// line per here-document.  `None` if some body cannot be written back (a
/// content line would be taken for the delimiter, or the delimiter spans
/// lines): such a case is outside what the property states.
fn heredoc_bodies(l: &List) -> Option<(usize, String)> {
    let mut hs = vec![];
    hd_list(l, &mut hs);
    let mut out = String::new();
    for h in &hs {
        let (delim, _) = h.delimiter.unquote();
        if delim.contains('\n') {
            return None;
        }
        let content = h.content.get().map(|t| t.to_string()).unwrap_or_default();
        for line in content.split_inclusive('\n') {
            let l = line.strip_suffix('\n').unwrap_or(line);
            let l = if h.remove_tabs { l.trim_start_matches('\t') } else { l };
            if l == delim || !line.ends_with('\n') {
                return None;
            }
        }
        out.push_str(&content);
        out.push_str(&delim);
        out.push('\n');
    }
    Some((hs.len(), out))
}

// ---------------------------------------------------------------------------
// running the real parser
// ---------------------------------------------------------------------------

/// Input that hands out the text line by line and counts the requests.
struct Counting {
    lines: Vec<String>,
    next: usize,
    calls: Rc<Cell<usize>>,
}
impl Input for Counting {
    async fn next_line(&mut self, _: &Context) -> yash_syntax::input::Result {
        self.calls.set(self.calls.get() + 1);
        let l = self.lines.get(self.next).cloned().unwrap_or_default();
        self.next += 1;
        Ok(l)
    }
}

#[derive(Clone, Debug, PartialEq)]
enum Parsed {
    /// (tree without bodies, tree with bodies, printed text, #here-docs, text to append for re-parsing)
    Tree { term: String, term_bodies: String, printed: String, heredocs: usize, bodies: Option<String>, f14: bool },
    Err(String),
    Panic(String),
    Timeout,
    /// the input was requested more often than it has lines (+1 for the end)
    ReadAhead(usize),
}

fn panic_msg(e: Box<dyn std::any::Any + Send>) -> String {
    if let Some(s) = e.downcast_ref::<&str>() {
        s.to_string()
    } else if let Some(s) = e.downcast_ref::<String>() {
        s.clone()
    } else {
        "?".into()
    }
}

/// `List::from_str` re-assembled on a counting input (same calls as
/// `parser/from_str.rs`).
fn parse_counting(src: &str) -> (Result<List, yash_syntax::parser::Error>, usize, usize) {
    use futures_util::future::FutureExt as _;
    let lines: Vec<String> = src.split_inclusive('\n').map(|s| s.to_string()).collect();
    let n = lines.len();
    let calls = Rc::new(Cell::new(0));
    let input = Counting { lines, next: 0, calls: calls.clone() };
    let mut lexer = Lexer::new(Box::new(input));
    let mut parser = Parser::new(&mut lexer);
    let r = parser.maybe_compound_list().now_or_never().expect("parser blocked");
    let r = r.and_then(|l| parser.ensure_no_unread_here_doc().map(|_| l));
    (r, calls.get(), n)
}

fn parse_once(src: &str) -> Parsed {
    let r = catch_unwind(AssertUnwindSafe(|| {
        let direct = src.parse::<List>();
        let (counted, calls, nlines) = parse_counting(src);
        (direct, counted, calls, nlines)
    }));
    let (direct, counted, calls, nlines) = match r {
        Err(e) => return Parsed::Panic(panic_msg(e)),
        Ok(x) => x,
    };
    if calls > nlines + 1 {
        return Parsed::ReadAhead(calls);
    }
    match (direct, counted) {
        (Ok(l), Ok(l2)) => {
            let r = catch_unwind(AssertUnwindSafe(|| {
                let printed = l.to_string();
                let term = Ser { bodies: false }.list(&l);
                let term2 = Ser { bodies: false }.list(&l2);
                assert_eq!(term, term2, "from_str and the counting re-assembly disagree");
                let term_bodies = Ser { bodies: true }.list(&l);
                let (heredocs, bodies) = match heredoc_bodies(&l) {
                    Some((n, b)) => (n, Some(b)),
                    None => (usize::MAX, None),
                };
                let f14 = f14_list(&l);
                Parsed::Tree { term, term_bodies, printed, heredocs, bodies, f14 }
            }));
            match r {
                Ok(p) => p,
                Err(e) => Parsed::Panic(panic_msg(e)),
            }
        }
        (Err(e), Err(_)) => Parsed::Err(format!("{}", e.cause)),
        (a, b) => Parsed::Panic(format!(
            "from_str and the counting re-assembly disagree: {:?} / {:?}",
            a.is_ok(),
            b.is_ok()
        )),
    }
}

/// Everything observed for one source text.
#[derive(Clone, Debug)]
struct Obs {
    first: Parsed,
    /// text that was parsed the second time (printed form + here-doc bodies)
    second_src: Option<String>,
    second: Option<Parsed>,
}

fn observe(src: &str) -> Obs {
    let first = parse_once(src);
    let (second_src, second) = match &first {
        Parsed::Tree { printed, heredocs, bodies, .. } => {
            // a text that ends with an unquoted backslash cannot be followed by
            // the newline that introduces the here-document bodies (it would
            // be a line continuation)
            let trailing_backslashes = printed.chars().rev().take_while(|c| *c == '\\').count();
            if *heredocs == 0 {
                (Some(printed.clone()), Some(parse_once(printed)))
            } else if trailing_backslashes % 2 == 1 {
                (None, None)
            } else if let Some(b) = bodies {
                let s = format!("{}\n{}", printed, b);
                let p = parse_once(&s);
                (Some(s), Some(p))
            } else {
                (None, None)
            }
        }
        _ => (None, None),
    };
    Obs { first, second_src, second }
}

/// Runs `observe` in a worker thread with a big stack; a case that does not
/// come back within the budget is reported as `Timeout` (the worker is
/// abandoned and replaced).
struct Runner {
    tx: mpsc::Sender<String>,
    rx: mpsc::Receiver<Obs>,
}

impl Runner {
    fn spawn() -> Runner {
        let (tx, wrx) = mpsc::channel::<String>();
        let (wtx, rx) = mpsc::channel::<Obs>();
        std::thread::Builder::new()
            .stack_size(1 << 30)
            .spawn(move || {
                while let Ok(src) = wrx.recv() {
                    let o = observe(&src);
                    if wtx.send(o).is_err() {
                        break;
                    }
                }
            })
            .unwrap();
        Runner { tx, rx }
    }
    fn run(&mut self, src: &str) -> Obs {
        self.tx.send(src.to_string()).unwrap();
        match self.rx.recv_timeout(Duration::from_secs(20)) {
            Ok(o) => o,
            Err(_) => {
                *self = Runner::spawn();
                Obs { first: Parsed::Timeout, second_src: None, second: None }
            }
        }
    }
}

// ---------------------------------------------------------------------------
// generators
// ---------------------------------------------------------------------------

/// Grammar-directed generator of shell source text with surface variation.
struct Gen {
    r: Rng,
    /// here-document bodies waiting for the next newline token
    pending: Vec<String>,
    /// rough output budget (characters)
    budget: i64,
}

const NAMES: [&str; 10] = ["a", "x", "foo", "bar", "_v1", "IFS", "PATH", "i", "n0", "HOME"];
const CMDS: [&str; 12] =
    ["echo", "cat", ":", "true", "false", "printf", "export", "readonly", "command", "test", "[", "set"];
const KEYWORDS: [&str; 21] = [
    "!", "[[", "]]", "case", "do", "done", "elif", "else", "esac", "fi", "for", "function", "if",
    "in", "namespace", "select", "then", "until", "while", "{", "}",
];

impl Gen {
    fn new(r: Rng) -> Gen {
        Gen { r, pending: vec![], budget: 90 }
    }
    fn pick<'a>(&mut self, l: &[&'a str]) -> &'a str {
        l[self.r.below(l.len())]
    }
    fn chance(&mut self, n: u32, d: u32) -> bool {
        self.r.chance(n, d)
    }
    fn blank(&mut self) -> String {
        match self.r.below(40) {
            0 => "\t".into(),
            1 => "  ".into(),
            2 => " \\\n".into(),
            3 => "\\\n ".into(),
            4 => "\u{a0}".into(),
            5 => " \t ".into(),
            _ => " ".into(),
        }
    }
    fn oblank(&mut self) -> String {
        if self.chance(1, 4) { self.blank() } else { String::new() }
    }
    /// a newline token (with an optional comment before it) followed by the
    /// pending here-document bodies
    fn newline(&mut self) -> String {
        let mut s = String::new();
        if self.chance(1, 8) {
            s.push_str(self.pick(&[" # c", "#", " #; }", "\t# 'x \"y", " # $( `"]));
        }
        s.push('\n');
        for b in std::mem::take(&mut self.pending) {
            s.push_str(&b);
        }
        s
    }
    fn name(&mut self) -> String {
        self.pick(&NAMES).to_string()
    }

    // ---- words -------------------------------------------------------------

    fn lit_char(&mut self) -> char {
        const COMMON: &[u8] = b"abcdefxyz0123456789_";
        const ODD: &[u8] = b"-+=:,./@%^]*?[~#!{}";
        match self.r.below(12) {
            0..=8 => COMMON[self.r.below(COMMON.len())] as char,
            9..=10 => ODD[self.r.below(ODD.len())] as char,
            _ => *self.r.pick(&['é', 'あ', '\u{1F600}', '\u{7f}', '\u{1}', '\u{2003}']),
        }
    }
    fn special_char(&mut self) -> char {
        const S: &[u8] = b" \t\n;&|<>()$`\\\"'#{}=~*?[]!-:%+/";
        S[self.r.below(S.len())] as char
    }
    fn param_name(&mut self) -> String {
        match self.r.below(10) {
            0..=4 => self.name(),
            5 => self.pick(&["1", "2", "9", "0"]).to_string(),
            6 => self.pick(&["@", "*", "#", "?", "-", "$", "!"]).to_string(),
            7 => self.pick(&["10", "00", "123", "99999999999999999999999"]).to_string(),
            _ => self.name(),
        }
    }
    fn dollar_single(&mut self) -> String {
        let mut s = String::from("$'");
        for _ in 0..self.r.below(5) {
            let e = match self.r.below(24) {
                0 => "\\\"".to_string(),
                1 => "\\'".to_string(),
                2 => "\\\\".to_string(),
                3 => "\\?".to_string(),
                4 => format!("\\{}", self.pick(&["a", "b", "e", "E", "f", "n", "r", "t", "v"])),
                5 => format!("\\c{}", self.pick(&["A", "a", "z", "@", "[", "\\\\", "]", "^", "_", "?"])),
                6 => format!("\\{}", self.pick(&["0", "7", "12", "101", "377", "0123", "18"])),
                7 => format!("\\x{}", self.pick(&["0", "41", "a", "FF", "fff", "4g"])),
                8 => format!("\\u{}", self.pick(&["41", "00e9", "3042", "12345", "27"])),
                9 => format!("\\U{}", self.pick(&["41", "0001F600", "1f600", "0000005c"])),
                10 if self.chance(1, 6) => self.pick(&["\\q", "\\c\\", "\\c1", "\\cé", "\\400", "\\x", "\\xg", "\\u", "\\ud800", "\\U", "\\U00110000", "\\\n"]).to_string(),
                11 => "\n".to_string(),
                12 => "\"".to_string(),
                13 => " ".to_string(),
                _ => self.lit_char().to_string(),
            };
            s.push_str(&e);
        }
        if !self.chance(1, 150) {
            s.push('\'');
        }
        s
    }
    fn braced(&mut self, depth: u32, in_dq: bool) -> String {
        let p = self.param_name();
        let inner = |g: &mut Gen| g.word_in(depth + 1, in_dq, true);
        match self.r.below(16) {
            0..=2 => format!("${{{}}}", p),
            3 => format!("${{#{}}}", p),
            4 => self.pick(&["${#}", "${##}", "${#-}", "${#?}", "${#!}", "${#$}", "${###}", "${#%}", "${#:-x}", "${#-x}", "${##x}", "${#@}", "${#*}", "${#%%}", "${#=}", "${#+a}", "${#?x}"]).to_string(),
            5..=8 => {
                let c = if self.chance(1, 2) { ":" } else { "" };
                let a = self.pick(&["-", "+", "=", "?"]);
                let w = inner(self);
                format!("${{{}{}{}{}}}", p, c, a, w)
            }
            9..=11 => {
                let t = self.pick(&["#", "##", "%", "%%"]);
                let w = inner(self);
                format!("${{{}{}{}}}", p, t, w)
            }
            12 if self.chance(1, 40) => format!("${{{}:{}}}", p, self.pick(&["", "x", "#a", "%b", "1:2"])),
            13 if self.chance(1, 40) => self.pick(&["${}", "${", "${a", "${a-", "${1a}", "${a b}", "${a!}", "${é}", "${~}", "${#x-y}", "${#x#y}"]).to_string(),
            14 => format!("${{{}\\\n}}", p),
            _ => format!("${{{}}}", p),
        }
    }
    fn arith(&mut self, depth: u32, in_dq: bool) -> String {
        let mut s = String::from("$((");
        for _ in 0..self.r.below(6) {
            let u = match self.r.below(14) {
                0..=3 => self.pick(&["1", "2", "x", "+", "*", " ", "-", "<<", "a=", "? :"]).to_string(),
                4 => format!("${}", self.param_name()),
                5 => self.braced(depth + 1, in_dq),
                6 if depth < 3 => format!("({})", self.pick(&["1", "x+1", "(2)", ""])),
                7 if depth < 3 => self.arith(depth + 1, in_dq),
                8 if depth < 3 => self.cmdsubst(depth + 1),
                9 => self.pick(&["\\$", "\\\\", "\\a", "\\`", "\\\""]).to_string(),
                10 => self.pick(&["\"", "'", "#", ";", "(1)", "\"", "'"]).to_string(),
                11 if depth < 3 => self.backquote(in_dq),
                _ => self.pick(&["1", "y"]).to_string(),
            };
            s.push_str(&u);
        }
        s.push_str(if self.chance(1, 60) { self.pick(&[") )", ")"]) } else { "))" });
        s
    }
    fn cmdsubst(&mut self, depth: u32) -> String {
        if depth > 3 || self.budget < 0 {
            return "$(x)".into();
        }
        // here-documents inside a command substitution are closed inside it
        let saved = std::mem::take(&mut self.pending);
        let mut body = self.list(depth + 1, 2);
        if !self.pending.is_empty() {
            body.push_str(&self.newline());
        }
        self.pending = saved;
        match self.r.below(12) {
            0 => "$()".into(),
            1 => format!("$( {})", body),
            2 => format!("$({} # c\n)", body),
            3 if self.chance(1, 4) => format!("$(({}); (x))", body),
            _ => format!("$({})", body),
        }
    }
    fn backquote(&mut self, _in_dq: bool) -> String {
        let mut s = String::from("`");
        for _ in 0..self.r.below(6) {
            let u = match self.r.below(10) {
                0 => "\\`".to_string(),
                1 => "\\$".to_string(),
                2 => "\\\\".to_string(),
                3 => "\\\"".to_string(),
                4 => self.pick(&["\\a", "\\a", "\\\\\n", "\\\\\n\n", "\\\n"]).to_string(),
                5 => " ".to_string(),
                6 => self.special_char().to_string().replace(['`', '\\'], "x"),
                _ => self.lit_char().to_string(),
            };
            s.push_str(&u);
        }
        if !self.chance(1, 150) {
            s.push('`');
        }
        s
    }
    fn dquote(&mut self, depth: u32) -> String {
        let mut s = String::from("\"");
        for _ in 0..self.r.below(6) {
            let u = match self.r.below(20) {
                0..=5 => self.lit_char().to_string(),
                6 => self.pick(&[" ", "'", ";", "}", "#", "\n", "(", "~", "{"]).to_string(),
                7 => self.pick(&["\\$", "\\\"", "\\\\", "\\`", "\\a", "\\'", "\\}", "\\\n"]).to_string(),
                8..=9 => format!("${}", self.param_name()),
                10..=11 => self.braced(depth + 1, true),
                12 if depth < 3 => self.cmdsubst(depth + 1),
                13 if depth < 3 => self.backquote(true),
                14 if depth < 3 => self.arith(depth + 1, true),
                15 => "$".to_string(),
                16 => "$'".to_string(),
                _ => self.lit_char().to_string(),
            };
            s.push_str(&u);
        }
        if !self.chance(1, 150) {
            s.push('"');
        }
        s
    }
    /// one word; `in_dq`: nested inside double quotes (single quotes are
    /// literal there); `in_brace`: the word ends at `}`
    fn word_in(&mut self, depth: u32, in_dq: bool, in_brace: bool) -> String {
        self.budget -= 4;
        let n = if in_brace { self.r.below(4) } else { 1 + self.r.below(3) };
        let mut s = String::new();
        for k in 0..n {
            let u = match self.r.below(40) {
                0..=13 => {
                    let mut t = String::new();
                    for _ in 0..1 + self.r.below(4) {
                        t.push(self.lit_char());
                    }
                    if k == 0 && !in_brace {
                        // a leading '#' would start a comment
                        t = t.trim_start_matches('#').to_string();
                    }
                    t
                }
                14..=15 => format!("\\{}", self.special_char()),
                16 => format!("\\{}", self.lit_char()),
                17..=18 if !in_dq => {
                    let mut t = String::from("'");
                    for _ in 0..self.r.below(5) {
                        let c = if self.chance(1, 2) { self.special_char() } else { self.lit_char() };
                        if c != '\'' {
                            t.push(c);
                        }
                    }
                    if !self.chance(1, 150) {
                        t.push('\'');
                    }
                    t
                }
                19..=21 => self.dquote(depth),
                22..=24 => format!("${}", self.param_name()),
                25..=27 => self.braced(depth, in_dq),
                28..=29 if depth < 3 => self.cmdsubst(depth + 1),
                30 if depth < 3 => self.backquote(in_dq),
                31..=32 if depth < 3 => self.arith(depth + 1, in_dq),
                33..=34 if !in_dq => self.dollar_single(),
                35 => self.pick(&["~", "~/", "~foo", "~foo/x", "~:~", "~+", "~\"a\""]).to_string(),
                36 => "$".to_string(),
                37 if in_brace => self.pick(&[" ", ";", "\n", "(", ")", "<", "|", "&", "#"]).to_string(),
                38 => self.pick(&["=", ":", "=~", ":~/x", "{", "}", "{a,b}"]).to_string(),
                _ => self.lit_char().to_string(),
            };
            s.push_str(&u);
        }
        s
    }
    fn word(&mut self, depth: u32) -> String {
        let w = self.word_in(depth, false, false);
        if w.is_empty() { "w".into() } else { w }
    }

    // ---- redirections ----------------------------------------------------------

    fn redir(&mut self, depth: u32) -> String {
        let fd = match self.r.below(8) {
            0 => self.pick(&["0", "1", "2", "3", "10", "002", "2", "1"]).to_string(),
            _ => String::new(),
        };
        if self.chance(1, 6) {
            // here-document
            let op = if self.chance(1, 3) { "<<-" } else { "<<" };
            let (delim_src, delim, quoted) = match self.r.below(8) {
                0 => ("'E O F'".to_string(), "E O F".to_string(), true),
                1 => ("\\EOF".to_string(), "EOF".to_string(), true),
                2 => ("\"END\"".to_string(), "END".to_string(), true),
                3 => ("-".to_string(), "-".to_string(), false),
                4 => ("-x".to_string(), "-x".to_string(), false),
                _ => ("EOF".to_string(), "EOF".to_string(), false),
            };
            let mut body = String::new();
            for _ in 0..self.r.below(3) {
                if op == "<<-" && self.chance(1, 2) {
                    body.push('\t');
                }
                let line = match self.r.below(6) {
                    0 if !quoted => format!("a ${} b", self.param_name()),
                    1 if !quoted => "x \\$ \\\\ \\a `echo`".to_string(),
                    2 if !quoted => "$(echo)".to_string(),
                    3 => "'q\" )".to_string(),
                    4 => String::new(),
                    _ => "text".to_string(),
                };
                body.push_str(&line);
                body.push('\n');
            }
            if op == "<<-" && self.chance(1, 2) {
                body.push('\t');
            }
            body.push_str(&delim);
            body.push('\n');
            self.pending.push(body);
            let sp = if delim_src.starts_with('-') || self.chance(1, 3) { " " } else { "" };
            return format!("{}{}{}{}", fd, op, sp, delim_src);
        }
        let op = self.pick(&["<", ">", ">>", ">|", "<>", "<&", ">&", ">>|", "<<<", "<", ">"]);
        let target = match self.r.below(8) {
            0 if op.ends_with('&') => self.pick(&["-", "1", "2", "$fd"]).to_string(),
            1 => self.pick(&["/dev/null", "f", "2", "{x}", "-"]).to_string(),
            _ => self.word(depth + 1),
        };
        format!("{}{}{}{}", fd, op, self.oblank(), target)
    }

    // ---- commands -----------------------------------------------------------------

    fn simple(&mut self, depth: u32) -> String {
        let mut parts: Vec<String> = vec![];
        let na = if self.chance(1, 4) { 1 + self.r.below(2) } else { 0 };
        let nw = if na > 0 && self.chance(1, 3) { 0 } else { 1 + self.r.below(4) };
        let nr = if self.chance(1, 3) { 1 + self.r.below(2) } else { 0 };
        for _ in 0..na {
            let n = if self.chance(1, 10) {
                self.pick(&["a+", "1", "é", "{", "a.b", "if"]).to_string()
            } else {
                self.name()
            };
            let v = match self.r.below(8) {
                0 => String::new(),
                1 => {
                    let mut s = String::from("(");
                    for _ in 0..self.r.below(3) {
                        s.push_str(&self.word(depth + 1));
                        s.push_str(if self.chance(1, 5) { "\n" } else { " " });
                    }
                    s.push(')');
                    s
                }
                2 => self.pick(&["~", "~/x:~", "~a:b:~", "a:~", "\"~\""]).to_string(),
                _ => self.word(depth + 1),
            };
            parts.push(format!("{}={}", n, v));
        }
        for k in 0..nw {
            let w = if k == 0 {
                match self.r.below(12) {
                    0..=5 => self.pick(&CMDS).to_string(),
                    6 => format!("\\{}", self.pick(&KEYWORDS[3..19])),
                    _ => self.word(depth + 1),
                }
            } else {
                match self.r.below(14) {
                    0 => self.pick(&KEYWORDS).to_string(),
                    1 => format!("{}={}", self.name(), self.pick(&["~", "~/a:~b", "x", "", "\"~\""])),
                    2 => self.pick(&["1", "2", "-n", "--", "}", "{", "!", "a=", "=b"]).to_string(),
                    _ => self.word(depth + 1),
                }
            };
            parts.push(w);
        }
        // redirections at random positions
        for _ in 0..nr {
            let r = self.redir(depth);
            let pos = if self.chance(1, 2) { parts.len() } else { self.r.below(parts.len() + 1) };
            parts.insert(pos, r);
        }
        // a keyword may follow a leading redirection
        if self.chance(1, 25) {
            let r = self.redir(depth);
            let k = self.pick(&KEYWORDS).to_string();
            parts.insert(0, k);
            parts.insert(0, r);
        }
        let mut s = String::new();
        for (i, p) in parts.iter().enumerate() {
            if i > 0 {
                s.push_str(&self.blank());
            }
            s.push_str(p);
        }
        s
    }
    /// `;`-or-newline terminated list for the inside of a compound command
    fn body(&mut self, depth: u32) -> String {
        let mut s = self.list(depth + 1, 2);
        match self.r.below(6) {
            0 => s.push_str(&self.newline()),
            1 if !s.trim_end().ends_with('&') => s.push_str(" ;"),
            2 => {
                if !s.trim_end().ends_with('&') {
                    s.push(';');
                }
                s.push_str(&self.newline());
            }
            _ => {
                if !s.trim_end().ends_with('&') {
                    s.push(';');
                }
            }
        }
        s
    }
    fn compound(&mut self, depth: u32) -> String {
        let d = depth + 1;
        let b1 = self.blank();
        let b2 = self.blank();
        let mut s = match self.r.below(9) {
            0..=1 => format!("{{{}{}{}}}", b1, self.body(d), b2),
            2 => {
                let l = self.list(d, 2);
                let nl = if self.chance(1, 5) { self.newline() } else { String::new() };
                format!("({}{}{}{})", self.oblank(), l, nl, self.oblank())
            }
            3 => {
                let name = if self.chance(1, 8) { self.word(d) } else { self.name() };
                let vals = match self.r.below(5) {
                    0 => String::new(),
                    1 => ";".to_string(),
                    2 => format!("{}in;", b1),
                    3 => {
                        let nl = self.newline();
                        format!("{}in {}{}", nl, self.word(d), nl.clone())
                    }
                    _ => {
                        let mut v = format!("{}in", b1);
                        for _ in 0..self.r.below(4) {
                            v.push(' ');
                            v.push_str(&self.word(d));
                        }
                        v.push_str(if self.chance(1, 2) { ";" } else { "\n" });
                        v
                    }
                };
                format!("for {}{} do {} done", name, vals, self.body(d))
            }
            4 => format!("while {} do {} done", self.body(d), self.body(d)),
            5 => format!("until {} do {} done", self.body(d), self.body(d)),
            6..=7 => {
                let mut s = format!("if {} then {}", self.body(d), self.body(d));
                for _ in 0..self.r.below(3) {
                    s.push_str(&format!(" elif {} then {}", self.body(d), self.body(d)));
                }
                if self.chance(1, 2) {
                    s.push_str(&format!(" else {}", self.body(d)));
                }
                s.push_str(" fi");
                s
            }
            _ => {
                let mut s = format!("case {} in", self.word(d));
                s.push_str(&if self.chance(1, 3) { self.newline() } else { " ".to_string() });
                let n = self.r.below(4);
                for k in 0..n {
                    let paren = self.chance(1, 2);
                    if paren {
                        s.push('(');
                    }
                    let np = 1 + self.r.below(3);
                    for j in 0..np {
                        if j > 0 {
                            s.push_str(self.pick(&["|", " | "]));
                        }
                        let p = if self.chance(1, 10) {
                            self.pick(&["if", "in", "do", if paren && j == 0 { "esac" } else { "fi" }, "*", "[a-z]*"]).to_string()
                        } else {
                            self.word(d)
                        };
                        s.push_str(&p);
                    }
                    s.push(')');
                    if self.chance(3, 4) {
                        s.push(' ');
                        s.push_str(&self.list(d, 2));
                    }
                    if k + 1 < n || self.chance(2, 3) {
                        s.push_str(self.pick(&[";;", " ;;", ";&", ";|", ";;&", ";;"]));
                    }
                    s.push_str(&if self.chance(1, 3) { self.newline() } else { " ".to_string() });
                }
                s.push_str(" esac");
                s
            }
        };
        for _ in 0..(if self.chance(1, 5) { 1 + self.r.below(2) } else { 0 }) {
            s.push(' ');
            s.push_str(&self.redir(depth));
        }
        s
    }
    fn function(&mut self, depth: u32) -> String {
        let name = match self.r.below(10) {
            0 => self.pick(&["$", "a$", "\\if", "\"f g\"", "f-1", "2", "a=b\\", "$x", "~", "~a$", "~$", "~a\\$"]).to_string(),
            1 => self.word(depth + 1),
            _ => self.name(),
        };
        let paren = self.pick(&["()", " ()", "( )", "() ", " ( ) "]);
        let nl = if self.chance(1, 6) { self.newline() } else { String::new() };
        format!("{}{}{}{}", name, paren, nl, self.compound(depth + 1))
    }
    fn command(&mut self, depth: u32) -> String {
        self.budget -= 10;
        if depth > 3 || self.budget < 0 {
            return self.simple(depth);
        }
        match self.r.below(10) {
            0..=5 => self.simple(depth),
            6..=8 => self.compound(depth),
            _ => self.function(depth),
        }
    }
    fn pipeline(&mut self, depth: u32) -> String {
        let mut s = String::new();
        if self.chance(1, 8) {
            s.push_str("! ");
        }
        s.push_str(&self.command(depth));
        while self.chance(1, 5) && self.budget > 0 {
            let op = match self.r.below(5) {
                0 => format!(" |{}", self.newline()),
                1 => "|".to_string(),
                _ => " | ".to_string(),
            };
            s.push_str(&op);
            s.push_str(&self.command(depth));
        }
        s
    }
    fn and_or(&mut self, depth: u32) -> String {
        let mut s = self.pipeline(depth);
        while self.chance(1, 6) && self.budget > 0 {
            let op = self.pick(&[" && ", " || ", "&&", "||"]).to_string();
            s.push_str(&op);
            if self.chance(1, 5) {
                let nl = self.newline();
                s.push_str(&nl);
            }
            s.push_str(&self.pipeline(depth));
        }
        s
    }
    fn list(&mut self, depth: u32, max: usize) -> String {
        let n = if self.budget < 0 { 1 } else { 1 + self.r.below(max) };
        let mut s = String::new();
        for k in 0..n {
            s.push_str(&self.and_or(depth));
            if k + 1 < n {
                let sep = match self.r.below(8) {
                    0 => self.newline(),
                    1 => "&".to_string(),
                    2 => " & ".to_string(),
                    3 => format!(";{}", self.newline()),
                    4 => format!("&{}", self.newline()),
                    _ => self.pick(&["; ", ";", " ; "]).to_string(),
                };
                s.push_str(&sep);
            } else if self.chance(1, 8) {
                s.push_str(self.pick(&["&", " &"]));
            }
        }
        s
    }
    fn program(&mut self) -> String {
        if self.chance(1, 25) && self.pending.is_empty() {
            // a simple command that ends the text with an unquoted backslash,
            // with a redirection before the last word
            let r = self.redir(1);
            let w = match self.r.below(5) {
                0 => "~a".to_string(),
                1 => format!("{}=~", self.name()),
                2 => format!("{}=x", self.name()),
                _ => self.name(),
            };
            let pre = if self.chance(1, 2) { format!("{}; ", self.simple(1)) } else { String::new() };
            if self.pending.is_empty() {
                return format!("{}{} {}\\", pre, r, w);
            }
        }
        let mut s = self.list(0, 3);
        if self.chance(1, 10) && !s.trim_end().ends_with('&') {
            s.push(';');
        }
        if !self.pending.is_empty() || self.chance(1, 3) {
            s.push_str(&self.newline());
        }
        s
    }
}

/// 1-3 random edits: deletions, swaps, duplications, insertions of special
/// characters, truncation.
fn mutate(r: &mut Rng, src: &str) -> String {
    let mut v: Vec<char> = src.chars().collect();
    const SPECIAL: &[char] = &[
        '\'', '"', '`', '$', '\\', '{', '}', '(', ')', ';', '&', '|', '<', '>', '\n', ' ', '#', '!',
        '=', '~', '-', '\u{a0}', '0',
    ];
    for _ in 0..1 + r.below(3) {
        if v.is_empty() {
            break;
        }
        let i = r.below(v.len());
        match r.below(9) {
            0 => {
                v.remove(i);
            }
            1 => {
                let j = (i + 1 + r.below(6)).min(v.len());
                v.drain(i..j);
            }
            2 => {
                if i + 1 < v.len() {
                    v.swap(i, i + 1);
                }
            }
            3 => {
                let j = (i + 1 + r.below(8)).min(v.len());
                let seg: Vec<char> = v[i..j].to_vec();
                for (k, c) in seg.into_iter().enumerate() {
                    v.insert(j + k, c);
                }
            }
            4 | 5 => v.insert(i, *r.pick(SPECIAL)),
            6 => v[i] = *r.pick(SPECIAL),
            7 => v.truncate(i),
            _ => {
                // unbalance: drop the first closing delimiter after i
                if let Some(k) = v[i..].iter().position(|c| matches!(c, '\'' | '"' | '}' | ')' | '`')) {
                    v.remove(i + k);
                }
            }
        }
    }
    v.into_iter().collect()
}

fn soup(r: &mut Rng) -> String {
    const P: &[char] = &[
        ' ', '\t', '\n', ';', '&', '|', '<', '>', '(', ')', '$', '`', '\\', '"', '\'', '#', '{', '}',
        '=', '~', '*', '?', '[', ']', '!', '-', ':', '%', '+', '/', 'a', 'x', '1', '0', 'i', 'f', 'd',
        'o', 'n', 'e', '\u{0}', '\u{7f}', '\u{85}', '\u{a0}', '\u{2003}', '\u{3000}', 'é', '\u{1F600}',
        '\u{d7ff}', '\u{10FFFF}', '\r', '\u{b}', '\u{c}',
    ];
    let max = if r.chance(1, 4) { 40 } else { 12 };
    let n = 1 + r.below(max);
    let mut s = String::new();
    for _ in 0..n {
        if r.chance(1, 50) {
            s.push(char::from_u32(r.below(0x11_0000) as u32).unwrap_or('x'));
        } else if r.chance(1, 12) {
            s.push_str(*r.pick(&["if ", "then ", "fi", "do ", "done", "case ", "esac", "in ", "for ", "while ", "${", "$((", "$(", "<<", "<<-"]));
        } else {
            s.push(*r.pick(P));
        }
    }
    s
}

/// Characters for the positions where the lexer tests a character class:
/// ASCII digits and letters next to their non-ASCII lookalikes (full-width,
/// Arabic-Indic, Devanagari, superscripts, Roman numerals, fractions),
/// combining marks and non-ASCII blanks.
const UNI_POOL: &[char] = &[
    '0', '1', '5', '9', 'a', 'Z', '_', 'x',
    '\u{FF10}', '\u{FF15}', '\u{FF19}', // full-width digits
    '\u{FF41}', '\u{FF38}', '\u{FF3F}', // full-width letters and low line
    '\u{0660}', '\u{0663}', '\u{06F5}', '\u{096B}', // Arabic-Indic, extended, Devanagari digits
    '\u{00B2}', '\u{00B9}', '\u{2075}', // superscripts
    '\u{2160}', '\u{2163}', '\u{216F}', // Roman numerals
    '\u{00BD}', '\u{2155}', // fractions
    '\u{0301}', '\u{20DD}', '\u{200B}', // combining marks, zero-width space
    '\u{00A0}', '\u{3000}', '\u{2003}', '\u{0085}', '\u{2028}', // non-ASCII blanks, line separator
    '\u{00E9}', '\u{00DF}', '\u{01C5}', '\u{0130}', // letters, title case, dotted capital I
    '\u{FF04}', '\u{FF1C}', '\u{FF1E}', '\u{FF5B}', '\u{FF03}', '\u{FF5E}', // full-width $ < > { # ~
    '\u{1D7D8}', '\u{1F600}', // mathematical digit (astral), emoji
];

/// Texts with a hole `@` (and optionally a second hole `%`) at a position
/// where a character class decides how the text is read.
const UNI_TEMPLATES: &[&str] = &[
    // after `$`
    "echo $@", "echo $@@", "echo $@%", "echo a$@b", "echo \"$@\"", "echo \"a $@% b\"", "echo $@$%",
    "echo $((@))", "echo $(($@))", "echo $(( $@ + % ))", "echo $((1@))", "echo `echo $@`", "echo $(echo $@)",
    // after `${`, `${#`
    "echo ${@}", "echo ${@%}", "echo ${#@}", "echo ${#@%}", "echo ${a@}", "echo ${1@}", "echo ${@1}",
    "echo ${@:-%}", "echo ${x:-$@}", "echo ${#}@", "echo \"${@}\"", "echo ${@#%}", "echo ${#@:-x}",
    // IO numbers and redirections
    "@>file", "echo @>file", "echo 2@>f", "echo @2>f", "@<f", "echo @>&2", "echo >&@", "echo 2>&@",
    "echo @>>f", "echo <>@", "echo {@}>f", ">@ if",
    // assignments and names
    "@=1", "a@=1 cmd", "@a=1", "@=(a b)", "x=(@ %)", "export @=~/a", "export a=~@", "@=% cmd", "a=@ b=%",
    "@() { :; }", "f@ () { :; }", "for @ in a; do :; done", "for i in @; do echo $@; done",
    // tilde
    "~@", "echo ~@/foo", "a=~@:~%", "echo ~@%", "echo ~a@",
    // escapes in dollar-single-quotes
    "echo $'\\x@'", "echo $'\\x4@'", "echo $'\\u@'", "echo $'\\u00@'", "echo $'\\U@'", "echo $'\\@'",
    "echo $'\\1@'", "echo $'\\c@'", "echo $'@'", "echo $'\\12@%'",
    // keywords and lookalikes
    "@if true; then :; fi", "if@ true; then :; fi", "if true; then@ :; fi", "{@ :; }", "{ :; }@", "!@ true",
    "! @", "@", "@ %", "case @ in @) ;; esac", "case x in (@|%) :;; esac", "while @; do :; done",
    "\u{FF49}\u{FF46} true; then :; fi", "function@ f { :; }",
    // blanks, comments, separators
    "echo@foo", "echo a@b", "a=1@b", "foo;@bar", "foo@|@bar", "echo a #@", "echo a@#b", "@#c", "(@:@)",
    "echo 'a@b' \"c@d\" e\\@f",
    // here-documents
    "cat <<@\nbody $@\n@\n", "cat <<E\n$@ ${@} $((@)) `@`\nE\n", "cat <<-@\n\t$%\n@\n", "cat <<'@'\n$%\n@\n",
    "cat <<E@\nx\nE@\n", "cat @<<E\n$%\nE\n", "cat <<E\n\\$@\nE\n",
];

fn uni_fill(t: &str, a: &str, b: &str) -> String {
    t.replace('@', a).replace('%', b)
}

/// A random text of the Unicode stream.
fn unicode_text(r: &mut Rng) -> String {
    let t = *r.pick(UNI_TEMPLATES);
    let pick = |r: &mut Rng| -> String {
        let n = if r.chance(1, 3) { 2 + r.below(2) } else { 1 };
        (0..n).map(|_| *r.pick(UNI_POOL)).collect()
    };
    let a = pick(r);
    let b = pick(r);
    let mut s = uni_fill(t, &a, &b);
    if r.chance(1, 6) {
        // two such commands in a list or a pipeline
        let t2 = *r.pick(UNI_TEMPLATES);
        if !t.contains("<<") && !t2.contains("<<") {
            let c = pick(r);
            s = format!("{s}{}{}", *r.pick(&["; ", " | ", " && ", "\n", " & "]), uni_fill(t2, &c, &a));
        }
    }
    s
}

/// Template commands of the Unicode *position* stream: a character of every
/// class is inserted at EVERY offset and put in place of EVERY character of
/// each of them, so that every place where the lexer or the parser classifies
/// the next character (`$` + char, `${` + char, `${#` + char, the characters of
/// a name, the IO-number position before `<` / `>`, the fd after `<&` / `>&`,
/// assignment and function names, `$((` contents, escapes of `$'...'`, tilde
/// names, blanks between tokens, here-document bodies) sees one.
const UPOS_TEMPLATES: &[&str] = &[
    "echo $1", "echo $x1 $_", "echo \"$1$x\"", "echo ${1}", "echo ${x}", "echo ${#x}", "echo ${#1}", "echo ${12}",
    "echo ${x:-1}", "echo ${x#1}", "echo ${x%%a}", "echo ${#}", "echo $((1+$2))", "echo $(($x))", "echo $(( 1 ))",
    "echo $(echo $1)", "echo `echo $1`", "echo $'\\x41\\101'", "echo $'\\u0041\\cA'",
    "2>f", "echo 2>f", "echo 12>>f 3<g", "echo >&2", "echo 2<&1", "echo <>f", "echo 1>|f", "echo 3<<<w",
    "a=1", "a1=1 b", "a=(1 2)", "export a=~/b", "a=~b:~", "echo ~a1/b",
    "f() { :; }", "f1 () (:)", "function f { :; }", "for i in 1 2; do :; done", "for i1 do :; done",
    "case 1 in 1) :;; esac", "case x in (a|1) ;; esac", "if a; then b; fi", "while a; do b; done",
    "{ a; }", "(a)", "! a", "a 1|b 2", "a&&b", "a;b", "a #1", "a\n1",
    "cat <<E\n$1 ${x} $((1))\nE\n", "cat 3<<-E1\n\t$x\nE1\n",
];

/// The characters of the position stream, by class (what `char::is_numeric`,
/// `is_alphanumeric`, `is_alphabetic`, `is_whitespace` and their ASCII
/// counterparts tell apart).
const UPOS_NUMERIC: &[char] = &[
    '\u{FF15}', '\u{0663}', '\u{0967}', // Nd: full-width 5, Arabic-Indic 3, Devanagari 1
    '\u{00B2}', '\u{2460}', // No: superscript two, circled one
    '\u{2163}', '\u{3007}', // Nl: Roman numeral four, ideographic zero
];
const UPOS_LETTER: &[char] = &[
    '\u{00E9}', '\u{FF41}', '\u{0130}', '\u{FF3F}', // letters, full-width low line
    '\u{0301}', '\u{20DD}', // combining marks
];
const UPOS_BLANK: &[char] = &['\u{0085}', '\u{00A0}', '\u{2003}', '\u{3000}'];

/// The texts of the position stream for one template: (label suffix, text).
/// Quick tier: at every position one numeric character, one letter or mark
/// and one blank (rotating through the classes' members); thorough: all.
fn upos_texts(ti: usize, t: &str, all: bool) -> Vec<(String, String)> {
    let cs: Vec<char> = t.chars().collect();
    let mut out = vec![];
    for replace in [false, true] {
        let n = if replace { cs.len() } else { cs.len() + 1 };
        for off in 0..n {
            if replace && (cs[off] == '\n' || cs[off] == ' ') {
                // replacing a separator only glues two tokens together
                continue;
            }
            let mut chars: Vec<char> = vec![];
            if all {
                chars.extend(UPOS_NUMERIC);
                chars.extend(UPOS_LETTER);
                chars.extend(UPOS_BLANK);
            } else {
                // a numeric character at every position, inserted and in place;
                // a letter / mark and a blank inserted at every position
                let k = ti + off + replace as usize;
                chars.push(UPOS_NUMERIC[k % UPOS_NUMERIC.len()]);
                if !replace {
                    chars.push(UPOS_LETTER[k % UPOS_LETTER.len()]);
                    chars.push(UPOS_BLANK[k % UPOS_BLANK.len()]);
                }
            }
            for c in chars {
                let mut s: String = cs[..off].iter().collect();
                s.push(c);
                s.extend(cs[off + replace as usize..].iter());
                out.push((format!("{}{off}:U+{:04X}", if replace { "r" } else { "i" }, c as u32), s));
            }
        }
    }
    out
}

/// A random list of the class covered by `parse_print_compound_lists`:
/// simple commands, groupings, subshells and while / until loops nested to
/// `depth` levels, joined by `;`, `&`, newlines, `&&`, `||`, `|` and `!`, in the
/// compact spellings that put the separators right next to the closers
/// (`&)`, `((`, `! (`, `& }`).  Returns the text and whether it ends with `&`.
fn nested_list(r: &mut Rng, depth: usize) -> (String, bool) {
    let n = 1 + r.below(2);
    let mut out = String::new();
    let mut ends_amp = false;
    for k in 0..n {
        let pipes = 1 + r.below(2);
        for j in 0..pipes {
            if j > 0 {
                out.push_str(*r.pick(&[" && ", " || ", "&&", " ||\n"]));
            }
            if r.chance(1, 5) {
                out.push_str("! ");
            }
            let cmds = 1 + r.below(2);
            for c in 0..cmds {
                if c > 0 {
                    out.push_str(*r.pick(&[" | ", "|", " |\n"]));
                }
                out.push_str(&nested_command(r, depth));
            }
        }
        ends_amp = false;
        if k + 1 < n {
            out.push_str(*r.pick(&["; ", ";", " & ", "&", "\n", " &\n"]));
        } else if r.chance(1, 3) {
            out.push_str(*r.pick(&["&", " &"]));
            ends_amp = true;
        }
    }
    (out, ends_amp)
}

fn nested_command(r: &mut Rng, depth: usize) -> String {
    let simple = |r: &mut Rng| -> String {
        (*r.pick(&["a", "b 1", "x=1 c", "d >f", "e 2>&1 g", ":", "x=1", "<f h", "echo }", "echo do done"])).to_string()
    };
    if depth == 0 || r.chance(1, 3) {
        return simple(r);
    }
    let close = |body: &(String, bool), kw: &str| -> String {
        if body.1 { format!("{} {kw}", body.0) } else { format!("{}; {kw}", body.0) }
    };
    match r.below(4) {
        0 => {
            let b = nested_list(r, depth - 1);
            format!("{{ {}", close(&b, "}"))
        }
        1 => {
            let b = nested_list(r, depth - 1);
            format!("({})", b.0)
        }
        k => {
            let c = nested_list(r, depth - 1);
            let b = nested_list(r, depth - 1);
            format!("{} {} {}", if k == 2 { "while" } else { "until" }, close(&c, "do"), close(&b, "done"))
        }
    }
}

/// Every reserved word the parser knows, read from the `FromStr` table of
/// yash-syntax/src/parser/lex/keyword.rs of the repository under test (so a
/// reserved word added there is covered without touching this file); the
/// list below is only the fallback when the source is not readable.
fn reserved_words() -> Vec<String> {
    let repo = std::env::var("YV_REPO").unwrap_or_else(|_| "/repo".to_string());
    let path = format!("{repo}/yash-syntax/src/parser/lex/keyword.rs");
    let mut v: Vec<String> = vec![];
    if let Ok(text) = std::fs::read_to_string(&path) {
        for line in text.lines() {
            let l = line.trim();
            // `"word" => Ok(Variant),` and `Variant => "word",`
            if let Some(rest) = l.strip_prefix('"') {
                if let Some(end) = rest.find('"') {
                    if rest[end + 1..].trim_start().starts_with("=> Ok(") {
                        v.push(rest[..end].to_string());
                    }
                }
            } else if let Some(pos) = l.find("=> \"") {
                let rest = &l[pos + 4..];
                if let Some(end) = rest.find('"') {
                    v.push(rest[..end].to_string());
                }
            }
        }
    }
    for k in [
        "!", "[[", "]]", "case", "do", "done", "elif", "else", "esac", "fi", "for", "function", "if", "in",
        "namespace", "select", "then", "until", "while", "{", "}",
    ] {
        v.push(k.to_string());
    }
    // only what the parser itself takes for a reserved word
    v.retain(|k| k.parse::<yash_syntax::parser::lex::Keyword>().is_ok());
    v.sort();
    v.dedup();
    v
}

/// Reserved words at the places where being a reserved word matters.
fn keyword_texts() -> Vec<String> {
    let mut out = vec![];
    for k in reserved_words() {
        // a command name after a redirection or an assignment
        for t in [
            "<input @ arg", ">x @", "2>f @ a b", "<f @ >g", "<f >g @ x", ">x @ >y\\", "a=1 @ b", "a=1 <f @",
            "<f @; echo", "<f @ | cat", "{ <f @; }", "(<f @)", "if <f @; then :; fi",
            // not a reserved word: quoted, not the first word, a prefix or suffix of a word
            "echo @", "echo @ @", "\\@", "'@' a", "\"@\"", "@x a", "x@ a", "echo x; echo @",
            // the first pattern of a case item, with and without the parenthesis
            "case $x in @) echo a;; esac", "case x in @|x) :;; esac", "case x in x|@) :;; esac",
            "case @ in (@) ;; esac", "case x in (@|y) :;& @) :;| *) esac", "case x in\n@) :\nesac",
            "case x in @ ) :;; esac",
            // names
            "for @ in @; do :; done", "@() { :; }", "@ () { :; }", "function @ { :; }", "@=1", "a=@ @",
            // alone and at the end of the text
            "@", "@ ", "@;", "@\n", "! @", "@ @",
        ] {
            out.push(t.replace('@', &k));
        }
    }
    out
}

/// Texts made of multi-character openers, closers and operators: a line
/// continuation is inserted at every offset of each.
const LC_BASES: &[&str] = &[
    "echo $'a\\tb'", "echo $'a' $'' x$'\\x41'y", "echo ${x}", "echo ${#x}", "echo ${x:-y}", "echo ${x##y}",
    "echo ${x%%y}", "echo ${x:+${y}}", "echo ${#}", "echo ${10}", "echo $(x)", "echo $(x; y)", "echo $((1))",
    "echo $((1+(2)))", "echo $(( (1) ))", "echo $( (x) )", "echo $x$y", "echo $1a", "echo $?x", "echo \"$x ${y} $(z) $((1))\"",
    "echo \"a\\\"b\"", "a && b", "a || b", "a & b", "a | b", "a; b", "a;b", "! a", "! a | b && ! c",
    "case x in a) b;; c) d;& e) f;| g) h;;& i) esac", "case x in (a|b) ;; esac",
    "echo >f", "echo >>f", "echo >|f", "echo >>|f", "echo <>f", "echo <&2", "echo >&2", "echo 2>f", "echo 12>>f",
    "echo <<<w", "echo 3<<<w x", "a=1", "a=1 b=2 c", "a=(1 2)", "a=~/x:~y", "echo ~a/b", "f() { :; }", "f () ( : )",
    "if a; then b; elif c; then d; else e; fi", "while a; do b; done", "until a; do b; done",
    "for i in a b; do c; done", "for i do c; done", "{ a; }", "(a)", "( a; b ) >f", "{ a; } 2>&1",
    "function f { :; }", "echo a\\ b", "echo a\\\\b", "echo {a,b}", "echo [[ a ]]", "export a=~/b c=~d",
    "echo 'a b' c", "echo a 'b'", "x='a'\"b\"$'c'", "echo \"a\"'b'", ">x a=~b\\", ">y if >x\\",
];

/// For a text, which character offsets are certainly outside quotes, comments,
/// backquotes and here-documents and not directly after a backslash: there an
/// inserted line continuation must not change the tree.  Conservative: after a
/// `#`, a backquote or `<<` nothing is certain any more.
fn lc_plain_offsets(base: &str, has_cs: bool) -> Vec<bool> {
    let cs: Vec<char> = base.chars().collect();
    let n = cs.len();
    let mut plain = vec![false; n + 1];
    let mut i = 0;
    let mut certain = true;
    // nesting of double quotes is not tracked through `$(`: give up there
    let mut in_dq = false;
    // the last character that was not part of a line continuation
    let mut prev: Option<char> = None;
    plain[0] = true;
    while i < n && certain {
        let c = cs[i];
        match c {
            '\\' => {
                // the offset after the backslash is not plain; the escaped character is skipped
                if i + 1 < n {
                    if cs[i + 1] != '\n' {
                        prev = Some('a');
                    }
                    i += 2;
                    plain[i] = true;
                } else {
                    i += 1;
                }
                continue;
            }
            '\'' if !in_dq => {
                // `$'...'` or '...'
                let dollar = prev == Some('$');
                let mut j = i + 1;
                while j < n && cs[j] != '\'' {
                    if dollar && cs[j] == '\\' {
                        j += 1;
                    }
                    j += 1;
                }
                if j >= n {
                    certain = false;
                    break;
                }
                i = j + 1;
                plain[i] = true;
                prev = Some('a');
                continue;
            }
            '"' => in_dq = !in_dq,
            '#' | '`' => {
                certain = false;
                break;
            }
            '<' if i + 1 < n && cs[i + 1] == '<' => {
                certain = false;
                break;
            }
            '(' if has_cs && prev == Some('$') => {
                // the content of a command substitution is kept as written
                certain = false;
                break;
            }
            '$' if in_dq && i + 1 < n && (cs[i + 1] == '(' || cs[i + 1] == '{' || cs[i + 1] == '\\') => {
                // quotes nest differently inside: give up
                certain = false;
                break;
            }
            _ => {}
        }
        prev = Some(c);
        i += 1;
        plain[i] = true;
    }
    plain
}

/// The scripts embedded in yash-cli/tests/scripted_test/*.sh, one per test case.
fn scripted_tests() -> Vec<(String, String)> {
    let repo = std::env::var("YV_REPO").unwrap_or_else(|_| "/repo".into());
    let dir = format!("{}/yash-cli/tests/scripted_test", repo);
    let mut files: Vec<_> = std::fs::read_dir(&dir)
        .map(|d| d.filter_map(|e| e.ok()).map(|e| e.path()).collect())
        .unwrap_or_else(|_| vec![]);
    files.sort();
    let mut out = vec![];
    for f in files {
        if f.extension().and_then(|e| e.to_str()) != Some("sh") {
            continue;
        }
        let name = f.file_name().unwrap().to_string_lossy().to_string();
        let Ok(text) = std::fs::read_to_string(&f) else { continue };
        let lines: Vec<&str> = text.split_inclusive('\n').collect();
        let mut i = 0;
        while i < lines.len() {
            let l = lines[i];
            if l.starts_with("test_") && !l.starts_with("test_file") {
                let start = i + 1;
                let mut j = start;
                while j < lines.len() && lines[j].trim_end() != "__IN__" {
                    j += 1;
                }
                if j < lines.len() {
                    let script: String = lines[start..j].concat();
                    out.push((format!("{}:{}", name, i + 1), script));
                    i = j;
                }
            }
            i += 1;
        }
    }
    out
}

const CORPUS: &[&str] = &[
    // non-ASCII numeric characters where only ASCII digits count: a literal `$`
    // followed by literals, not a positional parameter, and never a panic
    "echo $\u{FF15}\u{FF10}\u{FF10}",
    "echo $\u{0663}",
    "echo $\u{00B2}",
    "echo \"$\u{FF15}\"",
    "echo $(($\u{FF15}))",
    "echo ${\u{FF15}}",
    "echo ${#\u{0663}}",
    "\u{FF12}>file",
    "\u{FF58}=1",
    "cat <<E\n$\u{FF15} ${\u{0663}}\nE\n",
    // once-failing inputs (repaired in /repo; reverting a repair must be caught)
    "echo ${",
    "echo ${#",
    "echo \"${",
    "echo $(echo ${",
    "echo $'\\c\\\\'",
    "echo $'a\\c\\\\b' x",
    "$ () { :; }",
    "a$ () { :; }",
    "\"$\"() { :; }",
    "echo `a\\\\\n\nb`",
    "echo \"`a\\\\\n\nb`\"",
    "echo `a\\\\\n$b`",
    ">x foo\\",
    // tilde names that end with a backslash or a dollar sign
    ">x ~a\\",
    ">x a=~b\\",
    "<f x=~\\",
    "~a$ () { :; }",
    "~$ () { :; }",
    ">y if >x\\",
    "<f then >x\\",
    "echo >x\\",
    // known finding F14 (open): `$((` fallback
    "(echo $(('(' ) ) )",
    "echo $((\\( ) ) ;",
    "case x in ($(('(' ) ) ) a;; esac",
    "a=($(('(' ) ) )",
    "(echo $((a) ) )",
    "echo $((a); (b)) $( (a))",
    "<f a=1\\",
    ">x \\",
    ">x a=(b) c\\",
    "<f if\\",
    // reserved words and redirection placement
    "<f if",
    ">/dev/null { a; }",
    "<f ! x",
    "a=1 if",
    "2>&1 then x",
    "<f [[ a ]]",
    "echo if then; echo }",
    "{ echo }; }",
    "! ! a",
    "! a | b",
    "a | ! b",
    "((a); b)",
    "( (a) )",
    "((a))",
    "{ { a; } }",
    "(a&)",
    "{ a& }",
    "a& b; c",
    "a;;",
    // redirections
    "cat <<- -",
    "cat << --",
    "cat <<-EOF\n\tx\n\tEOF\n",
    "cat <<E <<-F\n1\nE\n\t2\nF\n",
    "cat <<\\E\n$x\nE\n",
    "echo 2>x; echo 2 >x; echo a2>x",
    "> 2>x",
    "echo {x}>f",
    ">{x} >foo",
    "00002>x",
    "echo >&-; echo <&3 3>>|4 <<<x",
    // assignments
    "a=() b=(1 2\n3) c=(x)y",
    "a= (x)",
    "a=~:~b/c:~ export d=~/x:~ e",
    "command export a=~ b",
    "\"a\"=b 'c'=d e\\=f",
    "a=b=c =d",
    // words
    "echo ~ ~/ ~a/b ~a:b \\~ \"~\" ~$x ~a\"b\"",
    "echo $a$1$12${12}$@$*$#$?$-$$$!$0$",
    "echo ${a:-b c}${a#'}'}${a%%\\}}\"${a+'x'}\"${a?}",
    "echo ${#}${##}${#-}${#?}${###}${#%x}${#:-x}${#a}",
    "echo $((1+(2*3)))$(((1)))$((a)b)$( (a) )",
    "echo `a\\`b\\$c\\\\d\\\"e` \"`a\\\"b`\"",
    "echo $'\\a\\b\\e\\E\\f\\n\\r\\t\\v\\\\\\'\\\"\\?' $'\\cA\\ca\\c?\\c@\\c[' $'\\1\\12\\123\\1234\\x1\\x12\\x123\\u1\\u1234\\U1\\U0001F600'",
    "echo $'\\xg'",
    "echo \"a\\\nb\" 'a\\\nb' a\\\nb",
    "echo \\",
    "echo a\\",
    "ec\\\nho i\\\nf",
    "i\\\nf a; then b; fi",
    "echo $\\\n{a} $\\\n(b) $\\\na",
    "echo \"$\" '$' $\"a\" $'' \"$'a'\"",
    "# comment only",
    "a #b\nc",
    "a#b",
    // compound commands
    "for i do a; done",
    "for i; do a; done",
    "for i in; do a; done",
    "for i in a b\ndo a; done",
    "for in in in; do in; done",
    "for do do do; done",
    "for i\nin a\ndo b; done",
    "for 1 in 1 2; do :; done",
    "while a; do b; done until c; do d; done",
    "if a; then b; elif c; then d; elif e; then f; else g; fi",
    "if a\nthen b\nfi",
    "case x in esac",
    "case x in a) ;; esac",
    "case x in (a|b) c;; (esac) d;& if) e;| *) f;;& g) esac",
    "case x in a) b\nesac",
    "case x in a) b& ;; c) d& esac",
    "case in in in) in;; esac",
    "case x\nin\na)\nb\n;;\nesac",
    "f() { a; } >x 2>&1",
    "f()\n\n(a)",
    "f() if a; then b; fi",
    "function f { a; }",
    "f() g() { a; }",
    "f() a",
    "if a; then b; fi >x <y | { c; } 2>z",
    "a && b || c &&\n\nd",
    "a |\n\nb",
    // totality: unterminated things
    "'", "\"", "`", "$(", "$((", "${a", "(", "{", "if", "case x in", "for", "a |", "a &&", "<", "<<", "<<E",
    "$'", "$'\\", "$'\\c", "$'\\c\\", "$'\\x", "a=(", "f(", "f()", "\\\n", "$((1)", "$((1) )",
    "${a-${b-${c-", "\"${a-\"${b-\"c\"}\"}\"",
];

fn first_kind(p: &Parsed) -> &'static str {
    match p {
        Parsed::Tree { .. } => "tree",
        Parsed::Err(_) => "syntax-error",
        Parsed::Panic(_) => "PANIC",
        Parsed::Timeout => "TIMEOUT",
        Parsed::ReadAhead(_) => "READ-AHEAD",
    }
}

fn coq_parsed(p: &Parsed, bodies: bool) -> String {
    match p {
        Parsed::Tree { term, term_bodies, printed, .. } => {
            format!("(PTree {} {})", if bodies { term_bodies } else { term }, cstr(printed))
        }
        Parsed::Err(_) => "PErr".into(),
        Parsed::Panic(_) => "PPanic".into(),
        Parsed::Timeout => "PTimeout".into(),
        Parsed::ReadAhead(_) => "PReadAhead".into(),
    }
}

/// The parser model covers everything but here-documents.  A text is inside
/// the model's language if no `<<` / `<<-` operator can be lexed from it: after
/// removing line continuations, every run of `<` has length 1 or 3 (and a run
/// of 3 is not preceded by a backslash).
fn in_model_domain(src: &str) -> bool {
    let t: Vec<char> = src.replace("\\\n", "").chars().collect();
    let mut i = 0;
    while i < t.len() {
        if t[i] == '<' {
            let start = i;
            while i < t.len() && t[i] == '<' {
                i += 1;
            }
            let run = i - start;
            // `\<<<` is an escaped `<` followed by `<<`
            let escaped = start > 0 && t[start - 1] == '\\';
            if run == 2 || run >= 4 || (run == 3 && escaped) {
                return false;
            }
        } else {
            i += 1;
        }
    }
    true
}

struct Emitter {
    w: CasesWriter,
    runner: Runner,
}

impl Emitter {
    fn emit(&mut self, stream: &str, label: &str, src: &str) {
        self.emit_full(stream, label, src, None);
    }

    /// The first parse of a text, reduced to what two texts are compared by.
    fn first_of(&mut self, src: &str) -> Option<String> {
        match self.runner.run(src).first {
            Parsed::Tree { term_bodies, .. } => Some(term_bodies),
            Parsed::Err(_) => Some(String::new()),
            _ => None,
        }
    }

    /// [same_as]: the text is another text with a line continuation inserted
    /// outside quotes; the first parse of that other text (tree or "" for a
    /// syntax error) must be the same.
    fn emit_full(&mut self, stream: &str, label: &str, src: &str, same_as: Option<&str>) {
        let o = self.runner.run(src);
        let lc_diff = match (same_as, &o.first) {
            (Some(t0), Parsed::Tree { term_bodies, .. }) => t0 != term_bodies,
            (Some(t0), Parsed::Err(_)) => !t0.is_empty(),
            _ => false,
        };
        let w = &mut self.w;
        w.count(&format!("stream:{stream}"));
        w.count(&format!("{stream}:first:{}", first_kind(&o.first)));
        let second = match (&o.first, &o.second) {
            (_, None) => {
                if matches!(o.first, Parsed::Tree { .. }) {
                    w.count("heredoc:bodies-not-writable");
                }
                "SNone".to_string()
            }
            (Parsed::Tree { term: t1, printed: p1, .. }, Some(Parsed::Tree { term: t2, printed: p2, .. }))
                if t1 == t2 =>
            {
                if p1 == p2 { "SSameAll".to_string() } else { format!("(SSame {})", cstr(p2)) }
            }
            (_, Some(p)) => format!("(SOther {})", coq_parsed(p, false)),
        };
        if let Parsed::Tree { heredocs, printed, .. } = &o.first {
            if *heredocs > 0 {
                w.count("tree:with-heredoc");
            }
            w.count(match printed.len() {
                0 => "printed-len:0",
                1..=15 => "printed-len:1-15",
                16..=63 => "printed-len:16-63",
                64..=255 => "printed-len:64-255",
                _ => "printed-len:256+",
            });
            if let Some(s2) = &o.second {
                w.count(&format!("second:{}", first_kind(s2)));
            }
        }
        let dom = in_model_domain(src);
        w.count(if dom { "model-domain:inside" } else { "model-domain:outside (here-document operator possible)" });
        let term = if lc_diff {
            w.count("line-continuation:changed-the-tree");
            format!("(mkCase {} {} PLcDiff SNone)", cstr(src), coq::b(dom))
        } else {
            format!("(mkCase {} {} {} {})", cstr(src), coq::b(dom), coq_parsed(&o.first, false), second)
        };
        let detail = match &o.first {
            Parsed::Tree { printed, .. } => format!(
                "\"printed\":{},\"reparse\":{}",
                json_str(printed),
                json_str(&match &o.second {
                    None => "not re-parsed".to_string(),
                    Some(Parsed::Tree { printed: p2, term: t2, .. }) => {
                        if let Parsed::Tree { term: t1, .. } = &o.first {
                            if t1 == t2 { "same tree".to_string() } else { format!("DIFFERENT tree, printed as {:?}", p2) }
                        } else {
                            unreachable!()
                        }
                    }
                    Some(Parsed::Err(e)) => format!("SYNTAX ERROR: {e}"),
                    Some(Parsed::Panic(e)) => format!("PANIC: {e}"),
                    Some(p) => first_kind(p).to_string(),
                })
            ),
            Parsed::Err(e) => format!("\"error\":{}", json_str(e)),
            Parsed::Panic(e) => format!("\"panic\":{}", json_str(e)),
            Parsed::Timeout => "\"timeout\":true".to_string(),
            Parsed::ReadAhead(n) => format!("\"lines_requested\":{n}"),
        };
        let json = format!(
            "{{\"stream\":{},\"label\":{},\"src\":{},\"result\":{},{}{}}}",
            json_str(stream),
            json_str(label),
            json_str(src),
            json_str(first_kind(&o.first)),
            detail,
            if lc_diff {
                ",\"line_continuation\":\"the same text without the inserted backslash-newline parses differently\""
            } else {
                ""
            }
        );
        let key = match &o.first {
            Parsed::Tree { printed, .. } if !printed.is_empty() => Some(src.to_string()),
            _ => None,
        };
        // known finding F14: the tree has a `$(`-substitution whose content starts
        // with `(` and the round trip fails
        let failed = match (&o.first, &o.second) {
            (Parsed::Tree { term: t1, printed: p1, .. }, Some(Parsed::Tree { term: t2, printed: p2, .. })) => {
                t1 != t2 || p1 != p2
            }
            (Parsed::Tree { .. }, Some(_)) => true,
            _ => false,
        };
        let f14 = matches!(&o.first, Parsed::Tree { f14: true, .. });
        if f14 {
            w.count("tree:with-f14-class-substitution");
        }
        let tags: Vec<&str> = if f14 && failed { vec!["F14"] } else { vec![] };
        w.push(&term, &json, &tags, key);
    }
}

// ---------------------------------------------------------------------------
// main
// ---------------------------------------------------------------------------

fn probe() {
    use std::io::Read;
    let mut s = String::new();
    std::io::stdin().read_to_string(&mut s).unwrap();
    let mut r = Runner::spawn();
    for src in s.split("\n%%\n") {
        let src = src.replace("\\n", "\n").replace("\\\\", "\\");
        let o = r.run(&src);
        println!("SRC  {:?}", src);
        println!("  1: {:?}", o.first);
        println!("  2: {:?} <- {:?}", o.second, o.second_src);
    }
}

fn main() {
    std::panic::set_hook(Box::new(|_| {}));
    if std::env::var("C06_PROBE").is_ok() {
        probe();
        return;
    }
    if std::env::var("C06_GEN").is_ok() {
        let mut rng = Rng::new(1);
        for k in 0..40 {
            let mut g = Gen::new(rng.fork(k));
            println!("---\n{}", g.program());
        }
        return;
    }
    let args = Args::parse();
    let mut rng = Rng::new(args.seed);
    let mut e = Emitter { w: CasesWriter::new(&args, "Yv.C06.Run", 60), runner: Runner::spawn() };

    // 1. hand-written corpus
    for (k, src) in CORPUS.iter().enumerate() {
        e.emit("corpus", &format!("corpus#{k}"), src);
    }

    // 2. grammar-generated programs
    let mut bases: Vec<String> = vec![];
    let mut gr = rng.fork(1);
    for k in 0..args.scale(700, 14000) {
        let mut g = Gen::new(gr.fork(k as u64));
        let src = g.program();
        e.emit("grammar", &format!("grammar#{k}"), &src);
        if bases.len() < 4000 {
            bases.push(src);
        }
    }

    // 3. the scripted-test corpus of the repository (a sample in the quick tier)
    let scripts = scripted_tests();
    e.w.count(&format!("scripted-tests-found:{}", scripts.len()));
    let mut sr = rng.fork(2);
    let take = args.scale(300, scripts.len());
    let step = (scripts.len() / take.max(1)).max(1);
    let off = if args.thorough() { 0 } else { sr.below(step) };
    for (k, (label, src)) in scripts.iter().enumerate() {
        if k % step == off % step && src.len() < 6000 {
            e.emit("scripted", label, src);
        }
        if k % 7 == 0 && bases.len() < 8000 {
            bases.push(src.clone());
        }
    }

    // 4. mutations of programs from 2 and 3
    let mut mr = rng.fork(3);
    for k in 0..args.scale(450, 10000) {
        let mut r = mr.fork(k as u64);
        let base = bases[r.below(bases.len())].clone();
        let base = if base.len() > 300 {
            // keep mutated scripted tests small: a window of the text
            let cs: Vec<char> = base.chars().collect();
            let a = r.below(cs.len() - 200);
            cs[a..a + 200].iter().collect()
        } else {
            base
        };
        let src = mutate(&mut r, &base);
        e.emit("mutation", &format!("mutation#{k}"), &src);
    }

    // 5. byte / Unicode soup
    let mut or = rng.fork(4);
    for k in 0..args.scale(300, 5000) {
        let mut r = or.fork(k as u64);
        let src = soup(&mut r);
        e.emit("soup", &format!("soup#{k}"), &src);
    }

    // 6. characters of every class at the positions where the lexer tests a class:
    //    every template with every character (a sample in the quick tier), then random fillings
    {
        let mut ur = rng.fork(5);
        let mut k = 0usize;
        let all = UNI_TEMPLATES.len() * UNI_POOL.len();
        let take = args.scale(300, all);
        let step = (all / take.max(1)).max(1);
        let off = if args.thorough() { 0 } else { ur.below(step) };
        for (ti, t) in UNI_TEMPLATES.iter().enumerate() {
            for (ci, c) in UNI_POOL.iter().enumerate() {
                let n = ti * UNI_POOL.len() + ci;
                // the digits and lookalikes after `$`, `${`, `${#` and as IO numbers: always
                let always = ti < 26 + 12 && (c.is_numeric() || !c.is_ascii());
                if n % step == off % step || (always && (args.thorough() || (ti + ci) % 3 == 0)) {
                    let b = UNI_POOL[(ci * 7 + ti) % UNI_POOL.len()];
                    let src = uni_fill(t, &c.to_string(), &b.to_string());
                    e.emit("unicode", &format!("unicode-sys#{k}"), &src);
                    k += 1;
                }
            }
        }
        for j in 0..args.scale(250, 6000) {
            let mut r = ur.fork(1000 + j as u64);
            let src = unicode_text(&mut r);
            e.emit("unicode", &format!("unicode#{j}"), &src);
        }
    }

    // 6b. Unicode position stream: a numeric character (Nd, No, Nl), a letter or
    //     combining mark and a non-ASCII blank at EVERY offset (inserted, and the
    //     numeric one also in place of the character there) of each template
    //     command; quick = one member of each class per position, thorough = all
    for (ti, t) in UPOS_TEMPLATES.iter().enumerate() {
        for (label, src) in upos_texts(ti, t, args.thorough()) {
            let c = src.chars().find(|c| !c.is_ascii()).unwrap_or('?');
            e.w.count(if c.is_numeric() {
                "unicode-pos:numeric (Nd/No/Nl)"
            } else if c.is_whitespace() {
                "unicode-pos:blank"
            } else {
                "unicode-pos:letter-or-mark"
            });
            e.emit("unicode-pos", &format!("upos#{ti}:{label}"), &src);
        }
    }

    // 6c. the class of the proved round trip (parse_print_compound_lists): nested
    //     groupings, subshells and while / until loops
    {
        let mut nr = rng.fork(7);
        for k in 0..args.scale(150, 4000) {
            let mut r = nr.fork(k as u64);
            let depth = if r.chance(1, 5) { 3 } else { 1 + r.below(2) };
            let (src, _) = nested_list(&mut r, depth);
            e.w.count(&format!("nested:depth-{depth}"));
            e.emit("nested", &format!("nested#{k}"), &src);
        }
    }

    // 7. every reserved word of the parser at the places where being one matters
    let kw_texts = keyword_texts();
    e.w.count(&format!("reserved-words-found:{}", reserved_words().len()));
    for (k, src) in kw_texts.iter().enumerate() {
        e.emit("keywords", &format!("keywords#{k}"), src);
    }

    // 8. a line continuation inserted at every offset: of the texts made of
    //    multi-character openers and operators (always), of the corpus and of the
    //    reserved-word texts (a sample in the quick tier).  Round trip always;
    //    outside quotes the tree must be the one of the text without it.
    {
        let mut lr = rng.fork(6);
        let mut bases: Vec<(String, bool)> = LC_BASES.iter().map(|b| (b.to_string(), true)).collect();
        for b in CORPUS.iter() {
            bases.push((b.to_string(), false));
        }
        for b in kw_texts.iter() {
            bases.push((b.clone(), false));
        }
        let mut k = 0usize;
        for (base, always) in bases.iter() {
            let cs: Vec<char> = base.chars().collect();
            if cs.len() > 80 {
                continue;
            }
            let first0 = e.first_of(base);
            let has_cs = first0.as_deref().map_or(true, |t| t.contains("CommandSubst"));
            let plain = lc_plain_offsets(base, has_cs);
            let mut first: Option<Option<String>> = Some(first0);
            for off in 0..=cs.len() {
                if !*always && !args.thorough() && !lr.chance(1, 12) {
                    continue;
                }
                let mut t: String = cs[..off].iter().collect();
                t.push_str("\\\n");
                t.extend(cs[off..].iter());
                let same_as = if plain[off] {
                    if first.is_none() {
                        first = Some(e.first_of(base));
                    }
                    first.clone().unwrap()
                } else {
                    None
                };
                e.w.count(if plain[off] { "line-continuation:outside-quotes" } else { "line-continuation:elsewhere" });
                e.emit_full("line-continuation", &format!("lc#{k}@{off}"), &t, same_as.as_deref());
                k += 1;
            }
        }
    }

    // 9. thorough: every text up to length 3 over the special characters
    if args.thorough() {
        const A: &[char] = &['a', '$', '{', '}', '(', ')', '\'', '"', '`', '\\', '\n', ' ', ';', '#', '<', '-', '~', '='];
        let mut k = 0;
        for len in 1..=3usize {
            let mut idx = vec![0usize; len];
            loop {
                let src: String = idx.iter().map(|&i| A[i]).collect();
                e.emit("exhaustive", &format!("exh#{k}"), &src);
                k += 1;
                let mut p = len;
                loop {
                    if p == 0 {
                        break;
                    }
                    p -= 1;
                    idx[p] += 1;
                    if idx[p] < A.len() {
                        break;
                    }
                    idx[p] = 0;
                    if p == 0 {
                        p = usize::MAX;
                        break;
                    }
                }
                if p == usize::MAX {
                    break;
                }
            }
        }
    }

    e.w.finish(
        "source texts: hand corpus, grammar-generated programs (all constructs, surface variation), \
         the repository's scripted-test scripts, mutations, character soup, characters of every class \
         (ASCII and non-ASCII digits, letters, blanks, combining marks) at the positions where the lexer \
         tests a character class, a non-ASCII numeric character / letter or mark / blank inserted at (and put in place of) every \
         offset of 52 template commands (Unicode position stream), nested groupings / subshells / while / until loops with the separators next to the closers (the class of parse_print_compound_lists), every reserved word of keyword.rs as a command name after a \
         redirection / as a case pattern / as a name, a line continuation inserted at every offset \
         of the texts made of multi-character operators and of the corpus, (thorough) all texts of length <= 3 over 18 special characters; non-trivial = the implementation parsed the text to a \
         non-empty tree (so the round trip was exercised); distinct = by source text",
    );
}
