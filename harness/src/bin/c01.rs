//! C01 — word expansion / field splitting on the real yash-rs code.
//!
//! Streams (each case = input + what the implementation returned, as a Coq term
//! of type `Yv.C01.Run.case`):
//!   ws     `char::is_whitespace` over all code points
//!   split  `Ifs::new(s).ranges(chars)` and `split(field, &ifs)` on attributed strings
//!   phrase `Phrase::append` and `Phrase::ifs_join` on random phrases
//!   read   `read::assigning::assign` on attributed texts, and `read [-r] v...` scripts on
//!          a standard input in the virtual shell
//!   single `expand_word` (the single-field mode used for assignment values) on words
//!   text   `expand_text` (here-document bodies) on texts
//!   heredoc  `cat <<[-]DELIM` here-documents: real parser + `expand_text`, and whole scripts
//!   words  commands `args WORD...` in a generated environment (variables, IFS,
//!          positional parameters, nounset), through `expand_words` on the AST the
//!          real parser produced (api) and as a script in the virtual shell (script)

use std::panic::{AssertUnwindSafe, catch_unwind};
use yash_env::semantics::expansion::attr::{AttrChar, AttrField, Origin};
use yash_env::semantics::expansion::split::{Ifs, split};
use yash_env::source::Location;
use futures_util::FutureExt as _;
use yash_env::option::{Option as ShOption, State as OptState};
use yash_env::variable::{IFS, Scope, Value, VariableSet};
use yash_semantics::expansion::phrase::Phrase;
use yash_semantics::expansion::{ErrorCause, expand_text, expand_word, expand_words};
use yash_syntax::syntax::{
    Modifier, Param, ParamType, SimpleCommand, SpecialParam, SwitchAction, SwitchCondition, Text,
    TextUnit, TrimLength, TrimSide, Word, WordUnit,
};
use yv_harness::vsh;
use yv_harness::cli::Args;
use yv_harness::out::CasesWriter;
use yv_harness::rng::Rng;
use yv_harness::{coq, json_str};

// ---------------------------------------------------------------------------
// printers

fn origin_coq(o: Origin) -> &'static str {
    match o {
        Origin::Literal => "Literal",
        Origin::HardExpansion => "HardExpansion",
        Origin::SoftExpansion => "SoftExpansion",
    }
}

fn ac_coq(c: &AttrChar) -> String {
    format!(
        "(AC {} {} {} {})",
        c.value as u32,
        origin_coq(c.origin),
        coq::b(c.is_quoted),
        coq::b(c.is_quoting)
    )
}

fn field_coq(f: &[AttrChar]) -> String {
    if f.is_empty() {
        return "(@nil attrchar)".into();
    }
    let v: Vec<String> = f.iter().map(ac_coq).collect();
    format!("[{}]", v.join("; "))
}

fn fields_coq(fs: &[Vec<AttrChar>]) -> String {
    if fs.is_empty() {
        return "(@nil field)".into();
    }
    let v: Vec<String> = fs.iter().map(|f| field_coq(f)).collect();
    format!("[{}]", v.join("; "))
}

/// Human readable form: plain soft characters as themselves, others tagged.
fn field_show(f: &[AttrChar]) -> String {
    let mut s = String::new();
    for c in f {
        let plain = c.origin == Origin::SoftExpansion && !c.is_quoted && !c.is_quoting;
        if plain {
            s.push(c.value);
        } else {
            s.push('{');
            s.push(match c.origin {
                Origin::Literal => 'L',
                Origin::HardExpansion => 'H',
                Origin::SoftExpansion => 'S',
            });
            if c.is_quoted {
                s.push('q');
            }
            if c.is_quoting {
                s.push('Q');
            }
            s.push(':');
            s.push(c.value);
            s.push('}');
        }
    }
    s
}

fn soft(c: char) -> AttrChar {
    AttrChar { value: c, origin: Origin::SoftExpansion, is_quoted: false, is_quoting: false }
}

// ---------------------------------------------------------------------------
// stream: ws

fn stream_ws(w: &mut CasesWriter) {
    let mut ranges: Vec<(u32, u32)> = vec![];
    for cp in 0..=0x10FFFFu32 {
        if let Some(c) = char::from_u32(cp) {
            if c.is_whitespace() {
                match ranges.last_mut() {
                    Some(r) if r.1 + 1 == cp => r.1 = cp,
                    _ => ranges.push((cp, cp)),
                }
            }
        }
    }
    let v: Vec<String> =
        ranges.iter().map(|(a, b)| format!("({}, {})", coq::n(*a as u64), coq::n(*b as u64))).collect();
    let term = format!("(CWs {})", coq::list(&v));
    let rj: Vec<String> = ranges.iter().map(|(a, b)| format!("[{a},{b}]")).collect();
    let json = format!("{{\"stream\":\"ws\",\"ranges\":[{}]}}", rj.join(","));
    w.count("stream:ws");
    w.push(&term, &json, &[], None);
}

// ---------------------------------------------------------------------------
// stream: split

const IFS_POOL: [&str; 17] = [
    ": \t:\t",
    "-\n -\n ",
    "\t:\u{3000}, ",
    " \t\n",
    "",
    ":",
    " :",
    ": ",
    ":,",
    "\t-",
    "\u{3000}",
    " \u{3000}:",
    ": :",
    "a",
    "-\n -",
    ",  :\t",
    "\u{85}:\u{a0}",
];

const VALUE_POOL: [char; 12] = ['a', 'b', ' ', ' ', ':', ':', ',', '-', '\t', '\n', '\u{3000}', '\u{a0}'];

fn emit_split(w: &mut CasesWriter, ifs: &str, chars: &[AttrChar], tag: &str) {
    let r = catch_unwind(AssertUnwindSafe(|| {
        let i = Ifs::new(ifs);
        let ranges: Vec<std::ops::Range<usize>> = i.ranges(chars.iter().copied()).collect();
        let field = AttrField { chars: chars.to_vec(), origin: Location::dummy("") };
        let fields: Vec<AttrField> = split(field, &i);
        (ranges, fields.into_iter().map(|f| f.chars).collect::<Vec<_>>())
    }));
    let out = match &r {
        Ok((ranges, fields)) => {
            let rs: Vec<String> =
                ranges.iter().map(|r| format!("({}, {})", coq::nat(r.start), coq::nat(r.end))).collect();
            format!("(Some ({}, {}))", if rs.is_empty() { "(@nil (nat * nat))".to_string() } else { coq::list(&rs) }, fields_coq(fields))
        }
        Err(_) => "None".to_string(),
    };
    let term = format!("(CSplit {} {} {})", coq::s(ifs), field_coq(chars), out);
    let shown = match &r {
        Ok((_, fields)) => {
            let v: Vec<String> = fields.iter().map(|f| json_str(&field_show(f))).collect();
            format!("[{}]", v.join(","))
        }
        Err(_) => "\"PANIC\"".into(),
    };
    let json = format!(
        "{{\"stream\":\"split\",\"ifs\":{},\"input\":{},\"fields\":{}}}",
        json_str(ifs),
        json_str(&field_show(chars)),
        shown
    );
    w.count(&format!("stream:split:{tag}"));
    let nf = r.as_ref().map(|x| x.1.len()).unwrap_or(0);
    w.count(&format!("split:fields:{}", nf.min(5)));
    // non-trivial: at least two fields or an empty field came out
    let key = match &r {
        Ok((_, fields)) if fields.len() >= 2 || fields.iter().any(|f| f.is_empty()) => {
            Some(format!("split|{}|{}", ifs, field_show(chars)))
        }
        _ => None,
    };
    w.push(&term, &json, &[], key);
}

fn random_attr_char(r: &mut Rng) -> AttrChar {
    let value = *r.pick(&VALUE_POOL);
    match r.below(10) {
        0 => AttrChar { value, origin: Origin::SoftExpansion, is_quoted: true, is_quoting: false },
        1 => AttrChar { value, origin: Origin::Literal, is_quoted: false, is_quoting: false },
        2 => match r.below(4) {
            0 => AttrChar { value: '"', origin: Origin::Literal, is_quoted: false, is_quoting: true },
            1 => AttrChar { value, origin: Origin::HardExpansion, is_quoted: false, is_quoting: false },
            2 => AttrChar { value, origin: Origin::SoftExpansion, is_quoted: true, is_quoting: true },
            _ => AttrChar { value, origin: Origin::Literal, is_quoted: true, is_quoting: false },
        },
        _ => soft(value),
    }
}

fn stream_split(w: &mut CasesWriter, rng: &mut Rng, args: &Args) {
    // corpus: the examples of the module documentation and of POSIX
    let corpus: [(&str, &str); 20] = [
        (",  :\t", "a\t\tb"),
        (": :\n", "a\n\nb:\nc"),
        (" x y ", "axbyycxyd"),
        ("\u{a0}-\u{a0}", "a\u{a0}\u{a0}b-\u{a0}-c"),
        (" -", "abc"),
        (" -", "  abc   "),
        (" -", ""),
        (" -", "foo bar  baz"),
        (" -", "foo-bar--baz"),
        (" -", "foo - bar -  - baz"),
        (" -", "foo-bar-"),
        (" -", "foo-bar--"),
        (" -", " - "),
        (":", ":"),
        (":", "::"),
        (" :", " : : "),
        ("", "a b"),
        (" \t\n", " \n\t"),
        ("\u{3000}", "a\u{3000}\u{3000}b"),
        ("a", "banana"),
    ];
    for (ifs, s) in corpus {
        let chars: Vec<AttrChar> = s.chars().map(soft).collect();
        emit_split(w, ifs, &chars, "corpus");
    }

    // bounded-exhaustive: every string over {a, ' ', ':', quoted ' '} up to a length bound
    let alpha: [AttrChar; 4] = [
        soft('a'),
        soft(' '),
        soft(':'),
        AttrChar { value: ' ', origin: Origin::SoftExpansion, is_quoted: true, is_quoting: false },
    ];
    let maxlen = args.scale(4, 6);
    for len in 0..=maxlen {
        let total = alpha.len().pow(len as u32);
        for code in 0..total {
            let mut k = code;
            let mut chars = Vec::with_capacity(len);
            for _ in 0..len {
                chars.push(alpha[k % alpha.len()]);
                k /= alpha.len();
            }
            emit_split(w, " :", &chars, "exhaustive");
        }
    }

    // random attributed strings, IFS from the pool or random
    let n = args.scale(400, 4000);
    for k in 0..n {
        let mut r = rng.fork(0x5111 + k as u64);
        let ifs: String = if r.chance(4, 5) {
            r.pick(&IFS_POOL).to_string()
        } else {
            let l = r.below(5);
            (0..l).map(|_| *r.pick(&VALUE_POOL)).collect()
        };
        let len = r.below(if args.thorough() { 24 } else { 14 });
        let chars: Vec<AttrChar> = (0..len).map(|_| random_attr_char(&mut r)).collect();
        emit_split(w, &ifs, &chars, "random");
    }
}

// ---------------------------------------------------------------------------
// stream: phrase

fn phrase_coq(p: &Phrase) -> String {
    match p {
        Phrase::Char(c) => format!("(Char {})", ac_coq(c)),
        Phrase::Field(f) => format!("(Field {})", field_coq(f)),
        Phrase::Full(fs) => format!("(Full {})", fields_coq(fs)),
    }
}

fn phrase_show(p: &Phrase) -> String {
    match p {
        Phrase::Char(c) => format!("Char({})", field_show(&[*c])),
        Phrase::Field(f) => format!("Field({})", field_show(f)),
        Phrase::Full(fs) => {
            let v: Vec<String> = fs.iter().map(|f| field_show(f)).collect();
            format!("Full[{}]", v.join("|"))
        }
    }
}

fn small_attr_char(r: &mut Rng) -> AttrChar {
    let value = *r.pick(&['a', 'b', 'c', ' ', ':']);
    match r.below(6) {
        0 => AttrChar { value, origin: Origin::Literal, is_quoted: true, is_quoting: false },
        1 => AttrChar { value: '"', origin: Origin::Literal, is_quoted: false, is_quoting: true },
        2 => AttrChar { value, origin: Origin::Literal, is_quoted: false, is_quoting: false },
        _ => soft(value),
    }
}

fn random_field(r: &mut Rng) -> Vec<AttrChar> {
    let n = r.below(4);
    (0..n).map(|_| small_attr_char(r)).collect()
}

fn random_phrase(r: &mut Rng) -> Phrase {
    match r.below(10) {
        0..=1 => Phrase::Char(small_attr_char(r)),
        2..=4 => Phrase::Field(random_field(r)),
        _ => {
            let n = r.below(4);
            Phrase::Full((0..n).map(|_| random_field(r)).collect())
        }
    }
}

fn emit_phrase(w: &mut CasesWriter, a: &Phrase, b: &Phrase) {
    let r = catch_unwind(AssertUnwindSafe(|| {
        let mut x = a.clone();
        let mut y = b.clone();
        x.append(&mut y);
        (x, y.is_zero_fields())
    }));
    let out = match &r {
        Ok((x, z)) => format!("(Some ({}, {}))", phrase_coq(x), coq::b(*z)),
        Err(_) => "None".into(),
    };
    let term = format!("(CPhrase {} {} {})", phrase_coq(a), phrase_coq(b), out);
    let json = format!(
        "{{\"stream\":\"phrase\",\"a\":{},\"b\":{},\"a+b\":{}}}",
        json_str(&phrase_show(a)),
        json_str(&phrase_show(b)),
        json_str(&r.as_ref().map(|x| phrase_show(&x.0)).unwrap_or("PANIC".into()))
    );
    let kind = |p: &Phrase| match p {
        Phrase::Char(_) => "C",
        Phrase::Field(_) => "F",
        Phrase::Full(v) if v.is_empty() => "0",
        Phrase::Full(_) => "V",
    };
    w.count(&format!("phrase:append:{}{}", kind(a), kind(b)));
    let key = Some(format!("phrase|{}|{}", phrase_show(a), phrase_show(b)));
    w.push(&term, &json, &[], key);
}

fn emit_join(w: &mut CasesWriter, p: &Phrase, ifs: &Option<Value>) {
    let r = catch_unwind(AssertUnwindSafe(|| {
        let mut vars = VariableSet::new();
        if let Some(v) = ifs {
            vars.get_or_new(IFS, Scope::Global).assign(v.clone(), None).unwrap();
        }
        p.clone().ifs_join(&vars)
    }));
    let iv = match ifs {
        None => "None".to_string(),
        Some(Value::Scalar(s)) => format!("(Some (Scalar {}))", coq::s(s)),
        Some(Value::Array(vs)) => {
            let l: Vec<String> = vs.iter().map(|s| coq::s(s)).collect();
            format!("(Some (Array {}))", if l.is_empty() { "(@nil str)".to_string() } else { coq::list(&l) })
        }
    };
    let out = match &r {
        Ok(f) => format!("(Some {})", field_coq(f)),
        Err(_) => "None".into(),
    };
    let term = format!("(CJoin {} {} {})", phrase_coq(p), iv, out);
    let json = format!(
        "{{\"stream\":\"join\",\"phrase\":{},\"ifs\":{},\"joined\":{}}}",
        json_str(&phrase_show(p)),
        json_str(&format!("{:?}", ifs)),
        json_str(&r.as_ref().map(|f| field_show(f)).unwrap_or("PANIC".into()))
    );
    w.count("stream:join");
    w.push(&term, &json, &[], Some(format!("join|{}|{:?}", phrase_show(p), ifs)));
}

fn stream_phrase(w: &mut CasesWriter, rng: &mut Rng, args: &Args) {
    // every pair of shapes at least once (corpus), then random
    let a = soft('a');
    let b = soft('b');
    let shapes = |c: AttrChar, d: AttrChar| {
        vec![
            Phrase::Char(c),
            Phrase::Field(vec![]),
            Phrase::Field(vec![c, d]),
            Phrase::Full(vec![]),
            Phrase::Full(vec![vec![]]),
            Phrase::Full(vec![vec![c]]),
            Phrase::Full(vec![vec![c], vec![], vec![d]]),
        ]
    };
    for x in shapes(a, b) {
        for y in shapes(soft('c'), soft('d')) {
            emit_phrase(w, &x, &y);
        }
    }
    let n = args.scale(150, 2000);
    for k in 0..n {
        let mut r = rng.fork(0x9A5E + k as u64);
        let x = random_phrase(&mut r);
        let y = random_phrase(&mut r);
        emit_phrase(w, &x, &y);
    }
    let ifs_values: Vec<Option<Value>> = vec![
        None,
        Some(Value::scalar("")),
        Some(Value::scalar(":")),
        Some(Value::scalar(" :")),
        Some(Value::scalar("\u{3000}x")),
        Some(Value::Array(vec![])),
        Some(Value::array(["", "x"])),
        Some(Value::array(["-x", "y"])),
    ];
    let n = args.scale(80, 800);
    for k in 0..n {
        let mut r = rng.fork(0x101A + k as u64);
        let p = random_phrase(&mut r);
        let iv = r.pick(&ifs_values).clone();
        emit_join(w, &p, &iv);
    }
}

// ---------------------------------------------------------------------------
// stream: words

/// What the conversion of units with supplied results needs to know about the case.
#[derive(Default)]
struct Ctx {
    npos: usize,
    home: Option<String>,
    /// set when a command substitution was converted (such words run in script mode only)
    used_subst: bool,
}
thread_local! {
    static CTX: std::cell::RefCell<Ctx> = std::cell::RefCell::new(Ctx::default());
    static SUBST_CACHE: std::cell::RefCell<std::collections::HashMap<String, String>> =
        std::cell::RefCell::new(std::collections::HashMap::new());
}
fn set_ctx(e: &EnvSpec) {
    CTX.with(|c| {
        *c.borrow_mut() = Ctx {
            npos: e.positional.len(),
            home: e.vars.iter().find(|(n, _)| n == "HOME").map(|(_, v)| v.clone()),
            used_subst: false,
        }
    });
}
fn ctx_used_subst() -> bool {
    CTX.with(|c| c.borrow().used_subst)
}

/// Output of a command substitution: the command is run on its own in the virtual shell
/// (the generated commands do not depend on the shell state).
fn subst_output(command: &str) -> Option<String> {
    CTX.with(|c| c.borrow_mut().used_subst = true);
    if let Some(v) = SUBST_CACHE.with(|m| m.borrow().get(command).cloned()) {
        return Some(v);
    }
    let o = vsh::run_script(command);
    if o.panicked.is_some() || o.deadlock || o.timeout || o.status != 0 {
        return None;
    }
    SUBST_CACHE.with(|m| m.borrow_mut().insert(command.to_string(), o.stdout.clone()));
    Some(o.stdout)
}

/// Value of `A op B` (A, B: non-negative integers or `$#`), computed here.
fn arith_value(content: &Text) -> Option<(String, String)> {
    let npos = CTX.with(|c| c.borrow().npos);
    let mut expr = String::new();
    let mut term = String::from("TNil");
    for u in content.0.iter().rev() {
        term = format!("(TCons {} {})", match u {
            TextUnit::Literal(c) => format!("(TLit {})", *c as u32),
            TextUnit::RawParam { param, .. } if param.r#type == ParamType::Special(SpecialParam::Number) => "(TParam PNum MNone)".to_string(),
            _ => return None,
        }, term);
    }
    for u in &content.0 {
        match u {
            TextUnit::Literal(c) => expr.push(*c),
            _ => expr.push_str(&npos.to_string()),
        }
    }
    let toks: Vec<&str> = expr.split_whitespace().collect();
    let joined = toks.join("");
    let pos = joined[1..].find(|c| c == '+' || c == '-' || c == '*')? + 1;
    let a: i64 = joined[..pos].parse().ok()?;
    let b: i64 = joined[pos + 1..].parse().ok()?;
    let v = match &joined[pos..pos + 1] {
        "+" => a + b,
        "-" => a - b,
        _ => a * b,
    };
    Some((term, v.to_string()))
}

fn param_coq(p: &Param) -> Option<String> {
    match p.r#type {
        ParamType::Variable => Some(format!("(PVar {})", coq::s(&p.id))),
        ParamType::Positional(n) => Some(format!("(PPos {})", coq::nat(n))),
        ParamType::Special(SpecialParam::At) => Some("PAt".into()),
        ParamType::Special(SpecialParam::Asterisk) => Some("PStar".into()),
        ParamType::Special(SpecialParam::Number) => Some("PNum".into()),
        ParamType::Special(_) => None,
    }
}

fn modifier_coq(m: &Modifier) -> Option<String> {
    match m {
        Modifier::None => Some("MNone".into()),
        Modifier::Length => Some("MLength".into()),
        Modifier::Switch(sw) => {
            let a = match sw.action {
                SwitchAction::Alter => "Alter",
                SwitchAction::Default => "Default",
                SwitchAction::Assign => "Assign",
                SwitchAction::Error => "Error",
            };
            let colon = matches!(sw.condition, SwitchCondition::UnsetOrEmpty);
            Some(format!("(MSwitch {} {} {})", a, coq::b(colon), word_coq(&sw.word)?))
        }
        Modifier::Trim(t) => {
            let s = match t.side {
                TrimSide::Prefix => "Prefix",
                TrimSide::Suffix => "Suffix",
            };
            let l = match t.length {
                TrimLength::Shortest => "Shortest",
                TrimLength::Longest => "Longest",
            };
            Some(format!("(MTrim {} {} {})", s, l, word_coq(&t.pattern)?))
        }
    }
}

fn tunit_coq(u: &TextUnit) -> Option<String> {
    match u {
        TextUnit::Literal(c) => Some(format!("(TLit {})", *c as u32)),
        TextUnit::Backslashed(c) => Some(format!("(TBs {})", *c as u32)),
        TextUnit::RawParam { param, .. } => Some(format!("(TParam {} MNone)", param_coq(param)?)),
        TextUnit::BracedParam(bp) => {
            Some(format!("(TParam {} {})", param_coq(&bp.param)?, modifier_coq(&bp.modifier)?))
        }
        TextUnit::CommandSubst { content, .. } => {
            Some(format!("(TSubst {})", coq::s(&subst_output(content)?)))
        }
        TextUnit::Backquote { content, .. } => {
            use yash_syntax::syntax::BackquoteUnit;
            let cmd: String = content
                .iter()
                .map(|b| match b {
                    BackquoteUnit::Literal(c) | BackquoteUnit::Backslashed(c) => *c,
                })
                .collect();
            Some(format!("(TSubst {})", coq::s(&subst_output(&cmd)?)))
        }
        TextUnit::Arith { content, .. } => {
            let (t, v) = arith_value(content)?;
            Some(format!("(TArith {} {})", t, coq::s(&v)))
        }
    }
}

fn text_coq(t: &Text) -> Option<String> {
    let mut s = String::from("TNil");
    for u in t.0.iter().rev() {
        s = format!("(TCons {} {})", tunit_coq(u)?, s);
    }
    Some(s)
}

fn wunit_coq(u: &WordUnit) -> Option<String> {
    match u {
        WordUnit::Unquoted(t) => Some(format!("(WUnq {})", tunit_coq(t)?)),
        WordUnit::SingleQuote(s) => Some(format!("(WSq {})", coq::s(s))),
        WordUnit::DoubleQuote(t) => Some(format!("(WDq {})", text_coq(t)?)),
        WordUnit::DollarSingleQuote(es) => {
            use yash_syntax::syntax::Unquote as _;
            Some(format!("(WDsq {})", coq::s(&es.unquote().0)))
        }
        WordUnit::Tilde { name, followed_by_slash } => {
            let home = if name.is_empty() {
                CTX.with(|c| c.borrow().home.clone()).unwrap_or_else(|| "~".to_string())
            } else {
                format!("~{name}") // the virtual system has no user database
            };
            Some(format!("(WTilde {} {})", coq::s(&home), coq::b(*followed_by_slash)))
        }
    }
}

fn word_coq(w: &Word) -> Option<String> {
    let mut s = String::from("WNil");
    for u in w.units.iter().rev() {
        s = format!("(WCons {} {})", wunit_coq(u)?, s);
    }
    Some(s)
}

/// Generated shell state.
#[derive(Clone, Debug)]
struct EnvSpec {
    /// (name, value) of the variables that are set; IFS is one of them or absent
    vars: Vec<(String, String)>,
    positional: Vec<String>,
    nounset: bool,
}

impl EnvSpec {
    fn coq(&self) -> String {
        let vs: Vec<String> = self
            .vars
            .iter()
            .map(|(n, v)| format!("({}, Scalar {})", coq::s(n), coq::s(v)))
            .collect();
        let ps: Vec<String> = self.positional.iter().map(|p| coq::s(p)).collect();
        format!(
            "(mkEnv {} {} {})",
            if vs.is_empty() { "(@nil (str * varval))".to_string() } else { coq::list(&vs) },
            if ps.is_empty() { "(@nil str)".to_string() } else { coq::list(&ps) },
            coq::b(self.nounset)
        )
    }
    fn has_ifs(&self) -> bool {
        self.vars.iter().any(|(n, _)| n == "IFS")
    }
    /// Shell commands that establish this state.
    fn script(&self) -> String {
        let mut s = String::from("set -f; ");
        if !self.vars.iter().any(|(n, _)| n == "HOME") {
            s.push_str("unset HOME; ");
        }
        for (n, v) in &self.vars {
            if n != "IFS" {
                s.push_str(&format!("{}={}; ", n, sh_quote(v)));
            }
        }
        let ps: Vec<String> = self.positional.iter().map(|p| sh_quote(p)).collect();
        s.push_str(&format!("set -- {}; ", ps.join(" ")));
        if self.nounset {
            s.push_str("set -u; ");
        }
        match self.vars.iter().find(|(n, _)| n == "IFS") {
            Some((_, v)) => s.push_str(&format!("IFS={}; ", sh_quote(v))),
            None => s.push_str("unset IFS; "),
        }
        s
    }
    fn json(&self) -> String {
        let vs: Vec<String> =
            self.vars.iter().map(|(n, v)| format!("{}:{}", json_str(n), json_str(v))).collect();
        format!(
            "{{\"vars\":{{{}}},\"positional\":{},\"nounset\":{},\"ifs_set\":{}}}",
            vs.join(","),
            yv_harness::json_str_list(&self.positional),
            self.nounset,
            self.has_ifs()
        )
    }
}

fn sh_quote(s: &str) -> String {
    format!("'{}'", s.replace('\'', "'\\''"))
}

/// Parses `args W1 W2 ...` with the real parser and returns the argument words.
fn parse_words(text: &str) -> Option<Vec<Word>> {
    let cmd: SimpleCommand = format!("args {}", text).parse().ok()?;
    if !cmd.assigns.is_empty() || !cmd.redirs.is_empty() || cmd.words.is_empty() {
        return None;
    }
    Some(cmd.words.into_iter().skip(1).map(|(w, _)| w).collect())
}

type CmdOut = (Vec<Vec<String>>, Option<u32>);

/// Runs the commands through `expand_words` on a fresh environment.
fn run_api(env_spec: &EnvSpec, cmds: &[Vec<Word>]) -> CmdOut {
    let r = catch_unwind(AssertUnwindSafe(|| {
        let mut env = yash_env::Env::new_virtual();
        env.options.set(ShOption::Glob, OptState::Off);
        if env_spec.nounset {
            env.options.set(ShOption::Unset, OptState::Off);
        }
        for (n, v) in &env_spec.vars {
            env.variables.get_or_new(n.clone(), Scope::Global).assign(v.clone(), None).unwrap();
        }
        env.variables.positional_params_mut().values = env_spec.positional.clone();
        let mut out = vec![];
        for words in cmds {
            let r = expand_words(&mut env, words.iter()).now_or_never().expect("expansion blocked");
            match r {
                Ok((fields, _)) => out.push(fields.into_iter().map(|f| f.value).collect()),
                Err(e) => {
                    let k = match e.cause {
                        ErrorCause::UnsetParameter { .. } => 1,
                        ErrorCause::VacantExpansion(_) => 2,
                        ErrorCause::NonassignableParameter(_) => 3,
                        ErrorCause::AssignReadOnly(_) => 4,
                        _ => 9,
                    };
                    return (out, Some(k));
                }
            }
        }
        (out, None)
    }));
    r.unwrap_or((vec![], Some(100)))
}

/// Runs the commands as a script in the virtual shell.
fn run_script(env_spec: &EnvSpec, cmd_texts: &[String]) -> CmdOut {
    let mut script = env_spec.script();
    for c in cmd_texts {
        script.push_str(&format!("args {}\n", c));
    }
    let o = vsh::run_script(&script);
    if o.panicked.is_some() || o.deadlock || o.timeout {
        return (vec![], Some(100));
    }
    let out: Vec<Vec<String>> =
        o.trace.iter().filter(|t| t.kind == "args").map(|t| t.args.clone()).collect();
    let stop = if out.len() == cmd_texts.len() { None } else { Some(0) };
    (out, stop)
}

fn error_kind(cause: &ErrorCause) -> u32 {
    match cause {
        ErrorCause::UnsetParameter { .. } => 1,
        ErrorCause::VacantExpansion(_) => 2,
        ErrorCause::NonassignableParameter(_) => 3,
        ErrorCause::AssignReadOnly(_) => 4,
        _ => 9,
    }
}

fn make_env(env_spec: &EnvSpec) -> yash_env::Env<vsh::Sys> {
    let mut env = yash_env::Env::new_virtual();
    env.options.set(ShOption::Glob, OptState::Off);
    if env_spec.nounset {
        env.options.set(ShOption::Unset, OptState::Off);
    }
    for (n, v) in &env_spec.vars {
        env.variables.get_or_new(n.clone(), Scope::Global).assign(v.clone(), None).unwrap();
    }
    env.variables.positional_params_mut().values = env_spec.positional.clone();
    env
}

/// `expand_word` (single-field mode) on every word of the text; one case per word.
fn emit_single(w: &mut CasesWriter, env_spec: &EnvSpec, text: &str) {
    let Some(words) = parse_words(text) else { return };
    for word in &words {
        set_ctx(env_spec);
        let Some(term_w) = word_coq(word) else { return };
        if ctx_used_subst() {
            continue; // command substitution needs a running shell: script mode only
        }
        let r = catch_unwind(AssertUnwindSafe(|| {
            let mut env = make_env(env_spec);
            match expand_word(&mut env, word).now_or_never().expect("expansion blocked") {
                Ok((field, _)) => Ok(field.value),
                Err(e) => Err(error_kind(&e.cause)),
            }
        }))
        .unwrap_or(Err(100));
        let out = match &r {
            Ok(v) => format!("(inl {})", coq::s(v)),
            Err(k) => format!("(inr {})", coq::n(*k as u64)),
        };
        let term = format!("(CSingle {} {} {})", env_spec.coq(), term_w, out);
        let json = format!(
            "{{\"stream\":\"single\",\"env\":{},\"word\":{},\"value\":{}}}",
            env_spec.json(),
            json_str(&word.to_string()),
            match &r {
                Ok(v) => json_str(v),
                Err(k) => format!("\"error {k}\""),
            }
        );
        w.count("stream:single");
        w.push(&term, &json, &[], Some(format!("single|{}|{}", env_spec.json(), word)));
    }
}

/// `expand_text` (as for a here-document body) on a text.
fn emit_text(w: &mut CasesWriter, env_spec: &EnvSpec, src: &str) -> bool {
    let Ok(text) = src.parse::<Text>() else { return false };
    set_ctx(env_spec);
    let Some(term_t) = text_coq(&text) else { return false };
    if ctx_used_subst() {
        return false;
    }
    let r = catch_unwind(AssertUnwindSafe(|| {
        let mut env = make_env(env_spec);
        match expand_text(&mut env, &text).now_or_never().expect("expansion blocked") {
            Ok((value, _)) => Ok(value),
            Err(e) => Err(error_kind(&e.cause)),
        }
    }))
    .unwrap_or(Err(100));
    let out = match &r {
        Ok(v) => format!("(inl {})", coq::s(v)),
        Err(k) => format!("(inr {})", coq::n(*k as u64)),
    };
    let term = format!("(CText {} {} {})", env_spec.coq(), term_t, out);
    let json = format!(
        "{{\"stream\":\"text\",\"env\":{},\"text\":{},\"value\":{}}}",
        env_spec.json(),
        json_str(src),
        match &r {
            Ok(v) => json_str(v),
            Err(k) => format!("\"error {k}\""),
        }
    );
    w.count("stream:text");
    w.push(&term, &json, &[], Some(format!("text|{}|{}", env_spec.json(), src)));
    true
}

fn strs_coq(l: &[String]) -> String {
    if l.is_empty() {
        return "(@nil str)".into();
    }
    let v: Vec<String> = l.iter().map(|s| coq::s(s)).collect();
    coq::list(&v)
}

/// Emits one case per mode for the commands; returns false if the text is outside the
/// supported syntax (nothing is emitted).
fn emit_words(w: &mut CasesWriter, env_spec: &EnvSpec, cmd_texts: &[String], modes: &[bool], tag: &str) -> bool {
    let mut cmds: Vec<Vec<Word>> = vec![];
    let mut cmd_terms = vec![];
    set_ctx(env_spec);
    for t in cmd_texts {
        let Some(words) = parse_words(t) else { return false };
        let mut wt = vec![];
        for x in &words {
            let Some(c) = word_coq(x) else { return false };
            wt.push(c);
        }
        cmd_terms.push(if wt.is_empty() { "(@nil word)".to_string() } else { coq::list(&wt) });
        cmds.push(words);
    }
    let script_only = [false];
    let modes: &[bool] = if ctx_used_subst() { &script_only } else { modes };
    for &api in modes {
        let (out, stop) = if api { run_api(env_spec, &cmds) } else { run_script(env_spec, cmd_texts) };
        let outs: Vec<String> = out.iter().map(|l| strs_coq(l)).collect();
        let term = format!(
            "(CWords {} {} {} {} {})",
            coq::b(api),
            env_spec.coq(),
            coq::list(&cmd_terms),
            if outs.is_empty() { "(@nil (list str))".to_string() } else { coq::list(&outs) },
            coq::opt(stop.map(|k| coq::n(k as u64)))
        );
        let outj: Vec<String> = out.iter().map(|l| yv_harness::json_str_list(l)).collect();
        let json = format!(
            "{{\"stream\":\"words\",\"mode\":{},\"env\":{},\"script\":{},\"commands\":{},\"fields\":[{}],\"stop\":{}}}",
            json_str(if api { "api" } else { "script" }),
            env_spec.json(),
            json_str(&env_spec.script()),
            yv_harness::json_str_list(cmd_texts),
            outj.join(","),
            stop.map(|k| k.to_string()).unwrap_or("null".into())
        );
        w.count(&format!("stream:words:{}:{}", tag, if api { "api" } else { "script" }));
        w.count(&format!("words:end:{}", stop.map(|k| k.to_string()).unwrap_or("ok".into())));
        let nf: usize = out.iter().map(|l| l.len()).sum();
        w.count(&format!("words:fields:{}", nf.min(8)));
        // non-trivial: some command produced a number of fields different from its number of words
        let nontrivial = out.iter().zip(cmds.iter()).any(|(o, c)| o.len() != c.len()) || stop.is_some();
        let key = if nontrivial {
            Some(format!("words|{}|{}|{}", api, env_spec.json(), cmd_texts.join("\n")))
        } else {
            None
        };
        w.push(&term, &json, &[], key);
    }
    true
}

const WORD_VALUES: [&str; 28] = [
    "a", "a b", " a ", "a:b", ":", "", "a::b", " : ", "ab", "b a:", "*", "a*b", "a\\*b", "\u{3000}a\u{3000}",
    "x\ty", ":a", "a: :b ", "ba",
    // characters that are special to pathname expansion but not to trim patterns
    ".bashrc", "..", "a.b", "/x", ".", "a/b", "?a", "a?b*", ".a.", "./a",
];

const WORD_IFS: [Option<&str>; 11] = [
    Some(" \t\n"),
    Some(" \t\n"),
    Some(""),
    None,
    Some(":"),
    Some(" :"),
    Some(": "),
    Some(":,"),
    Some("\t-"),
    Some("\u{3000}"),
    Some("a"),
];

fn random_env(r: &mut Rng) -> EnvSpec {
    let mut vars = vec![];
    for n in ["x", "y"] {
        if !r.chance(1, 6) {
            vars.push((n.to_string(), r.pick(&WORD_VALUES).to_string()));
        }
    }
    vars.push(("e".to_string(), String::new()));
    if let Some(i) = r.pick(&WORD_IFS) {
        vars.push(("IFS".to_string(), i.to_string()));
    }
    if r.chance(1, 3) {
        vars.push(("HOME".to_string(), r.pick(&["/home/u", "/", "", "/h/", "/a b", "/a:b"]).to_string()));
    }
    let np = r.below(4);
    let positional = (0..np).map(|_| r.pick(&WORD_VALUES).to_string()).collect();
    EnvSpec { vars, positional, nounset: r.chance(1, 5) }
}

const PARAM_NAMES: [&str; 12] = ["x", "x", "y", "e", "u", "1", "2", "3", "@", "*", "#", "IFS"];

fn gen_param(r: &mut Rng, depth: u32, dq: bool) -> String {
    let mut name = *r.pick(&PARAM_NAMES);
    let form = r.below(if depth == 0 { 4 } else { 10 });
    // modifiers on $@ and $* are unspecified by POSIX: keep some (model = implementation is
    // still compared), but most of the time use a positional parameter instead
    if form >= 3 && (name == "@" || name == "*") && !r.chance(1, 4) {
        name = *r.pick(&["1", "2", "x"]);
    }
    match form {
        0 => format!("${}", name) + if name.len() > 1 || name.chars().all(|c| c.is_alphanumeric()) { "" } else { "" },
        1..=2 => format!("${{{}}}", name),
        3 => {
            if name == "#" || name == "@" || name == "*" { format!("${{{}}}", name) } else { format!("${{#{}}}", name) }
        }
        4..=7 => {
            let op = *r.pick(&["-", ":-", "=", ":=", "?", ":?", "+", ":+"]);
            let name = if name == "#" { "x" } else { name };
            format!("${{{}{}{}}}", name, op, gen_units(r, depth - 1, dq, true, false, true))
        }
        _ => {
            let op = *r.pick(&["#", "##", "%", "%%"]);
            let name = if name == "#" { "x" } else { name };
            format!("${{{}{}{}}}", name, op, gen_units(r, depth - 1, dq, true, true, true))
        }
    }
}

/// A sequence of word units (dq: inside double quotes; inner: inside `${...}` or `"..."`;
/// pat: the word is a trim pattern; brace: directly the word of a `${...}`).
fn gen_units(r: &mut Rng, depth: u32, dq: bool, inner: bool, pat: bool, brace: bool) -> String {
    let n = if inner { r.below(4) } else { 1 + r.below(4) };
    let mut s = String::new();
    let mut last_was_raw_param = false;
    for _ in 0..n {
        let k = r.below(12);
        let mut raw = false;
        let piece: String = match k {
            0..=2 => {
                // literal characters; never start an identifier right after `$x`
                let pool: &[char] = if pat {
                    &['a', 'b', '*', '*', '?', '?', ':', '.', '/']
                } else if dq || inner {
                    &['a', 'b', ':', ' ', ',']
                } else {
                    &['a', 'b', ':', ',']
                };
                let c = *r.pick(pool);
                if last_was_raw_param && (c.is_alphanumeric() || c == '_') { ":".into() } else { c.to_string() }
            }
            3 => {
                let c = if dq { *r.pick(&['$', '\\', '"', 'a']) } else { *r.pick(&[' ', ':', 'a', '$', '\\', '"', '*']) };
                format!("\\{}", c)
            }
            4 if !dq => format!("'{}'", r.pick(&["", "a", " ", "a b", ":", "$x", "*"])),
            // double quotes; also nested ones inside the word of a `${...}` that is itself
            // inside double quotes; often followed by $* / $@ in the same quotes
            5..=6 if (!dq || brace) && depth > 0 => {
                let mut inner_text = gen_units(r, depth - 1, true, true, false, false);
                if r.chance(1, 3) {
                    inner_text.push_str(*r.pick(&[" $*", "$@", "$*", " $@ "]));
                }
                format!("\"{}\"", inner_text)
            }
            5 if !dq => "\"\"".into(),
            7 if !pat && r.chance(1, 2) => {
                // command substitution (output supplied to the model), arithmetic, $'...'
                match r.below(if dq { 5 } else { 7 }) {
                    0 => format!("$(echo {})", sh_quote(r.pick(&["a b", " a ", "a:b", "", ":", "x\ty", "a  b "]))),
                    1 => format!("`echo {}`", sh_quote(r.pick(&["a b", ":a:", "", "b"]))),
                    2 => format!("$(echo {}; echo; echo)", sh_quote(r.pick(&["a", " ", "a\n\nb"]))),
                    3 => format!("$(({}{}{}))", r.below(30), r.pick(&["+", "-", " * ", " - "]), r.below(30)),
                    4 => format!("$(( $# {} {} ))", r.pick(&["+", "-", "*"]), r.below(12)),
                    5 => format!("$'{}'", r.pick(&["a b", "\\t", "", "a\\x41:", "\\'"])),
                    _ => "$''".to_string(),
                }
            }
            _ => {
                let p = gen_param(r, depth, dq);
                raw = !p.starts_with("${");
                p
            }
        };
        if last_was_raw_param && !raw {
            // `$x` followed by something that could extend the name
            if let Some(c) = piece.chars().next() {
                if c.is_alphanumeric() || c == '_' {
                    s.push_str("\"\"");
                }
            }
        }
        if last_was_raw_param && raw {
            // fine: `$x$y`
        }
        s.push_str(&piece);
        last_was_raw_param = raw;
    }
    s
}

fn stream_words(w: &mut CasesWriter, rng: &mut Rng, args: &Args) {
    // ---- corpus -----------------------------------------------------------------
    let base = EnvSpec {
        vars: vec![
            ("x".into(), "a b".into()),
            ("y".into(), ":a::b:".into()),
            ("e".into(), "".into()),
            ("IFS".into(), " :".into()),
        ],
        positional: vec!["1 2".into(), "".into(), "3".into()],
        nounset: false,
    };
    let corpus: [&[&str]; 16] = [
        &["$x", "\"$x\"", "'$x'", "\\$x"],
        &["$y", "\"$y\""],
        &["$@", "\"$@\"", "$*", "\"$*\""],
        &["a\"$@\"b", "a$@b", "\"a $* b\""],
        &["$e", "\"$e\"", "$e''", "$u\"\"$u"],
        &["${u-a b}", "\"${u-a b}\"", "${u-'a b'}", "${x+\"$@\"}"],
        &["${u:=a:b}", "$u", "\"$u\""],
        &["${e:-d}", "${e-d}", "${e:+d}", "${e+d}", "${x:+d}"],
        &["${#x}", "${#e}", "${#u}", "${#}", "$#"],
        &["${y#:}", "${y##*:}", "${y%:}", "${y%%:*}", "${x#\"a \"}"],
        &["${4-$@}", "\"${4-$@}\"", "${4-\"$@\"}"],
        &["\"${x:+\"$x\"} $*\"", "\"${x:+\"$x\"}$@\"", "\"${u-\"q\"} $* \"", "\"${e:-\"\"}$*\"", "\"a${x+\"${u-\"n\"}\"}$*\""],
        &["${x:+\"$x\"}$*", "\"${x:+\"$x\" $*} $*\"", "\"${4-\"$@\"} $*\""],
        &["${u?msg}", "after"],
        &["${1=z}", "after"],
        &["${e:?}", "after"],
    ];
    for cmd in corpus {
        let texts: Vec<String> = vec![cmd.join(" "), "\"${x-U}\" \"${y-U}\" \"${u-U}\"".to_string()];
        assert!(emit_words(w, &base, &texts, &[true, false], "corpus"), "corpus word not supported: {texts:?}");
    }
    for t in ["$x $* \"$*\" $@ \"$@\" a\"$@\"b ${u-$@} ${u:=$*} '' \"\" \\a${e}"] {
        emit_single(w, &base, t);
    }
    for home in [None, Some("/home/u"), Some(""), Some("/h/"), Some("/a b")] {
        let mut e = base.clone();
        if let Some(h) = home {
            e.vars.push(("HOME".into(), h.into()));
        }
        for cmd in [
            &["~", "~/x", "~root", "\"~\"", "a~", "~$x", "${u-~}", "~/"][..],
            &["$(echo 'a b')", "\"$(echo 'a b')\"", "`echo ':a:'`", "x$(echo; echo)y", "$(echo 'a'; echo; echo)\"\""],
            &["$((1+2))", "$(( $# * 4 ))", "\"$((3 - 5))\"", "a$((10*10))b"],
            &["$'a b'", "$''", "$'\\t:'$x", "\"$'a'\""],
        ] {
            let texts: Vec<String> = vec![cmd.join(" ")];
            assert!(emit_words(w, &e, &texts, &[true, false], "corpus"), "units corpus: {texts:?}");
            emit_single(w, &e, &texts[0]);
        }
    }
    for t in ["a \"$x\" '$y' \\$x \\a $* $@ ${u-\"q\" 'r'} ${#x} $((2*3)) ${y#:} ~", "", "$e", "${u?}", "${u:=v w}$u"] {
        assert!(emit_text(w, &base, t), "text corpus: {t:?}");
    }
    let mut nu = base.clone();
    nu.nounset = true;
    for cmd in [&["$u"][..], &["\"${u}\""], &["${#u}"], &["${u%a}"], &["${u-ok}", "${u+no}", "$@", "$*", "${4-d}"], &["$4"], &["${u:=v}", "$u"]] {
        let texts: Vec<String> = vec![cmd.join(" "), "done".to_string()];
        assert!(emit_words(w, &nu, &texts, &[true, false], "corpus"));
    }
    let bs = EnvSpec {
        vars: vec![("x".into(), "ab\\".into()), ("y".into(), "a\\*b".into()), ("z".into(), "\\".into()), ("e".into(), "".into())],
        positional: vec![],
        nounset: false,
    };
    for cmd in [&["${x%$z}", "${y%\\*b}", "${x%${y%\\*b}}", "${y#a$z}", "${y#a$z*}", "${y%%$z*}"][..]] {
        let texts: Vec<String> = vec![cmd.join(" ")];
        assert!(emit_words(w, &bs, &texts, &[true, false], "corpus"));
    }
    for ifs in [None, Some(""), Some(",:")] {
        let mut e = base.clone();
        e.vars.retain(|(n, _)| n != "IFS");
        if let Some(i) = ifs {
            e.vars.push(("IFS".into(), i.into()));
        }
        for cmd in [&["\"$*\"", "$*", "\"a$*b\"", "${u=$*}", "\"$u\"", "${x%$*}", "\"${4-$*}\""][..]] {
            let texts: Vec<String> = vec![cmd.join(" ")];
            assert!(emit_words(w, &e, &texts, &[true, false], "corpus"));
            emit_single(w, &e, &texts[0]);
        }
    }
    // trim grid: values with a leading period, slashes and pattern characters against
    // wildcard patterns; trims are plain pattern matching (XCU 2.13.1), not pathname
    // expansion (2.13.3): `?` and `*` match a leading period and a slash
    let trim_values = [".bashrc", "..", "a.b", "/x", ".", "a/b/c", "*a?", ".a.", ""];
    let trim_pats = ["?", "*", "*.", ".*", "?*", "*?", "/*", "*/", "\\.", "'.'*", "??", "*.*", "\"?\"", "\\*", "?.", "*/*"];
    for v in trim_values {
        let e = EnvSpec {
            vars: vec![("f".into(), v.into()), ("e".into(), "".into())],
            positional: vec![v.into()],
            nounset: false,
        };
        for op in ["#", "##", "%", "%%"] {
            let words: Vec<String> = trim_pats.iter().map(|p| format!("\"${{f{op}{p}}}\"")).collect();
            let texts = vec![words.join(" "), format!("${{1{op}?}} \"${{1{op}*}}\"")];
            assert!(emit_words(w, &e, &texts, &[true, false], "trimgrid"), "trim grid: {texts:?}");
        }
    }
    let mut nopos = base.clone();
    nopos.positional.clear();
    for cmd in [&["\"$@\"", "$@", "\"$*\"", "$*"][..], &["\"$@\"\"\"", "''$@", "\"a$@\"", "\"${u-}$@\""], &["${@-d}", "${*:+d}"]] {
        let texts: Vec<String> = vec![cmd.join(" ")];
        assert!(emit_words(w, &nopos, &texts, &[true, false], "corpus"));
    }

    // ---- bounded-exhaustive: all words of up to N tokens ------------------------------
    let tokens: [&str; 14] = [
        "a", ":", "\\ ", "${x}", "${e}", "${u}", "\"${x}\"", "\"$@\"", "$@", "\"$*\"", "$*", "''", "\"\"", "${y}",
    ];
    let envs: Vec<EnvSpec> = {
        let mut v = vec![];
        for ifs in [Some(" \t\n"), Some(" :"), Some(""), None, Some(":")] {
            for pos in [vec![], vec!["".to_string()], vec!["p q".to_string(), ":r".to_string()]] {
                let mut vars = vec![
                    ("x".to_string(), " a:b ".to_string()),
                    ("y".to_string(), ": ".to_string()),
                    ("e".to_string(), String::new()),
                ];
                if let Some(i) = ifs {
                    vars.push(("IFS".to_string(), i.to_string()));
                }
                v.push(EnvSpec { vars, positional: pos, nounset: false });
            }
        }
        v
    };
    let maxlen = args.scale(2, 3);
    let env_stride = args.scale(5, 3); // a sample of the environments (all of them over the run)
    let mut count = 0usize;
    for len in 1..=maxlen {
        let total = tokens.len().pow(len as u32);
        for code in 0..total {
            let mut k = code;
            let mut word = String::new();
            for _ in 0..len {
                word.push_str(tokens[k % tokens.len()]);
                k /= tokens.len();
            }
            for (ei, e) in envs.iter().enumerate() {
                count += 1;
                if (count + ei) % env_stride != 0 {
                    continue;
                }
                // the script mode is sampled (it is ~50 times slower than the API)
                let modes: &[bool] = if count % 7 == 0 { &[true, false] } else { &[true] };
                assert!(emit_words(w, e, &[word.clone()], modes, "exhaustive"));
            }
        }
    }

    // ---- named exhaustive space E4: every word of 1..4 tokens over 6 tokens x 3 environments
    // (thorough: all of it, `exhaustive:E4:complete` is counted; quick: every 12th word)
    let tokens4: [&str; 6] = ["a", ":", "${x}", "\"$@\"", "$*", "\"\""];
    let envs4: Vec<EnvSpec> = [(Some(" \t\n"), 2usize), (Some(" :"), 0), (Some(""), 2)]
        .iter()
        .map(|(ifs, np)| {
            let mut vars = vec![("x".to_string(), " a:b ".to_string()), ("e".to_string(), String::new())];
            if let Some(i) = ifs {
                vars.push(("IFS".to_string(), i.to_string()));
            }
            EnvSpec { vars, positional: ["p q", ":r"][..*np].iter().map(|s| s.to_string()).collect(), nounset: false }
        })
        .collect();
    let stride4 = args.scale(12, 1);
    let mut n4 = 0usize;
    for len in 1..=4 {
        let total = tokens4.len().pow(len as u32);
        for code in 0..total {
            n4 += 1;
            if n4 % stride4 != 0 {
                continue;
            }
            let mut k = code;
            let mut word = String::new();
            for _ in 0..len {
                word.push_str(tokens4[k % tokens4.len()]);
                k /= tokens4.len();
            }
            for e in &envs4 {
                assert!(emit_words(w, e, &[word.clone()], &[true], "E4"));
            }
        }
    }
    if stride4 == 1 {
        w.count("exhaustive:E4:complete (1554 words of 1..4 tokens over {a : ${x} \"$@\" $* \"\"} x 3 environments)");
    }

    // ---- random words ---------------------------------------------------------------------
    let n = args.scale(500, 8000);
    let mut k = 0u64;
    let mut made = 0;
    while made < n {
        k += 1;
        let mut r = rng.fork(0x30D5 + k);
        let e = random_env(&mut r);
        let ncmd = 1 + r.below(2);
        let mut texts = vec![];
        for _ in 0..ncmd {
            let nw = 1 + r.below(2);
            let ws: Vec<String> = (0..nw)
                .map(|_| {
                    let body = gen_units(&mut r, 2, false, false, false, false);
                    match r.below(12) {
                        0 => format!("~{body}"),
                        1 => format!("~/{body}"),
                        2 => "~".to_string(),
                        3 => format!("~root/{body}"),
                        _ => body,
                    }
                })
                .collect();
            texts.push(ws.join(" "));
        }
        texts.push("\"${x-U}\" \"${y-U}\" \"${u-U}\"".to_string());
        let modes: &[bool] = if made % 3 == 0 { &[true, false] } else { &[true] };
        if emit_words(w, &e, &texts, modes, "random") {
            if made % 4 == 1 {
                emit_single(w, &e, &texts[0]);
            }
            if made % 4 == 2 {
                let body = gen_units(&mut r, 2, true, true, false, false);
                emit_text(w, &e, &body);
            }
            made += 1;
        } else {
            w.count("words:rejected-by-parser-or-unsupported");
        }
    }
}


// ---------------------------------------------------------------------------
// stream: heredoc — here-documents through the real parser (`<<` / `<<-`, quoted and
// unquoted delimiters), `expand_text` on the parsed content, and whole `cat <<EOF`
// scripts in the virtual shell.  The Coq term of the body is built from the GENERATOR's
// structure (not from the parser's AST), so the here-document lexer rules (only `\$`,
// `` \` ``, `\\` and backslash-newline are escapes, `"` and `'` are literal, tab stripping,
// no expansion after a quoted delimiter) are inside the comparison.

#[derive(Clone, Debug)]
enum HUnit {
    Lit(char),
    /// `\c` with c one of `$`, `` ` ``, `\`: an escape
    Bs(char),
    /// `\c` with any other c: a literal backslash followed by a literal c
    BsOther(char),
    /// backslash-newline: removed
    LineCont,
    /// `$name`
    Raw(&'static str),
    /// `${name}`, `${#name}`
    Braced(&'static str, bool),
    /// `${name OP word}` with a literal word
    Switch(&'static str, &'static str, &'static str),
}

fn hparam_coq(name: &str) -> String {
    match name {
        "@" => "PAt".into(),
        "*" => "PStar".into(),
        "#" => "PNum".into(),
        "1" | "2" | "3" => format!("(PPos {})", coq::nat(name.parse::<usize>().unwrap())),
        _ => format!("(PVar {})", coq::s(name)),
    }
}

impl HUnit {
    fn src(&self) -> String {
        match self {
            HUnit::Lit(c) => c.to_string(),
            HUnit::Bs(c) | HUnit::BsOther(c) => format!("\\{c}"),
            HUnit::LineCont => "\\\n".into(),
            HUnit::Raw(n) => format!("${n}"),
            HUnit::Braced(n, false) => format!("${{{n}}}"),
            HUnit::Braced(n, true) => format!("${{#{n}}}"),
            HUnit::Switch(n, op, w) => format!("${{{n}{op}{w}}}"),
        }
    }
    /// the text units POSIX (XCU 2.7.4) makes of this piece of an unquoted here-document
    fn terms(&self) -> Vec<String> {
        match self {
            HUnit::Lit(c) => vec![format!("(TLit {})", *c as u32)],
            HUnit::Bs(c) => vec![format!("(TBs {})", *c as u32)],
            HUnit::BsOther(c) => vec!["(TLit 92)".into(), format!("(TLit {})", *c as u32)],
            HUnit::LineCont => vec![],
            HUnit::Raw(n) | HUnit::Braced(n, false) => vec![format!("(TParam {} MNone)", hparam_coq(n))],
            HUnit::Braced(n, true) => vec![format!("(TParam {} MLength)", hparam_coq(n))],
            HUnit::Switch(n, op, w) => {
                let colon = op.starts_with(':');
                let a = match op.trim_start_matches(':') {
                    "+" => "Alter",
                    "-" => "Default",
                    "=" => "Assign",
                    _ => "Error",
                };
                let mut word = String::from("WNil");
                for c in w.chars().rev() {
                    word = format!("(WCons (WUnq (TLit {})) {})", c as u32, word);
                }
                vec![format!("(TParam {} (MSwitch {} {} {}))", hparam_coq(n), a, coq::b(colon), word)]
            }
        }
    }
}

fn terms_to_text(ts: &[String]) -> String {
    let mut s = String::from("TNil");
    for t in ts.iter().rev() {
        s = format!("(TCons {} {})", t, s);
    }
    s
}

fn gen_hline(r: &mut Rng) -> Vec<HUnit> {
    let n = r.below(6);
    let mut v: Vec<HUnit> = vec![];
    for _ in 0..n {
        // (a line continuation does not end a parameter name)
        let after_name = matches!(v.iter().rev().find(|u| !matches!(u, HUnit::LineCont)), Some(HUnit::Raw(n)) if n.chars().all(|c| c.is_alphanumeric()));
        let u = match r.below(16) {
            0..=4 => {
                let c = *r.pick(&['a', 'b', ' ', ' ', ':', '"', '\'', ',', '-', '#', '*', '~', '\t']);
                HUnit::Lit(if after_name && c.is_alphanumeric() { '-' } else { c })
            }
            5 => HUnit::Bs(*r.pick(&['$', '`', '\\'])),
            6..=7 => HUnit::BsOther(*r.pick(&['"', '"', '\'', 'a', ' ', ':'])),
            8 => HUnit::LineCont,
            9..=11 => HUnit::Raw(*r.pick(&["x", "y", "e", "u", "1", "2", "@", "*", "#", "IFS"])),
            12..=13 => {
                let n = *r.pick(&["x", "y", "e", "u", "1", "3", "@", "*"]);
                let len = r.chance(1, 3) && n != "@" && n != "*";
                HUnit::Braced(n, len)
            }
            _ => HUnit::Switch(
                *r.pick(&["x", "y", "e", "u", "u", "2"]),
                *r.pick(&["-", ":-", "+", ":+", "=", ":=", "?", ":?"]),
                *r.pick(&["", "q", "q r:s", ",a"]), // (inside ${...} quotes are quotes again: literal words only)
            ),
        };
        v.push(u);
    }
    // a line must not end in a line continuation glued to the delimiter line, nor start
    // with a tab of its own (the tab prefix is added by the caller)
    if matches!(v.last(), Some(HUnit::LineCont)) {
        v.push(HUnit::Lit(','));
    }
    if matches!(v.first(), Some(HUnit::Lit('\t'))) {
        v[0] = HUnit::Lit('a');
    }
    v
}

/// One here-document: (operator + delimiter as written, body source, Coq term of the text
/// POSIX prescribes).
fn emit_heredoc(w: &mut CasesWriter, env_spec: &EnvSpec, lines: &[(usize, Vec<HUnit>)], remove_tabs: bool, quoting: usize, script_mode: bool) {
    let mut body = String::new();
    let mut terms: Vec<String> = vec![];
    for (tabs, units) in lines {
        for _ in 0..*tabs {
            body.push('\t');
            if !remove_tabs && quoting == 0 {
                terms.push("(TLit 9)".into());
            }
        }
        for u in units {
            body.push_str(&u.src());
            if quoting == 0 {
                terms.extend(u.terms());
            }
        }
        body.push('\n');
        if quoting == 0 {
            terms.push("(TLit 10)".into());
        }
    }
    if quoting != 0 {
        // quoted delimiter: every character of every line is literal (XCU 2.7.4), after the
        // removal of leading tabs for `<<-`
        for line in body.split_inclusive('\n') {
            let l = if remove_tabs { line.trim_start_matches('\t') } else { line };
            if l == "EOF\n" {
                return; // would end the here-document early
            }
            terms.extend(l.chars().map(|c| format!("(TLit {})", c as u32)));
        }
    }
    let term_t = terms_to_text(&terms);
    let delim = ["EOF", "'EOF'", "\\EOF", "\"EOF\"", "E'O'F"][quoting];
    let op = if remove_tabs { "<<-" } else { "<<" };
    let cmd = format!("cat {op}{delim}\n{body}{}EOF\n", if remove_tabs { "\t" } else { "" });

    let out: Result<String, u32> = if script_mode {
        let o = vsh::run_script(&format!("{}{}", env_spec.script(), cmd));
        if o.panicked.is_some() || o.deadlock || o.timeout {
            Err(100)
        } else if o.status == 0 {
            Ok(o.stdout.clone())
        } else if o.stdout.is_empty() {
            // the error kind is not observable in a script: ask the API for it below
            Err(0)
        } else {
            Ok(o.stdout.clone())
        }
    } else {
        Err(0)
    };
    // API: the real parser, then expand_text on the content of the here-document
    let api: Result<String, u32> = catch_unwind(AssertUnwindSafe(|| {
        let list: yash_syntax::syntax::List = match cmd.parse() {
            Ok(l) => l,
            Err(_) => return Err(101),
        };
        let mut found = None;
        for item in &list.0 {
            for p in std::iter::once(&item.and_or.first).chain(item.and_or.rest.iter().map(|(_, p)| p)) {
                for c in &p.commands {
                    if let yash_syntax::syntax::Command::Simple(sc) = &**c {
                        for rd in sc.redirs.iter() {
                            if let yash_syntax::syntax::RedirBody::HereDoc(h) = &rd.body {
                                found = Some(h.clone());
                            }
                        }
                    }
                }
            }
        }
        let Some(h) = found else { return Err(102) };
        let Some(text) = h.content.get() else { return Err(103) };
        if h.remove_tabs != remove_tabs {
            return Err(104);
        }
        let mut env = make_env(env_spec);
        match expand_text(&mut env, text).now_or_never().expect("expansion blocked") {
            Ok((value, _)) => Ok(value),
            Err(e) => Err(error_kind(&e.cause)),
        }
    }))
    .unwrap_or(Err(100));
    let r: Result<String, u32> = if script_mode {
        match (&out, &api) {
            (Err(0), Err(k)) => Err(*k),  // the script failed: kind as reported by the API
            (Err(0), Ok(_)) => Err(9),    // the script failed although the API expands the text
            _ => out.clone(),
        }
    } else {
        api.clone()
    };
    let outc = match &r {
        Ok(v) => format!("(inl {})", coq::s(v)),
        Err(k) => format!("(inr {})", coq::n(*k as u64)),
    };
    let term = format!("(CText {} {} {})", env_spec.coq(), term_t, outc);
    let json = format!(
        "{{\"stream\":\"heredoc\",\"mode\":{},\"env\":{},\"script\":{},\"value\":{}}}",
        json_str(if script_mode { "script" } else { "api" }),
        env_spec.json(),
        json_str(&cmd),
        match &r {
            Ok(v) => json_str(v),
            Err(k) => format!("\"error {k}\""),
        }
    );
    w.count(if script_mode { "stream:heredoc:script" } else { "stream:heredoc:api" });
    w.count(&format!("heredoc:{}{}", op, if quoting == 0 { "unquoted" } else { "quoted" }));
    if quoting == 0 && (body.contains("\\\"") || body.contains('"')) {
        w.count("heredoc:unquoted-with-double-quote");
    }
    if quoting == 0 && body.contains('$') {
        let splitting_ifs = env_spec.vars.iter().any(|(n, v)| n == "IFS" && !v.is_empty()) || !env_spec.has_ifs();
        if splitting_ifs {
            w.count("heredoc:expansion-under-a-splitting-IFS");
        }
    }
    w.push(&term, &json, &[], Some(format!("heredoc|{}|{}|{}", script_mode, env_spec.json(), cmd)));
}

fn stream_heredoc(w: &mut CasesWriter, rng: &mut Rng, args: &Args) {
    use HUnit::*;
    // ---- corpus ----
    let base = EnvSpec {
        vars: vec![
            ("x".to_string(), " a:b  c ".to_string()),
            ("y".to_string(), ": ".to_string()),
            ("e".to_string(), String::new()),
            ("IFS".to_string(), " :".to_string()),
        ],
        positional: vec!["p q".to_string(), ":r".to_string()],
        nounset: false,
    };
    let mut nu = base.clone();
    nu.nounset = true;
    let corpus: Vec<Vec<(usize, Vec<HUnit>)>> = vec![
        vec![],
        vec![(0, vec![])],
        vec![(0, vec![Lit('a'), Lit(' '), Raw("x"), Lit(' '), Braced("y", false), Lit('"'), Raw("x"), Lit('"')])],
        vec![(1, vec![BsOther('"'), Bs('$'), Lit('x'), Bs('`'), Bs('\\'), BsOther('a'), Lit('\''), Raw("x"), Lit('\'')])],
        vec![(2, vec![Raw("@"), Lit('|'), Raw("*"), Lit('|'), Braced("@", false), Lit('|'), Raw("#")]), (1, vec![Lit('z')])],
        vec![(0, vec![Lit('a'), LineCont, Lit('b'), Lit('\t'), Raw("e")]), (1, vec![Braced("x", true)])],
        vec![(0, vec![Switch("u", "-", "q r:s"), Switch("x", ":+", "q,"), Switch("e", ":-", "q")])],
        vec![(0, vec![Switch("u", "=", "q r:s"), Raw("u")])],
        vec![(0, vec![Lit('a'), Raw("u")])],
        vec![(0, vec![Switch("u", "?", "q")])],
    ];
    for lines in &corpus {
        for e in [&base, &nu] {
            for (rt, q) in [(false, 0), (true, 0), (false, 1), (true, 2), (false, 3), (true, 4)] {
                emit_heredoc(w, e, lines, rt, q, false);
                emit_heredoc(w, e, lines, rt, q, true);
            }
        }
    }
    // ---- random ----
    let n = args.scale(250, 4000);
    for k in 0..n {
        let mut r = rng.fork(0x4E5D + k as u64);
        let e = random_env(&mut r);
        let nl = r.below(4);
        let lines: Vec<(usize, Vec<HUnit>)> =
            (0..nl).map(|_| (if r.chance(1, 3) { 1 + r.below(2) } else { 0 }, gen_hline(&mut r))).collect();
        let remove_tabs = r.chance(1, 2);
        let quoting = if r.chance(1, 4) { 1 + r.below(4) } else { 0 };
        emit_heredoc(w, &e, &lines, remove_tabs, quoting, false);
        if k % 3 == 0 {
            emit_heredoc(w, &e, &lines, remove_tabs, quoting, true);
        }
    }
}


// ---------------------------------------------------------------------------
// stream: read

fn opt_str_coq(o: &Option<String>) -> String {
    match o {
        None => "None".into(),
        Some(s) => format!("(Some {})", coq::s(s)),
    }
}

fn emit_read_assign(w: &mut CasesWriter, ifs: &Option<String>, text: &[AttrChar], n: usize) {
    let r = catch_unwind(AssertUnwindSafe(|| {
        let mut env = yash_env::Env::new_virtual();
        if let Some(i) = ifs {
            env.variables.get_or_new(IFS, Scope::Global).assign(i.clone(), None).unwrap();
        }
        let names: Vec<String> = (0..=n).map(|k| format!("v{k}")).collect();
        let vars = yash_env::semantics::Field::dummies(names[..n].iter().map(|s| s.as_str()));
        let last = yash_env::semantics::Field::dummy(names[n].as_str());
        let errors = yash_builtin::read::assigning::assign(&mut env, text, vars, last);
        assert!(errors.is_empty());
        names
            .iter()
            .map(|v| env.variables.get_scalar(v.as_str()).expect("variable not assigned").to_string())
            .collect::<Vec<String>>()
    }));
    let out = match &r {
        Ok(vs) => format!("(Some {})", strs_coq(vs)),
        Err(_) => "None".into(),
    };
    let term = format!("(CReadAssign {} {} {} {})", opt_str_coq(ifs), field_coq(text), coq::nat(n), out);
    let json = format!(
        "{{\"stream\":\"read-assign\",\"ifs\":{},\"text\":{},\"variables\":{},\"values\":{}}}",
        ifs.as_ref().map(|s| json_str(s)).unwrap_or("null".into()),
        json_str(&field_show(text)),
        n + 1,
        r.as_ref().map(|v| yv_harness::json_str_list(v)).unwrap_or("\"PANIC\"".into())
    );
    w.count("stream:read:assign");
    // non-trivial: the last variable received more than one field's worth (it contains a delimiter)
    let key = match &r {
        Ok(vs) if vs.iter().filter(|v| !v.is_empty()).count() >= 2 => {
            Some(format!("ra|{:?}|{}|{}", ifs, field_show(text), n))
        }
        _ => None,
    };
    w.push(&term, &json, &[], key);
}

fn emit_read_line(w: &mut CasesWriter, ifs: &Option<String>, raw: bool, input: &str, n: usize) {
    let names: Vec<String> = (0..=n).map(|k| format!("v{k}")).collect();
    let mut script = String::new();
    match ifs {
        Some(i) => script.push_str(&format!("IFS={}; ", sh_quote(i))),
        None => script.push_str("unset IFS; "),
    }
    // (vsh's `stdin` option replaces the inode at /dev/stdin, which fd 0 does not follow;
    // the input is therefore given as a file and redirected)
    script.push_str(&format!("read {}{} </tmp/in\n", if raw { "-r " } else { "" }, names.join(" ")));
    script.push_str("args \"$?\"");
    for v in &names {
        script.push_str(&format!(" \"${{{v}-UNSET}}\""));
    }
    script.push('\n');
    let (o, _) = vsh::run_shell(
        vsh::RunOpts {
            argv: vec!["-c".into(), script.clone()],
            files: vec![("/tmp/in".to_string(), input.as_bytes().to_vec())],
            ..Default::default()
        },
        |_, _| {},
    );
    let ok = o.panicked.is_none() && !o.deadlock && !o.timeout;
    let item = o.trace.iter().find(|t| t.kind == "args");
    let out = match (ok, item) {
        (true, Some(t)) if t.args.len() == n + 2 => {
            let st: u64 = t.args[0].parse().unwrap_or(999);
            Some((t.args[1..].to_vec(), st))
        }
        _ => None,
    };
    let outc = match &out {
        Some((vs, st)) => format!("(Some ({}, {}))", strs_coq(vs), coq::n(*st)),
        None => "None".into(),
    };
    let term = format!(
        "(CReadLine {} {} {} {} {})",
        opt_str_coq(ifs),
        coq::b(raw),
        coq::s(input),
        coq::nat(n),
        outc
    );
    let json = format!(
        "{{\"stream\":\"read-line\",\"script\":{},\"stdin\":{},\"values\":{},\"status\":{}}}",
        json_str(&script),
        json_str(input),
        out.as_ref().map(|x| yv_harness::json_str_list(&x.0)).unwrap_or("\"PANIC\"".into()),
        out.as_ref().map(|x| x.1.to_string()).unwrap_or("null".into())
    );
    w.count("stream:read:line");
    let key = match &out {
        Some((vs, _)) if vs.iter().filter(|v| !v.is_empty()).count() >= 2 => {
            Some(format!("rl|{:?}|{}|{}|{}", ifs, raw, input, n))
        }
        _ => None,
    };
    w.push(&term, &json, &[], key);
}

fn stream_read(w: &mut CasesWriter, rng: &mut Rng, args: &Args) {
    let some = |s: &str| Some(s.to_string());
    // corpus
    let corpus: [(Option<String>, &str, usize); 14] = [
        (None, " 1 222  33 ", 2),
        (None, "foo", 2),
        (None, "a b c d  ", 1),
        (some(":"), "1:2:3:", 1),
        (some(":"), "1:2:", 1),
        (some(": "), "1 2 : ", 1),
        (some(": "), "1 2 : 3", 1),
        (some(": "), "1 2 3 : ", 1),
        (some(":"), "a::", 1),
        (some(":"), "::", 0),
        (some(""), " a b ", 1),
        (some(" "), "a\\ b c\\", 1),
        (some(" "), "a\\\nb c\nd", 0),
        (some(":"), "a:b", 3),
    ];
    for (ifs, s, n) in &corpus {
        let text: Vec<AttrChar> = s.chars().filter(|c| *c != '\n').map(soft).collect();
        emit_read_assign(w, ifs, &text, *n);
        emit_read_line(w, ifs, false, &format!("{s}\n"), *n);
        emit_read_line(w, ifs, true, s, *n);
    }
    // bounded-exhaustive: strings over {a, ' ', ':'} with IFS " :" and 1..3 variables
    let alpha = ['a', ' ', ':'];
    let maxlen = args.scale(4, 6);
    for len in 0..=maxlen {
        let total = alpha.len().pow(len as u32);
        for code in 0..total {
            let mut k = code;
            let mut s = String::new();
            for _ in 0..len {
                s.push(alpha[k % 3]);
                k /= 3;
            }
            let text: Vec<AttrChar> = s.chars().map(soft).collect();
            for n in 0..=2 {
                if (code + n) % args.scale(2, 1) == 0 {
                    emit_read_assign(w, &some(" :"), &text, n);
                }
            }
        }
    }
    // random
    let n = args.scale(200, 3000);
    for k in 0..n {
        let mut r = rng.fork(0x4EAD + k as u64);
        let ifs: Option<String> = match r.below(8) {
            0 => None,
            _ => Some(r.pick(&IFS_POOL).to_string()),
        };
        let len = r.below(12);
        let text: Vec<AttrChar> = (0..len).map(|_| random_attr_char(&mut r)).collect();
        emit_read_assign(w, &ifs, &text, r.below(4));
    }
    let n = args.scale(150, 1500);
    for k in 0..n {
        let mut r = rng.fork(0x11FE + k as u64);
        let ifs: Option<String> = match r.below(8) {
            0 => None,
            _ => Some(r.pick(&IFS_POOL).to_string()),
        };
        let len = r.below(14);
        let pool = ['a', 'b', ' ', ' ', ':', ':', ',', '-', '\t', '\\', '\\', '\n', '\u{3000}'];
        let input: String = (0..len).map(|_| *r.pick(&pool)).collect();
        emit_read_line(w, &ifs, r.chance(1, 3), &input, r.below(3));
    }
}

fn main() {
    let args = Args::parse();
    let mut rng = Rng::new(args.seed);
    let mut w = CasesWriter::new(&args, "Yv.C01.Run", 150);

    stream_ws(&mut w);
    let mut r = rng.fork(1);
    stream_split(&mut w, &mut r, &args);
    let mut r = rng.fork(2);
    stream_phrase(&mut w, &mut r, &args);
    let mut r = rng.fork(3);
    stream_words(&mut w, &mut r, &args);
    let mut r = rng.fork(4);
    stream_read(&mut w, &mut r, &args);
    let mut r = rng.fork(5);
    stream_heredoc(&mut w, &mut r, &args);

    w.finish(
        "ws: the Unicode white-space table; split: attributed strings x IFS values through \
         Ifs::ranges and split (non-trivial = two or more fields or an empty field); phrase: \
         pairs of phrases through append, phrases x IFS through ifs_join (all non-trivial); \
         words: commands in generated environments (non-trivial = a command whose number of \
         fields differs from its number of words, or an expansion error); distinct by input. \
         exhaustive: true (thorough tier only) for the named space E4 = all words of 1..4 tokens \
         over {a, :, ${x}, \"$@\", $*, \"\"} x 3 environments (IFS default / ' :' / empty; 2, 0, 2 \
         positional parameters), and for split inputs of length <= 6 over {a, ' ', ':', quoted ' '} \
         with IFS ' :', and read texts of length <= 6 over {a, ' ', ':'} x 1..3 variables",
    );
}
