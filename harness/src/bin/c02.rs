//! C02 — programs of the core command language on the real shell.
//!
//! A generator builds ASTs of the language that `coq/C02/Model.v` covers
//! (lists, and-or lists, negated / multi-command pipelines, brace groups,
//! subshells, if/while/until/for/case, function definitions and calls, the
//! break/continue/return/exit built-ins, `set -e`, probes), renders each AST to
//! shell text with random surface syntax, runs the real shell on the text in
//! the simulated OS (`vsh::run_shell`, with a probe built-in that records
//! `(pid, KEY, $?)`), and writes the AST (as a Coq term) next to the
//! canonicalised probe trace and the final exit status.
//!
//! This file is also included as a module by `c10.rs` (same language, other
//! generator streams).
#![allow(dead_code)]

use std::cell::RefCell;
use std::collections::BTreeMap;
use yash_env::builtin::{Builtin, Type};
use yash_env::semantics::{ExitStatus, Field};
use yash_env::system::GetPid as _;
use yv_harness::cli::Args;
use yv_harness::out::CasesWriter;
use yv_harness::rng::Rng;
use yv_harness::vsh::{self, BuiltinFuture, VEnv};
use yv_harness::{coq, json_str};

// ---------------------------------------------------------------------------
// AST (mirrors coq/C02/Model.v)
// ---------------------------------------------------------------------------

#[derive(Clone, Copy, Debug, PartialEq, Eq)]
pub enum Name {
    Colon,
    Break,
    Continue,
    Return,
    Exit,
    Set,
    /// `exec` without operands
    Exec,
    /// `.` applied to a file that does not exist
    Dot,
    Probe,
    True,
    False,
    Wait,
    User(u32),
}

impl Name {
    pub fn text(self) -> String {
        match self {
            Name::Colon => ":".into(),
            Name::Break => "break".into(),
            Name::Continue => "continue".into(),
            Name::Return => "return".into(),
            Name::Exit => "exit".into(),
            Name::Set => "set".into(),
            Name::Exec => "exec".into(),
            Name::Dot => ".".into(),
            Name::Probe => "probe".into(),
            Name::True => "true".into(),
            Name::False => "false".into(),
            Name::Wait => "wait".into(),
            Name::User(i) => format!("f{i}"),
        }
    }
    pub fn coq(self) -> String {
        match self {
            Name::Colon => "NColon".into(),
            Name::Break => "NBreak".into(),
            Name::Continue => "NContinue".into(),
            Name::Return => "NReturn".into(),
            Name::Exit => "NExit".into(),
            Name::Set => "NSet".into(),
            Name::Exec => "NExec".into(),
            Name::Dot => "NDot".into(),
            Name::Probe => "NProbe".into(),
            Name::True => "NTrue".into(),
            Name::False => "NFalse".into(),
            Name::Wait => "NWait".into(),
            Name::User(i) => format!("(NUser {})", coq::n(i as u64)),
        }
    }
}

#[derive(Clone, Copy, Debug, PartialEq, Eq)]
pub enum Word {
    Lit(u32),
    Var(u32),
    Req(u32),
}

pub const TOKENS: [&str; 6] = ["a", "b", "c", "d", "e", "g"];

impl Word {
    pub fn text(self) -> String {
        match self {
            Word::Lit(t) => TOKENS[t as usize].into(),
            Word::Var(x) => format!("$v{x}"),
            Word::Req(x) => format!("${{v{x}?}}"),
        }
    }
    pub fn coq(self) -> String {
        match self {
            Word::Lit(t) => format!("(WLit {})", coq::n(t as u64)),
            Word::Var(x) => format!("(WVar {})", coq::n(x as u64)),
            Word::Req(x) => format!("(WReq {})", coq::n(x as u64)),
        }
    }
}

#[derive(Clone, Copy, Debug, PartialEq, Eq)]
pub enum Pat {
    Lit(u32),
    Star,
}

#[derive(Clone, Copy, Debug, PartialEq, Eq)]
pub enum Cont {
    Break,
    Fall,
    Cont,
}

#[derive(Clone, Copy, Debug, PartialEq, Eq, Default)]
pub struct Deco {
    pub bad_redir: bool,
    pub via_command: bool,
}

#[derive(Clone, Debug)]
pub enum Cmd {
    Assign(u32, Word),
    Readonly(u32),
    /// `x=$(list)`
    AssignSub(u32, List),
    /// `: $(list)`
    SubstArg(List),
    /// `{ andor & }`
    Async(Box<AndOr>),
    /// `x=w NAME ARGS`
    PrefixCall(u32, Word, Name, Vec<u64>),
    Call(Deco, Name, Vec<u64>),
    Brace(List),
    Subshell(List),
    If(List, List, Vec<(List, List)>, Option<List>),
    While(bool, List, List),
    For(u32, Vec<Word>, List),
    Case(Word, Vec<(Vec<Pat>, List, Cont)>),
    FunDef(Name, Box<Cmd>),
    TrapExit(List),
    RedirFail(Box<Cmd>),
}

pub type List = Vec<AndOr>;

#[derive(Clone, Debug)]
pub struct AndOr {
    pub first: Pipeline,
    pub rest: Vec<(bool, Pipeline)>,
}

#[derive(Clone, Debug)]
pub struct Pipeline {
    pub neg: bool,
    pub cmds: Vec<Cmd>,
}

#[derive(Clone, Debug)]
pub enum Line {
    Cmd(List),
    SyntaxError,
}

pub type Prog = Vec<Line>;

pub fn simple(c: Cmd) -> AndOr {
    AndOr { first: Pipeline { neg: false, cmds: vec![c] }, rest: vec![] }
}
pub fn call(nm: Name, args: &[u64]) -> Cmd {
    Cmd::Call(Deco::default(), nm, args.to_vec())
}
pub fn probe(k: u64, st: u64) -> Cmd {
    if st == 0 { call(Name::Probe, &[k]) } else { call(Name::Probe, &[k, st]) }
}

// ---- Coq terms ------------------------------------------------------------

fn coq_list_of(items: &[String], nil: &str, cons: &dyn Fn(&str, &str) -> String) -> String {
    let mut acc = nil.to_string();
    for it in items.iter().rev() {
        acc = cons(it, &acc);
    }
    acc
}

pub fn coq_clist(l: &List) -> String {
    let items: Vec<String> = l.iter().map(coq_andor).collect();
    coq_list_of(&items, "LNil", &|a, l| format!("(LCons {a} {l})"))
}

fn coq_andor(a: &AndOr) -> String {
    let mut rest = "RNil".to_string();
    for (is_and, p) in a.rest.iter().rev() {
        rest = format!("(RCons {} {} {})", coq::b(*is_and), coq_pipeline(p), rest);
    }
    format!("(AndOr {} {})", coq_pipeline(&a.first), rest)
}

fn coq_pipeline(p: &Pipeline) -> String {
    let items: Vec<String> = p.cmds.iter().map(coq_cmd).collect();
    let cs = coq_list_of(&items, "CNil", &|c, l| format!("(CCons {c} {l})"));
    format!("(Pipe {} {})", coq::b(p.neg), cs)
}

fn coq_nlist(l: &[u64]) -> String {
    if l.is_empty() {
        "(@nil N)".into()
    } else {
        format!("[{}]%N", l.iter().map(|x| x.to_string()).collect::<Vec<_>>().join("; "))
    }
}

pub fn coq_cmd(c: &Cmd) -> String {
    match c {
        Cmd::Assign(x, w) => format!("(CAssign {} {})", coq::n(*x as u64), w.coq()),
        Cmd::Readonly(x) => format!("(CReadonly {})", coq::n(*x as u64)),
        Cmd::AssignSub(x, l) => format!("(CAssignSub {} {})", coq::n(*x as u64), coq_clist(l)),
        Cmd::SubstArg(l) => format!("(CSubstArg {})", coq_clist(l)),
        Cmd::Async(a) => format!("(CAsync {})", coq_andor(a)),
        Cmd::PrefixCall(x, w, nm, args) => {
            format!("(CPrefixCall {} {} {} {})", coq::n(*x as u64), w.coq(), nm.coq(), coq_nlist(args))
        }
        Cmd::Call(d, nm, args) => format!(
            "(CCall (mkDeco {} {}) {} {})",
            coq::b(d.bad_redir),
            coq::b(d.via_command),
            nm.coq(),
            coq_nlist(args)
        ),
        Cmd::Brace(l) => format!("(CBrace {})", coq_clist(l)),
        Cmd::Subshell(l) => format!("(CSubshell {})", coq_clist(l)),
        Cmd::If(c, b, elifs, els) => {
            let mut e = "ENil".to_string();
            for (c2, b2) in elifs.iter().rev() {
                e = format!("(ECons {} {} {})", coq_clist(c2), coq_clist(b2), e);
            }
            format!(
                "(CIf {} {} {} {} {})",
                coq_clist(c),
                coq_clist(b),
                e,
                coq::b(els.is_some()),
                els.as_ref().map_or("LNil".to_string(), coq_clist)
            )
        }
        Cmd::While(until, c, b) => {
            format!("(CWhile {} {} {})", coq::b(*until), coq_clist(c), coq_clist(b))
        }
        Cmd::For(x, ws, b) => {
            let w: Vec<String> = ws.iter().map(|w| w.coq()).collect();
            format!("(CFor {} {} {})", coq::n(*x as u64), coq::list(&w), coq_clist(b))
        }
        Cmd::Case(w, items) => {
            let mut it = "INil".to_string();
            for (pats, body, k) in items.iter().rev() {
                let ps: Vec<String> = pats
                    .iter()
                    .map(|p| match p {
                        Pat::Lit(t) => format!("(PLit {})", coq::n(*t as u64)),
                        Pat::Star => "PStar".into(),
                    })
                    .collect();
                let k = match k {
                    Cont::Break => "KBreak",
                    Cont::Fall => "KFall",
                    Cont::Cont => "KCont",
                };
                it = format!("(ICons {} {} {} {})", coq::list(&ps), coq_clist(body), k, it);
            }
            format!("(CCase {} {})", w.coq(), it)
        }
        Cmd::FunDef(nm, b) => format!("(CFunDef {} {})", nm.coq(), coq_cmd(b)),
        Cmd::TrapExit(l) => format!("(CTrapExit {})", coq_clist(l)),
        Cmd::RedirFail(c) => format!("(CRedirFail {})", coq_cmd(c)),
    }
}

pub fn coq_prog(p: &Prog) -> String {
    let v: Vec<String> = p
        .iter()
        .map(|l| match l {
            Line::Cmd(l) => format!("(LCmd {})", coq_clist(l)),
            Line::SyntaxError => "LSyntaxError".into(),
        })
        .collect();
    coq::list(&v)
}

// ---------------------------------------------------------------------------
// Rendering to shell text with random surface syntax
// ---------------------------------------------------------------------------

pub struct Render<'a> {
    pub rng: &'a mut Rng,
    /// 0 = canonical (one style), 1 = varied
    pub vary: bool,
}

impl Render<'_> {
    fn ch(&mut self, num: u32, den: u32) -> bool {
        self.vary && self.rng.chance(num, den)
    }
    /// mandatory blank between two words
    fn sp(&mut self) -> String {
        if self.ch(1, 12) {
            " \\\n".into() // line continuation
        } else if self.ch(1, 8) {
            "  ".into()
        } else if self.ch(1, 16) {
            "\t".into()
        } else {
            " ".into()
        }
    }
    /// optional blank around operators
    fn osp(&mut self) -> String {
        if self.ch(1, 3) { "".into() } else { " ".into() }
    }
    /// separator between two and-or lists of a compound list
    fn sep(&mut self) -> String {
        if self.ch(1, 3) {
            if self.ch(1, 4) { " # c;}) done fi esac\n".into() } else { "\n".into() }
        } else if self.ch(1, 6) {
            ";\n".into()
        } else {
            format!("{};{}", self.osp_tight(), self.sp())
        }
    }
    fn osp_tight(&mut self) -> String {
        if self.ch(1, 4) { " ".into() } else { "".into() }
    }
    /// terminator of a compound list before a closing reserved word
    fn term(&mut self) -> String {
        if self.ch(1, 3) {
            if self.ch(1, 5) { " #x\n".into() } else { "\n".into() }
        } else {
            format!("{};{}", self.osp_tight(), self.sp())
        }
    }
    /// linebreak allowed after an opening reserved word / operator
    fn lb(&mut self) -> String {
        if self.ch(1, 5) { "\n".into() } else { self.sp() }
    }

    pub fn list(&mut self, l: &List) -> String {
        let mut o = String::new();
        for (i, a) in l.iter().enumerate() {
            if i > 0 {
                o.push_str(&self.sep());
            }
            o.push_str(&self.andor(a));
        }
        o
    }
    /// a compound list followed by its terminator (`;` or newline)
    fn tlist(&mut self, l: &List) -> String {
        let mut o = self.list(l);
        o.push_str(&self.term());
        o
    }

    fn andor(&mut self, a: &AndOr) -> String {
        let mut o = self.pipeline(&a.first);
        for (is_and, p) in &a.rest {
            o.push_str(&self.osp());
            o.push_str(if *is_and { "&&" } else { "||" });
            if self.ch(1, 6) {
                o.push('\n');
            } else {
                o.push_str(&self.osp());
            }
            o.push_str(&self.pipeline(p));
        }
        o
    }

    fn pipeline(&mut self, p: &Pipeline) -> String {
        let mut o = String::new();
        if p.neg {
            o.push('!');
            o.push_str(&self.sp());
        }
        for (i, c) in p.cmds.iter().enumerate() {
            if i > 0 {
                o.push_str(&self.osp());
                o.push('|');
                if self.ch(1, 6) {
                    o.push('\n');
                } else {
                    o.push_str(&self.osp());
                }
            }
            o.push_str(&self.cmd(c));
        }
        o
    }

    fn words(&mut self, ws: &[String]) -> String {
        let mut o = String::new();
        for (i, w) in ws.iter().enumerate() {
            if i > 0 {
                o.push_str(&self.sp());
            }
            o.push_str(w);
        }
        o
    }

    pub fn cmd(&mut self, c: &Cmd) -> String {
        match c {
            Cmd::Assign(x, w) => format!("v{x}={}", w.text()),
            Cmd::Readonly(x) => {
                let w = vec!["readonly".to_string(), format!("v{x}")];
                self.words(&w)
            }
            Cmd::AssignSub(x, l) => {
                // never `$((`, which begins an arithmetic expansion
                let a = self.sp();
                let body = self.list(l);
                let b = if self.ch(1, 4) { "\n".to_string() } else { self.osp() };
                format!("v{x}=$({a}{body}{b})")
            }
            Cmd::PrefixCall(x, w, nm, args) => {
                let plain = self.cmd(&Cmd::Call(Deco::default(), *nm, args.clone()));
                format!("v{x}={}{}{plain}", w.text(), self.sp())
            }
            Cmd::Async(a) => {
                let lb = self.lb();
                let body = self.andor(a);
                let sp = self.osp();
                let end = if self.ch(1, 4) { "\n".to_string() } else { self.sp() };
                format!("{{{lb}{body}{sp}&{end}}}")
            }
            Cmd::SubstArg(l) => {
                let a = self.sp();
                let body = self.list(l);
                let b = self.osp();
                format!(":{}$({a}{body}{b})", self.sp())
            }
            Cmd::Call(d, nm, args) => {
                let mut w = vec![];
                if d.via_command {
                    w.push("command".to_string());
                }
                w.push(nm.text());
                if *nm == Name::Set {
                    w.push(match args.first().copied().unwrap_or(0) {
                        0 => "+e".into(),
                        1 => "-e".into(),
                        2 => "+m".into(),
                        _ => "-m".into(),
                    });
                } else if *nm == Name::Dot {
                    w.push("/nonexistent/script".into());
                } else if *nm == Name::Wait {
                    if !args.is_empty() {
                        w.push("$!".into());
                    }
                } else {
                    for a in args {
                        w.push(a.to_string());
                    }
                }
                if d.bad_redir {
                    // `exec 3<missing`: a redirection that would be kept
                    let r = if *nm == Name::Exec { "3</nonexistent/file".to_string() } else { "</nonexistent/file".to_string() };
                    if self.ch(1, 3) && !d.via_command {
                        w.insert(0, r);
                    } else {
                        w.push(r);
                    }
                }
                self.words(&w)
            }
            Cmd::Brace(l) => {
                let lb = self.lb();
                format!("{{{}{}}}", lb, self.tlist(l))
            }
            Cmd::Subshell(l) => {
                let a = self.osp();
                let body = self.list(l);
                let b = if self.ch(1, 4) { "\n".to_string() } else { self.osp() };
                format!("({a}{body}{b})")
            }
            Cmd::If(c, b, elifs, els) => {
                let mut o = format!("if{}{}then{}{}", self.lb(), self.tlist(c), self.lb(), self.tlist(b));
                for (c2, b2) in elifs {
                    o.push_str(&format!(
                        "elif{}{}then{}{}",
                        self.lb(),
                        self.tlist(c2),
                        self.lb(),
                        self.tlist(b2)
                    ));
                }
                if let Some(e) = els {
                    o.push_str(&format!("else{}{}", self.lb(), self.tlist(e)));
                }
                o.push_str("fi");
                o
            }
            Cmd::While(until, c, b) => format!(
                "{}{}{}do{}{}done",
                if *until { "until" } else { "while" },
                self.lb(),
                self.tlist(c),
                self.lb(),
                self.tlist(b)
            ),
            Cmd::For(x, ws, b) => {
                let mut o = format!("for{}v{x}", self.sp());
                // `for x in words` + separator + do
                if self.ch(1, 5) {
                    o.push('\n');
                } else {
                    o.push_str(&self.sp());
                }
                o.push_str("in");
                for w in ws {
                    o.push_str(&self.sp());
                    o.push_str(&w.text());
                }
                o.push_str(&self.term());
                o.push_str(&format!("do{}{}done", self.lb(), self.tlist(b)));
                o
            }
            Cmd::Case(w, items) => {
                let mut o = format!("case{}{}{}in{}", self.sp(), w.text(), self.sp(), self.lb());
                let n = items.len();
                for (i, (pats, body, k)) in items.iter().enumerate() {
                    if self.ch(1, 2) {
                        o.push('(');
                    }
                    for (j, p) in pats.iter().enumerate() {
                        if j > 0 {
                            o.push_str(&self.osp());
                            o.push('|');
                            o.push_str(&self.osp());
                        }
                        o.push_str(&match p {
                            Pat::Lit(t) => TOKENS[*t as usize].to_string(),
                            Pat::Star => "*".to_string(),
                        });
                    }
                    o.push(')');
                    o.push_str(&self.lb());
                    o.push_str(&self.list(body));
                    let last = i + 1 == n;
                    if last && *k == Cont::Break && self.ch(1, 3) {
                        // the last `;;` is optional
                        o.push_str(if body.is_empty() { " " } else { "\n" });
                    } else {
                        if !body.is_empty() {
                            o.push_str(&self.lb());
                        }
                        o.push_str(match k {
                            Cont::Break => ";;",
                            Cont::Fall => ";&",
                            Cont::Cont => ";;&",
                        });
                        o.push_str(&self.lb());
                    }
                }
                o.push_str("esac");
                o
            }
            Cmd::FunDef(nm, b) => {
                let a = self.osp();
                let b2 = self.osp();
                let c2 = if self.ch(1, 5) { "\n".to_string() } else { self.osp() };
                format!("{}{a}({b2}){c2}{}", nm.text(), self.cmd(b))
            }
            Cmd::TrapExit(l) => {
                // the action is a quoted string; keep it on one style that has no quotes
                let mut r = Render { rng: self.rng, vary: false };
                let body = r.list(l);
                assert!(!body.contains('\''));
                format!("trap{}'{}'{}EXIT", self.sp(), body, self.sp())
            }
            Cmd::RedirFail(c) => {
                format!("{}{}</nonexistent/file", self.cmd(c), self.osp())
            }
        }
    }

    pub fn prog(&mut self, p: &Prog) -> String {
        let mut o = String::new();
        for l in p {
            match l {
                Line::Cmd(l) => {
                    o.push_str(&self.list(l));
                    if self.ch(1, 6) {
                        o.push_str(" # end of line; fi done }");
                    }
                    if self.ch(1, 8) {
                        o.push(';');
                    }
                    o.push('\n');
                    if self.ch(1, 8) {
                        o.push_str("\n  # a comment line\n");
                    }
                }
                Line::SyntaxError => o.push_str("fi ) }\n"),
            }
        }
        o
    }
}

// ---------------------------------------------------------------------------
// Running the real shell
// ---------------------------------------------------------------------------

#[derive(Clone, Debug)]
struct Item {
    pid: i32,
    main: i32,
    key: u64,
    status: i32,
}

thread_local! {
    static ITEMS: RefCell<Vec<Item>> = const { RefCell::new(Vec::new()) };
}

/// `probe KEY [STATUS]`: records `(pid, KEY, $?)`, returns STATUS (default 0).
fn probe_main(env: &mut VEnv, args: Vec<Field>) -> BuiltinFuture<'_> {
    Box::pin(async move {
        let key = args.first().and_then(|f| f.value.parse::<u64>().ok()).unwrap_or(u64::MAX);
        // a run-away loop (only possible if the shell misbehaves) is reported as a crash
        if ITEMS.with(|t| t.borrow().len()) > 20_000 {
            panic!("probe budget exhausted: the script does not terminate");
        }
        ITEMS.with(|t| {
            t.borrow_mut().push(Item {
                pid: env.system.getpid().0,
                main: env.main_pid.0,
                key,
                status: env.exit_status.0,
            })
        });
        let st = args.get(1).and_then(|f| f.value.parse::<i32>().ok()).unwrap_or(0);
        ExitStatus(st).into()
    })
}

#[derive(Clone, Debug)]
pub enum ImplOut {
    Ok(Vec<(u64, i64)>, i64),
    Crash(String),
}

impl ImplOut {
    pub fn coq(&self) -> String {
        match self {
            ImplOut::Ok(tr, st) if *st >= 0 && tr.iter().all(|(_, s)| *s >= 0) => {
                let v: Vec<String> =
                    tr.iter().map(|(k, s)| format!("({}, {})", coq::n(*k), coq::n(*s as u64))).collect();
                format!("(IOk ({}, {}))", coq::list(&v), coq::n(*st as u64))
            }
            _ => "ICrash".into(),
        }
    }
    pub fn show(&self) -> String {
        match self {
            ImplOut::Ok(tr, st) => {
                let v: Vec<String> = tr.iter().map(|(k, s)| format!("{k}:{s}")).collect();
                format!("trace=[{}] status={}", v.join(" "), st)
            }
            ImplOut::Crash(m) => format!("CRASH {m}"),
        }
    }
}

/// Puts the items of the whole process tree in the order "a subshell's items
/// stand where the subshell was started; the commands of a pipeline in
/// pipeline order".  The parent is blocked while its subshells run, so this is
/// the only order POSIX fixes (the interleaving of concurrent pipeline
/// commands is not observable in the model).
fn canonicalise(items: &[Item], ppid: &BTreeMap<i32, i32>, main: i32) -> Vec<(u64, i64)> {
    let mut children: BTreeMap<i32, Vec<i32>> = BTreeMap::new();
    for (p, pp) in ppid {
        children.entry(*pp).or_default().push(*p);
    }
    fn first_time(p: i32, items: &[Item], children: &BTreeMap<i32, Vec<i32>>) -> Option<usize> {
        let mut best = items.iter().position(|i| i.pid == p);
        if let Some(cs) = children.get(&p) {
            for c in cs {
                if let Some(t) = first_time(*c, items, children) {
                    best = Some(best.map_or(t, |b| b.min(t)));
                }
            }
        }
        best
    }
    fn flatten(
        p: i32,
        items: &[Item],
        children: &BTreeMap<i32, Vec<i32>>,
        out: &mut Vec<(u64, i64)>,
    ) {
        let own: Vec<usize> = (0..items.len()).filter(|i| items[*i].pid == p).collect();
        let mut next_own = 0;
        let empty = vec![];
        let cs = children.get(&p).unwrap_or(&empty);
        for c in cs {
            if let Some(t) = first_time(*c, items, children) {
                while next_own < own.len() && own[next_own] < t {
                    let it = &items[own[next_own]];
                    out.push((it.key, it.status as i64));
                    next_own += 1;
                }
                flatten(*c, items, children, out);
            }
        }
        while next_own < own.len() {
            let it = &items[own[next_own]];
            out.push((it.key, it.status as i64));
            next_own += 1;
        }
    }
    let mut out = vec![];
    flatten(main, items, &children, &mut out);
    out
}

/// `vsh::run_shell` for `-c SCRIPT`, except that after the shell has finished the
/// simulation goes on until every process (asynchronous lists that nobody waited
/// for) has ended, so that all probes of the script are in the record.
fn run_shell_drain(script: &str) -> (vsh::Outcome, Option<vsh::State>) {
    use std::cell::RefCell as Rc2;
    use std::ops::ControlFlow::{Break, Continue};
    use std::panic::{AssertUnwindSafe, catch_unwind};
    use yash_cli::startup::args::{Parse, parse as parse_args};
    use yash_cli::startup::configure_environment;
    use yash_cli::startup::input::prepare_input;
    use yash_env::semantics::Divert;
    let script = script.to_string();
    vsh::trace_take();
    let r = catch_unwind(AssertUnwindSafe(move || {
        vsh::drive(
            move |mut env, state| async move {
                let argv = vec!["yash".to_string(), "-c".to_string(), script];
                let run = match parse_args(argv) {
                    Ok(Parse::Run(run)) => run,
                    _ => return 2,
                };
                let work = configure_environment(&mut env, run).await;
                vsh::install_probes(&mut env);
                env.builtins.insert("probe", Builtin::new(Type::Mandatory, probe_main));
                let ref_env = Rc2::new(&mut env);
                let lexer = match prepare_input(&ref_env, &work.source).await {
                    Ok(lexer) => lexer,
                    Err(_) => return 127,
                };
                let result = yash_semantics::read_eval_loop(&ref_env, &mut { lexer }).await;
                let env = ref_env.into_inner();
                env.apply_result(result);
                match result {
                    Continue(())
                    | Break(Divert::Continue { .. })
                    | Break(Divert::Break { .. })
                    | Break(Divert::Return(_))
                    | Break(Divert::Interrupt(_))
                    | Break(Divert::Exit(_)) => yash_semantics::trap::run_exit_trap(env).await,
                    Break(Divert::Abort(_)) => (),
                }
                let status = env.exit_status.0;
                // let the orphans finish
                let me = env.main_pid;
                if state.borrow().now.is_none() {
                    state.borrow_mut().now = Some(std::time::Instant::now());
                }
                for _ in 0..100_000 {
                    let alive = state.borrow().processes.iter().any(|(p, pr)| *p != me && pr.state().is_alive());
                    if !alive {
                        break;
                    }
                    // virtual time: the simulation advances the clock when nothing else can run
                    {
                        use yash_env::system::concurrency::Sleep as _;
                        env.system.sleep(std::time::Duration::from_millis(1)).await;
                    }
                }
                status
            },
            100_000,
        )
    }));
    let trace = vsh::trace_take();
    match r {
        Ok((res, deadlock, timeout, state)) => (
            vsh::Outcome { status: res.unwrap_or(-1), trace, deadlock, timeout, ..Default::default() },
            Some(state),
        ),
        Err(e) => {
            let msg = if let Some(s) = e.downcast_ref::<&str>() {
                s.to_string()
            } else if let Some(s) = e.downcast_ref::<String>() {
                s.clone()
            } else {
                "panic".to_string()
            };
            (vsh::Outcome { trace, panicked: Some(msg), status: -2, ..Default::default() }, None)
        }
    }
}

pub fn run_text(script: &str) -> ImplOut {
    ITEMS.with(|t| t.borrow_mut().clear());
    let (o, state) = run_shell_drain(script);
    let items = ITEMS.with(|t| std::mem::take(&mut *t.borrow_mut()));
    if let Some(m) = o.panicked {
        return ImplOut::Crash(format!("panic: {m}"));
    }
    if o.deadlock {
        return ImplOut::Crash("deadlock".into());
    }
    if o.timeout {
        return ImplOut::Crash("timeout".into());
    }
    let Some(state) = state else { return ImplOut::Crash("no state".into()) };
    let ppid: BTreeMap<i32, i32> =
        state.borrow().processes.iter().map(|(p, pr)| (p.0, pr.ppid().0)).collect();
    let main = items.first().map_or(2, |i| i.main);
    let tr = canonicalise(&items, &ppid, main);
    if tr.len() != items.len() {
        return ImplOut::Crash("a probe ran in a process outside the shell's process tree".into());
    }
    ImplOut::Ok(tr, o.status as i64)
}

// ---------------------------------------------------------------------------
// Generator
// ---------------------------------------------------------------------------

/// What the generator may emit at a position.
#[derive(Clone, Copy, Debug)]
pub struct Ctx {
    /// loops lexically enclosing in this environment / function body
    pub depth: u32,
    pub infun: bool,
    /// index bound for callable user functions (bodies call lower ranks only)
    pub rank: u32,
    /// may emit `exit`
    pub allow_exit: bool,
    /// nesting budget
    pub nest: u32,
    /// emit things POSIX leaves unspecified (break past a function body, return outside)
    pub wild: bool,
    /// C10 material: set -e, failing commands of all categories
    pub errors: bool,
}

pub struct Gen<'a> {
    pub rng: &'a mut Rng,
    pub nodes: i32,
    pub next_key: u64,
    pub next_loop_var: u32,
}

pub const NVARS: u32 = 3; // v0..v2 user variables; loop counters from v10

impl Gen<'_> {
    fn key(&mut self) -> u64 {
        self.next_key += 1;
        self.next_key
    }
    fn status(&mut self) -> u64 {
        match self.rng.below(10) {
            0..=4 => 0,
            5..=6 => 1,
            7 => 2,
            8 => 3,
            _ => 7,
        }
    }
    fn word(&mut self, cx: &Ctx) -> Word {
        match self.rng.below(10) {
            0..=4 => Word::Lit(self.rng.below(4) as u32),
            9 if cx.errors && self.rng.chance(1, 3) => Word::Req(self.rng.below(NVARS as usize) as u32),
            8 => Word::Var(3),
            _ => Word::Var(self.rng.below(NVARS as usize) as u32),
        }
    }

    pub fn simple(&mut self, cx: &Ctx) -> Cmd {
        self.nodes -= 1;
        let r = self.rng.below(100);
        match r {
            0..=44 => {
                let k = self.key();
                let st = self.status();
                probe(k, st)
            }
            45..=49 => call(if self.rng.chance(1, 2) { Name::True } else { Name::False }, &[]),
            50..=51 => call(Name::Colon, &[]),
            52 => if self.rng.chance(1, 2) { call(Name::Wait, &[]) } else { call(Name::Wait, &[1]) },
            53 | 54 => {
                // an assignment before a command name; v3 is only ever assigned this way
                let w = Word::Lit(self.rng.below(3) as u32);
                match self.rng.below(5) {
                    0 => Cmd::PrefixCall(3, w, Name::Colon, vec![]),
                    1 if cx.rank > 0 => Cmd::PrefixCall(3, w, Name::User(self.rng.below(cx.rank as usize) as u32), vec![]),
                    2 if cx.depth >= 1 => Cmd::PrefixCall(3, w, Name::Continue, vec![]),
                    _ => {
                        let k = self.key();
                        let st = self.status();
                        Cmd::PrefixCall(3, w, Name::Probe, vec![k, st])
                    }
                }
            }
            55..=60 => Cmd::Assign(self.rng.below(NVARS as usize) as u32, self.word(cx)),
            61..=72 => {
                // break / continue
                let nm = if self.rng.chance(1, 2) { Name::Break } else { Name::Continue };
                let ok = cx.depth >= 1 || (cx.wild && self.rng.chance(1, 2));
                if !ok {
                    return probe(self.key(), self.status());
                }
                let max = if cx.infun && !cx.wild { cx.depth } else { cx.depth + 1 };
                let n = 1 + self.rng.below(max.max(1) as usize) as u64;
                if n == 1 && self.rng.chance(1, 2) { call(nm, &[]) } else { call(nm, &[n]) }
            }
            73..=79 => {
                if cx.infun || (cx.wild && self.rng.chance(1, 3)) {
                    if self.rng.chance(1, 3) {
                        call(Name::Return, &[])
                    } else {
                        call(Name::Return, &[self.status()])
                    }
                } else {
                    probe(self.key(), self.status())
                }
            }
            80..=83 => {
                if cx.allow_exit && self.rng.chance(1, 2) {
                    if self.rng.chance(1, 3) { call(Name::Exit, &[]) } else { call(Name::Exit, &[self.status()]) }
                } else {
                    probe(self.key(), self.status())
                }
            }
            84..=93 => {
                // call a user function (defined or not), or an overridable built-in name
                if cx.rank > 0 {
                    let i = self.rng.below(cx.rank as usize) as u32;
                    call(Name::User(i), &[])
                } else {
                    call(Name::User(9), &[]) // never defined: not found
                }
            }
            _ => {
                if cx.errors {
                    self.error_command(cx)
                } else {
                    probe(self.key(), self.status())
                }
            }
        }
    }

    /// C10 material: `set -e` / `set +e` and failing commands of the shell-error categories.
    pub fn error_command(&mut self, cx: &Ctx) -> Cmd {
        let bad = Deco { bad_redir: true, via_command: false };
        let via = Deco { bad_redir: false, via_command: true };
        match self.rng.below(16) {
            0..=4 => call(Name::Set, &[*self.rng.pick(&[1, 1, 1, 1, 0, 0, 3, 3, 2])]),
            5 => Cmd::Call(bad, Name::Probe, vec![self.key()]),
            6 => Cmd::Call(bad, *self.rng.pick(&[Name::Colon, Name::Break, Name::Exit, Name::Set, Name::Exec, Name::Exec]), vec![]),
            7 => Cmd::Call(bad, Name::User(if cx.rank > 0 { self.rng.below(cx.rank as usize) as u32 } else { 9 }), vec![]),
            8 => Cmd::Call(via, Name::Probe, vec![self.key(), self.status()]),
            9 => Cmd::Call(via, *self.rng.pick(&[Name::Break, Name::Continue]), vec![0]),
            10 => Cmd::Call(via, Name::User(9), vec![]),
            11 => call(*self.rng.pick(&[Name::Break, Name::Continue]), &[0]),
            12 => if self.rng.chance(1, 2) { call(Name::Exit, &[1, 2]) } else { call(Name::Dot, &[]) },
            13 => Cmd::RedirFail(Box::new(Cmd::Brace(vec![simple(probe(self.key(), 0))]))),
            14 => Cmd::Call(Deco { bad_redir: true, via_command: true }, Name::Probe, vec![self.key()]),
            _ => call(Name::User(9), &[]),
        }
    }

    /// `step`: advances the loop counter `v<var>` a -> b -> c and succeeds, or
    /// fails when the counter is at its end; guarantees termination of while/until.
    fn counter_step(&mut self, var: u32, rounds: u32) -> Cmd {
        let mut items = vec![];
        for i in 0..rounds {
            items.push((
                vec![Pat::Lit(i)],
                vec![simple(Cmd::Assign(var, Word::Lit(i + 1)))],
                Cont::Break,
            ));
        }
        // `! :` fails and cannot be affected by a function named `false`
        let fail = AndOr { first: Pipeline { neg: true, cmds: vec![call(Name::Colon, &[])] }, rest: vec![] };
        items.push((vec![Pat::Star], vec![fail], Cont::Break));
        Cmd::Case(Word::Var(var), items)
    }

    pub fn command(&mut self, cx: &Ctx) -> Cmd {
        if self.nodes <= 0 || cx.nest == 0 || self.rng.chance(55, 100) {
            return self.simple(cx);
        }
        self.nodes -= 1;
        let inner = Ctx { nest: cx.nest - 1, ..*cx };
        match self.rng.below(100) {
            0..=11 => Cmd::Brace(self.list(&inner, 1, 3)),
            12..=21 => {
                let body = self.list(&Ctx { depth: 0, allow_exit: true, ..inner }, 1, 3);
                match self.rng.below(7) {
                    0 => Cmd::AssignSub(self.rng.below(NVARS as usize) as u32, body),
                    1 => Cmd::SubstArg(body),
                    2 | 3 => {
                        let a = self.andor(&Ctx { depth: 0, allow_exit: true, ..inner });
                        Cmd::Async(Box::new(a))
                    }
                    _ => Cmd::Subshell(body),
                }
            }
            22..=39 => {
                let c = self.list(&inner, 1, 2);
                let b = self.list(&inner, 1, 2);
                let mut elifs = vec![];
                while self.rng.chance(1, 4) && elifs.len() < 2 {
                    elifs.push((self.list(&inner, 1, 2), self.list(&inner, 1, 2)));
                }
                let els = if self.rng.chance(1, 2) { Some(self.list(&inner, 1, 2)) } else { None };
                Cmd::If(c, b, elifs, els)
            }
            40..=57 => {
                // while / until with a private counter; the counter is
                // initialised by the caller of `command` via `loop_prefix`
                let var = self.next_loop_var;
                self.next_loop_var += 1;
                let until = self.rng.chance(1, 3);
                let rounds = 1 + self.rng.below(3) as u32;
                let lcx = Ctx { depth: cx.depth + 1, ..inner };
                let step = self.counter_step(var, rounds);
                // condition: `step && stuff` (while) / `! step || stuff` (until)
                let mut cond: List = vec![];
                let stuff = if self.rng.chance(1, 2) { Some(self.pipeline(&lcx)) } else { None };
                let first = Pipeline { neg: until, cmds: vec![step] };
                let rest = match stuff {
                    Some(p) => vec![(!until, p)],
                    None => vec![],
                };
                cond.push(AndOr { first, rest });
                let body = self.list(&lcx, 1, 3);
                // `vN=a; while ...` is expressed as a brace group so that it is one command
                let w = Cmd::While(until, cond, body);
                Cmd::Brace(vec![simple(Cmd::Assign(var, Word::Lit(0))), simple(w)])
            }
            58..=71 => {
                let x = self.rng.below(NVARS as usize) as u32;
                let n = self.rng.below(4);
                let ws: Vec<Word> = (0..n).map(|_| self.word(cx)).collect();
                let lcx = Ctx { depth: cx.depth + 1, ..inner };
                Cmd::For(x, ws, self.list(&lcx, 1, 3))
            }
            72..=85 => {
                let w = self.word(cx);
                let n = 1 + self.rng.below(3);
                let mut items = vec![];
                for _ in 0..n {
                    let np = 1 + self.rng.below(2);
                    let pats: Vec<Pat> = (0..np)
                        .map(|_| {
                            if self.rng.chance(1, 4) { Pat::Star } else { Pat::Lit(self.rng.below(4) as u32) }
                        })
                        .collect();
                    let body = if self.rng.chance(1, 6) { vec![] } else { self.list(&inner, 1, 2) };
                    let k = match self.rng.below(6) {
                        0 => Cont::Fall,
                        1 => Cont::Cont,
                        _ => Cont::Break,
                    };
                    items.push((pats, body, k));
                }
                Cmd::Case(w, items)
            }
            _ => {
                // function definition: f<rank>; its body calls lower ranks only
                let (nm, rank) = match self.rng.below(10) {
                    0 => (Name::True, 0),
                    1 => (Name::False, 0),
                    2 => (*self.rng.pick(&[Name::Colon, Name::Break, Name::Return, Name::Exit]), 0),
                    _ => {
                        let i = self.rng.below(4) as u32;
                        (Name::User(i), i)
                    }
                };
                let fcx = Ctx { depth: 0, infun: true, rank, ..inner };
                let overriding = matches!(nm, Name::True | Name::False);
                let body = self.fun_body(&fcx, overriding);
                Cmd::FunDef(nm, Box::new(body))
            }
        }
    }

    /// A compound command usable as a function body.
    fn fun_body(&mut self, cx: &Ctx, _overriding: bool) -> Cmd {
        loop {
            let c = match self.rng.below(5) {
                0 => Cmd::Subshell(self.list(&Ctx { depth: 0, allow_exit: true, ..*cx }, 1, 3)),
                1 => {
                    let save = self.nodes;
                    self.nodes = self.nodes.max(2);
                    let c = self.command(&Ctx { nest: cx.nest.max(1), ..*cx });
                    self.nodes = save.min(self.nodes);
                    c
                }
                _ => Cmd::Brace(self.list(cx, 1, 3)),
            };
            match c {
                Cmd::Brace(_) | Cmd::Subshell(_) | Cmd::If(..) | Cmd::While(..) | Cmd::For(..) | Cmd::Case(..) => {
                    return c;
                }
                _ => continue,
            }
        }
    }

    pub fn pipeline(&mut self, cx: &Ctx) -> Pipeline {
        let neg = self.rng.chance(1, 7);
        let n = if self.rng.chance(1, 8) { 2 + self.rng.below(2) } else { 1 };
        let cmds = if n == 1 {
            vec![self.command(cx)]
        } else {
            let pcx = Ctx { depth: 0, allow_exit: true, ..*cx };
            (0..n).map(|_| self.command(&pcx)).collect()
        };
        Pipeline { neg, cmds }
    }

    pub fn andor(&mut self, cx: &Ctx) -> AndOr {
        let first = self.pipeline(cx);
        let mut rest = vec![];
        if self.rng.chance(1, 4) {
            let n = 1 + self.rng.below(3);
            for _ in 0..n {
                rest.push((self.rng.chance(1, 2), self.pipeline(cx)));
            }
        }
        AndOr { first, rest }
    }

    pub fn list(&mut self, cx: &Ctx, min: usize, max: usize) -> List {
        let n = min + self.rng.below(max - min + 1);
        (0..n).map(|_| self.andor(cx)).collect()
    }
}

/// true/false overriding functions must not call true/false or themselves:
/// the generator gives them rank 0, so their bodies call no user function; a
/// `true`/`false` inside would recurse.  This pass rewrites such calls.
fn scrub_builtin_overrides(c: &mut Cmd, inside_override: bool) {
    fn list(l: &mut List, io: bool) {
        for a in l {
            for c in &mut a.first.cmds {
                scrub_builtin_overrides(c, io);
            }
            for (_, p) in &mut a.rest {
                for c in &mut p.cmds {
                    scrub_builtin_overrides(c, io);
                }
            }
        }
    }
    match c {
        Cmd::Call(d, nm, args)
            if inside_override
                && matches!(
                    nm,
                    Name::True | Name::False | Name::Colon | Name::Break | Name::Continue | Name::Return | Name::Exit
                ) =>
        {
            // inside a function named like a built-in: no call that could reach a
            // function of such a name again (even if the command search were wrong)
            *d = Deco::default();
            *nm = Name::Probe;
            *args = vec![7000];
        }
        Cmd::PrefixCall(_, _, nm, args)
            if inside_override
                && matches!(
                    nm,
                    Name::True | Name::False | Name::Colon | Name::Break | Name::Continue | Name::Return | Name::Exit
                ) =>
        {
            *nm = Name::Probe;
            *args = vec![7001];
        }
        Cmd::Brace(l) | Cmd::Subshell(l) | Cmd::TrapExit(l) | Cmd::AssignSub(_, l) | Cmd::SubstArg(l) => list(l, inside_override),
        Cmd::Async(a) => {
            let mut l = vec![(**a).clone()];
            list(&mut l, inside_override);
            **a = l.pop().unwrap();
        }
        Cmd::If(c1, b, elifs, els) => {
            list(c1, inside_override);
            list(b, inside_override);
            for (c2, b2) in elifs {
                list(c2, inside_override);
                list(b2, inside_override);
            }
            if let Some(e) = els {
                list(e, inside_override);
            }
        }
        Cmd::While(_, c1, b) => {
            list(c1, inside_override);
            list(b, inside_override);
        }
        Cmd::For(_, _, b) => list(b, inside_override),
        Cmd::Case(_, items) => {
            for (_, b, _) in items {
                list(b, inside_override);
            }
        }
        Cmd::FunDef(nm, b) => {
            // Any function body may run while `true`/`false` are overridden and
            // be called from the overriding function?  No: overriding bodies
            // have rank 0 and call no user function.  But a user function's
            // body may call `true`, which may be overridden by a function whose
            // body ... has rank 0: terminates.
            let io = inside_override
                || matches!(nm, Name::True | Name::False | Name::Colon | Name::Break | Name::Continue | Name::Return | Name::Exit);
            scrub_builtin_overrides(b, io);
        }
        Cmd::RedirFail(c) => scrub_builtin_overrides(c, inside_override),
        _ => {}
    }
}

pub fn scrub_prog(p: &mut Prog) {
    for l in p {
        if let Line::Cmd(l) = l {
            for a in l {
                for c in &mut a.first.cmds {
                    scrub_builtin_overrides(c, false);
                }
                for (_, pl) in &mut a.rest {
                    for c in &mut pl.cmds {
                        scrub_builtin_overrides(c, false);
                    }
                }
            }
        }
    }
}

pub fn gen_prog(rng: &mut Rng, size: i32, wild: bool, errors: bool) -> Prog {
    let mut g = Gen { rng, nodes: size, next_key: 0, next_loop_var: 10 };
    let cx = Ctx { depth: 0, infun: false, rank: 4, allow_exit: false, nest: 4, wild, errors };
    let mut p = vec![];
    while g.nodes > 0 && p.len() < 8 {
        // `exit` at top level only near the end
        let cxl = Ctx { allow_exit: g.nodes < size / 3, ..cx };
        let l = g.list(&cxl, 1, 2);
        p.push(Line::Cmd(l));
    }
    let k = g.key();
    p.push(Line::Cmd(vec![simple(probe(k, 0))]));
    scrub_prog(&mut p);
    p
}

// ---------------------------------------------------------------------------
// Statistics
// ---------------------------------------------------------------------------

pub fn count_constructs(p: &Prog, w: &mut CasesWriter) {
    fn list(l: &List, w: &mut CasesWriter) {
        for a in l {
            if !a.rest.is_empty() {
                w.count("construct:and-or");
            }
            pipe(&a.first, w);
            for (_, p) in &a.rest {
                pipe(p, w);
            }
        }
    }
    fn pipe(p: &Pipeline, w: &mut CasesWriter) {
        if p.neg {
            w.count("construct:negation");
        }
        if p.cmds.len() > 1 {
            w.count("construct:multi-command pipeline");
        }
        for c in &p.cmds {
            cmd(c, w);
        }
    }
    fn cmd(c: &Cmd, w: &mut CasesWriter) {
        match c {
            Cmd::Assign(..) => w.count("construct:assignment"),
            Cmd::Readonly(..) => w.count("construct:readonly"),
            Cmd::Call(d, nm, _) => {
                w.count(&format!("construct:call {}", match nm {
                    Name::User(_) => "f<i>".to_string(),
                    n => n.text(),
                }));
                if d.bad_redir {
                    w.count("construct:failing redirection");
                }
                if d.via_command {
                    w.count("construct:command-wrapped");
                }
            }
            Cmd::Brace(l) => {
                w.count("construct:brace group");
                list(l, w)
            }
            Cmd::Subshell(l) => {
                w.count("construct:subshell");
                list(l, w)
            }
            Cmd::AssignSub(_, l) | Cmd::SubstArg(l) => {
                w.count("construct:command substitution");
                list(l, w)
            }
            Cmd::PrefixCall(..) => w.count("construct:assignment before a command name"),
            Cmd::Async(a) => {
                w.count("construct:asynchronous list");
                list(&vec![(**a).clone()], w)
            }
            Cmd::If(c1, b, elifs, els) => {
                w.count("construct:if");
                list(c1, w);
                list(b, w);
                for (c2, b2) in elifs {
                    list(c2, w);
                    list(b2, w);
                }
                if let Some(e) = els {
                    list(e, w);
                }
            }
            Cmd::While(u, c1, b) => {
                w.count(if *u { "construct:until" } else { "construct:while" });
                list(c1, w);
                list(b, w);
            }
            Cmd::For(_, _, b) => {
                w.count("construct:for");
                list(b, w)
            }
            Cmd::Case(_, items) => {
                w.count("construct:case");
                for (_, b, _) in items {
                    list(b, w);
                }
            }
            Cmd::FunDef(_, b) => {
                w.count("construct:function definition");
                cmd(b, w)
            }
            Cmd::TrapExit(l) => {
                w.count("construct:trap EXIT");
                list(l, w)
            }
            Cmd::RedirFail(c) => {
                w.count("construct:compound with failing redirection");
                cmd(c, w)
            }
        }
    }
    for l in p {
        match l {
            Line::Cmd(l) => list(l, w),
            Line::SyntaxError => w.count("construct:syntax error line"),
        }
    }
}

/// Scripts with asynchronous lists: their probes are not ordered relative to the parent's.
pub fn has_async(p: &Prog) -> bool {
    coq_prog(p).contains("(CAsync ")
}

pub fn emit(w: &mut CasesWriter, p: &Prog, text: &str, stream: &str, tags: &[&str]) {
    if std::env::var("YV_DEBUG").is_ok() {
        eprintln!("=== case {}\n{}", w.len(), text);
    }
    let out = run_text(text);
    count_constructs(p, w);
    w.count(&format!("stream:{stream}"));
    if let ImplOut::Ok(tr, _) = &out {
        w.count(&format!("trace_len:{}", match tr.len() {
            0 => "0",
            1..=3 => "1-3",
            4..=10 => "4-10",
            _ => ">10",
        }));
    }
    let unordered = has_async(p);
    let term = format!("({}, {}, {})", coq_prog(p), coq::b(unordered), out.coq());
    let json = format!(
        "{{\"stream\":{},\"script\":{},\"observed\":{}}}",
        json_str(stream),
        json_str(text),
        json_str(&out.show())
    );
    // non-trivial: at least three probes ran
    let key = match &out {
        ImplOut::Ok(tr, _) if tr.len() >= 3 => Some(coq_prog(p)),
        _ => None,
    };
    w.push(&term, &json, tags, key);
}

// ---------------------------------------------------------------------------
// Hand-written corpus
// ---------------------------------------------------------------------------

fn l1(c: Cmd) -> List {
    vec![simple(c)]
}
fn seq(cs: Vec<Cmd>) -> List {
    cs.into_iter().map(simple).collect()
}

pub fn corpus() -> Vec<Prog> {
    let mut v: Vec<Prog> = vec![];
    // while status after `continue` in the body (F4, fixed): 0, not the stale 1
    {
        let step = Cmd::Case(
            Word::Var(10),
            vec![
                (vec![Pat::Lit(0)], l1(Cmd::Assign(10, Word::Lit(1))), Cont::Break),
                (vec![Pat::Lit(1)], l1(Cmd::Assign(10, Word::Lit(2))), Cont::Break),
                (vec![Pat::Star], l1(call(Name::False, &[])), Cont::Break),
            ],
        );
        let body = vec![simple(Cmd::Case(
            Word::Var(10),
            vec![
                (vec![Pat::Lit(1)], l1(probe(1, 1)), Cont::Break),
                (vec![Pat::Star], l1(call(Name::Continue, &[])), Cont::Break),
            ],
        ))];
        v.push(vec![
            Line::Cmd(l1(Cmd::Assign(10, Word::Lit(0)))),
            Line::Cmd(l1(Cmd::While(false, l1(step), body))),
            Line::Cmd(l1(probe(2, 0))),
        ]);
    }
    // and-or: equal precedence, left associative
    v.push(vec![Line::Cmd(vec![AndOr {
        first: Pipeline { neg: false, cmds: vec![probe(1, 1)] },
        rest: vec![
            (true, Pipeline { neg: false, cmds: vec![probe(2, 0)] }),
            (false, Pipeline { neg: false, cmds: vec![probe(3, 0)] }),
            (true, Pipeline { neg: true, cmds: vec![probe(4, 0)] }),
        ],
    }]), Line::Cmd(l1(probe(5, 0)))]);
    // `!` does not invert a divert; break 2 through a case inside a function call
    v.push(vec![
        Line::Cmd(l1(Cmd::FunDef(
            Name::User(0),
            Box::new(Cmd::Brace(seq(vec![probe(1, 3), call(Name::Return, &[]), probe(2, 0)]))),
        ))),
        Line::Cmd(vec![AndOr {
            first: Pipeline { neg: true, cmds: vec![call(Name::User(0), &[])] },
            rest: vec![(false, Pipeline { neg: false, cmds: vec![probe(3, 0)] })],
        }]),
        Line::Cmd(l1(Cmd::For(
            0,
            vec![Word::Lit(0), Word::Lit(1)],
            l1(Cmd::For(
                1,
                vec![Word::Lit(2), Word::Lit(3)],
                seq(vec![
                    probe(4, 0),
                    Cmd::Case(Word::Var(1), vec![(vec![Pat::Lit(2)], l1(call(Name::Continue, &[2])), Cont::Break)]),
                    probe(5, 0),
                ]),
            )),
        ))),
        Line::Cmd(l1(probe(6, 0))),
    ]);
    // search order: special built-in before function before regular built-in
    v.push(vec![
        Line::Cmd(l1(Cmd::FunDef(Name::Colon, Box::new(Cmd::Brace(l1(probe(1, 4))))))),
        Line::Cmd(l1(Cmd::FunDef(Name::True, Box::new(Cmd::Brace(l1(probe(2, 5))))))),
        Line::Cmd(seq(vec![call(Name::Colon, &[]), probe(3, 0), call(Name::True, &[]), probe(4, 0)])),
        Line::Cmd(seq(vec![call(Name::User(3), &[]), probe(5, 0)])),
    ]);
    // subshell and pipeline: only status and trace survive
    v.push(vec![
        Line::Cmd(l1(Cmd::Assign(0, Word::Lit(0)))),
        Line::Cmd(l1(Cmd::Subshell(seq(vec![Cmd::Assign(0, Word::Lit(1)), probe(1, 0), call(Name::Exit, &[3]), probe(2, 0)])))),
        Line::Cmd(vec![AndOr {
            first: Pipeline {
                neg: false,
                cmds: vec![
                    Cmd::Brace(seq(vec![probe(3, 0), Cmd::Subshell(l1(probe(4, 2))), probe(5, 0)])),
                    Cmd::Brace(seq(vec![probe(6, 0), Cmd::Subshell(l1(probe(7, 0))), probe(8, 7)])),
                ],
            },
            rest: vec![],
        }]),
        Line::Cmd(l1(Cmd::Case(Word::Var(0), vec![(vec![Pat::Lit(0)], l1(probe(9, 0)), Cont::Break)]))),
    ]);
    // case: fall through, empty clause, ;;& ; status zero when nothing ran
    v.push(vec![
        Line::Cmd(l1(probe(1, 3))),
        Line::Cmd(l1(Cmd::Case(
            Word::Lit(0),
            vec![
                (vec![Pat::Lit(0)], l1(probe(2, 4)), Cont::Fall),
                (vec![Pat::Lit(1)], vec![], Cont::Cont),
                (vec![Pat::Lit(2), Pat::Star], l1(probe(3, 5)), Cont::Cont),
                (vec![Pat::Lit(0)], vec![], Cont::Break),
            ],
        ))),
        Line::Cmd(l1(probe(4, 6))),
        Line::Cmd(l1(Cmd::Case(Word::Lit(3), vec![(vec![Pat::Lit(0)], l1(probe(5, 0)), Cont::Break)]))),
        Line::Cmd(l1(probe(6, 0))),
    ]);
    // until; break in the condition; status of the loop
    v.push(vec![
        Line::Cmd(l1(Cmd::Assign(0, Word::Lit(0)))),
        Line::Cmd(l1(Cmd::While(
            true,
            seq(vec![
                probe(1, 0),
                Cmd::Case(Word::Var(0), vec![(vec![Pat::Lit(1)], l1(call(Name::Break, &[])), Cont::Break)]),
                call(Name::False, &[]),
            ]),
            seq(vec![Cmd::Assign(0, Word::Lit(1)), probe(2, 3)]),
        ))),
        Line::Cmd(l1(probe(3, 0))),
    ]);
    // `return N` inside a subshell / a pipeline element of a function body ends that
    // subshell with status N; the function goes on
    v.push(vec![
        Line::Cmd(l1(Cmd::FunDef(
            Name::User(0),
            Box::new(Cmd::Brace(seq(vec![
                Cmd::Subshell(seq(vec![probe(1, 0), call(Name::Return, &[5]), probe(2, 0)])),
                probe(3, 0),
                call(Name::Return, &[7]),
                probe(4, 0),
            ]))),
        ))),
        Line::Cmd(seq(vec![call(Name::User(0), &[]), probe(5, 0)])),
    ]);
    v.push(vec![
        Line::Cmd(l1(Cmd::FunDef(
            Name::User(0),
            Box::new(Cmd::Brace(vec![
                AndOr {
                    first: Pipeline {
                        neg: false,
                        cmds: vec![
                            Cmd::Brace(seq(vec![probe(1, 0), call(Name::Return, &[4])])),
                            Cmd::Brace(seq(vec![probe(2, 0), call(Name::Return, &[6]), probe(3, 0)])),
                        ],
                    },
                    rest: vec![],
                },
                simple(probe(4, 0)),
                simple(Cmd::Subshell(l1(call(Name::Return, &[])))),
                simple(probe(5, 0)),
            ])),
        ))),
        Line::Cmd(seq(vec![call(Name::User(0), &[]), probe(6, 0)])),
    ]);
    // command substitution: a subshell; its status is the status of an assignment-only
    // command and is ignored otherwise; return/break/exit inside end only the substitution
    v.push(vec![
        Line::Cmd(l1(Cmd::FunDef(
            Name::User(0),
            Box::new(Cmd::Brace(seq(vec![
                Cmd::AssignSub(0, seq(vec![probe(1, 0), call(Name::Return, &[5]), probe(2, 0)])),
                probe(3, 0),
                Cmd::SubstArg(seq(vec![probe(4, 6), call(Name::Exit, &[])])),
                probe(5, 0),
            ]))),
        ))),
        Line::Cmd(l1(Cmd::For(
            1,
            vec![Word::Lit(0), Word::Lit(1)],
            seq(vec![call(Name::User(0), &[]), Cmd::AssignSub(1, seq(vec![probe(6, 0), call(Name::Break, &[])])), probe(7, 0)]),
        ))),
        Line::Cmd(l1(Cmd::Case(Word::Var(0), vec![(vec![Pat::Star], l1(probe(8, 0)), Cont::Break)]))),
    ]);
    // for: the variable is assigned anew in EVERY iteration, also when the next
    // word equals the previous one and the body changed the variable meanwhile
    for words in [vec![0u32, 0], vec![1, 1, 1], vec![0, 1, 1, 0]] {
        v.push(vec![
            Line::Cmd(l1(Cmd::For(
                2,
                words.iter().map(|w| Word::Lit(*w)).collect(),
                seq(vec![
                    Cmd::Case(
                        Word::Var(2),
                        vec![
                            (vec![Pat::Lit(0)], l1(probe(1, 3)), Cont::Break),
                            (vec![Pat::Lit(1)], l1(probe(2, 4)), Cont::Break),
                            (vec![Pat::Star], l1(probe(3, 9)), Cont::Break),
                        ],
                    ),
                    Cmd::Assign(2, Word::Lit(3)),
                ]),
            ))),
            Line::Cmd(l1(Cmd::Case(Word::Var(2), vec![(vec![Pat::Lit(3)], l1(probe(4, 0)), Cont::Break), (vec![Pat::Star], l1(probe(5, 1)), Cont::Break)]))),
        ]);
    }
    // asynchronous lists: `$?` is 0 after `&`, errexit does not apply to the list,
    // `wait $!` gives the status of the body once, then 127; `wait` gives 0
    v.push(vec![
        Line::Cmd(l1(call(Name::Set, &[1]))),
        Line::Cmd(seq(vec![
            Cmd::Async(Box::new(simple(probe(1, 3)))),
            probe(2, 0),
        ])),
        Line::Cmd(vec![AndOr { first: Pipeline { neg: false, cmds: vec![call(Name::Wait, &[1])] }, rest: vec![(false, Pipeline { neg: false, cmds: vec![probe(3, 0)] })] }]),
        Line::Cmd(vec![AndOr { first: Pipeline { neg: false, cmds: vec![call(Name::Wait, &[1])] }, rest: vec![(false, Pipeline { neg: false, cmds: vec![probe(4, 0)] })] }]),
        Line::Cmd(seq(vec![Cmd::Async(Box::new(simple(Cmd::Brace(seq(vec![probe(5, 0), call(Name::Exit, &[6])]))))), call(Name::Wait, &[]), probe(7, 0)])),
        Line::Cmd(l1(Cmd::Subshell(vec![AndOr { first: Pipeline { neg: false, cmds: vec![call(Name::Wait, &[1])] }, rest: vec![(false, Pipeline { neg: false, cmds: vec![probe(8, 0)] })] }]))),
    ]);
    // assignments before a command name: persistent for a special built-in, temporary
    // otherwise (visible in a function body); a read-only variable is an error even
    // when it is assigned the value it already has
    v.push(vec![
        Line::Cmd(l1(Cmd::FunDef(
            Name::User(0),
            Box::new(Cmd::Brace(l1(Cmd::Case(Word::Var(3), vec![(vec![Pat::Lit(1)], l1(probe(1, 0)), Cont::Break)])))),
        ))),
        Line::Cmd(seq(vec![Cmd::PrefixCall(3, Word::Lit(1), Name::User(0), vec![]), Cmd::PrefixCall(3, Word::Lit(1), Name::Probe, vec![2, 4])])),
        Line::Cmd(l1(Cmd::Case(Word::Var(3), vec![(vec![Pat::Lit(1)], l1(probe(3, 0)), Cont::Break), (vec![Pat::Star], l1(probe(4, 0)), Cont::Break)]))),
        Line::Cmd(seq(vec![Cmd::PrefixCall(3, Word::Lit(0), Name::Colon, vec![]), Cmd::Readonly(3)])),
        Line::Cmd(l1(Cmd::Case(Word::Var(3), vec![(vec![Pat::Lit(0)], l1(probe(5, 6)), Cont::Break)]))),
        Line::Cmd(l1(Cmd::Assign(3, Word::Lit(0)))),
        Line::Cmd(l1(probe(7, 0))),
    ]);
    v.push(vec![
        Line::Cmd(seq(vec![Cmd::Assign(3, Word::Lit(0)), Cmd::Readonly(3), probe(1, 5)])),
        Line::Cmd(l1(Cmd::PrefixCall(3, Word::Lit(0), Name::Probe, vec![2]))),
        Line::Cmd(l1(probe(3, 0))),
    ]);
    // a shell error inside the EXIT trap action ends the shell with the error status 2
    // (yash-rs left the stale `$?`; repaired by commit 52e95c4)
    for st in [0u64, 5] {
        v.push(vec![
            Line::Cmd(l1(Cmd::TrapExit(seq(vec![probe(1, st), Cmd::Assign(0, Word::Req(2)), probe(2, 0)])))),
            Line::Cmd(l1(probe(3, 0))),
        ]);
    }
    // assigning an empty expansion makes the variable empty (found by the thorough tier
    // against an early version of the model, which kept the old value)
    v.push(vec![
        Line::Cmd(l1(Cmd::Assign(0, Word::Lit(0)))),
        Line::Cmd(l1(Cmd::Assign(0, Word::Var(2)))),
        Line::Cmd(l1(Cmd::Case(Word::Var(0), vec![(vec![Pat::Lit(0)], l1(probe(1, 3)), Cont::Break)]))),
        Line::Cmd(l1(Cmd::For(1, vec![Word::Var(0), Word::Lit(1)], l1(probe(2, 0))))),
        Line::Cmd(l1(probe(3, 0))),
    ]);
    v
}

pub fn render(p: &Prog, rng: &mut Rng, vary: bool) -> String {
    let mut r = Render { rng, vary };
    r.prog(p)
}

// ---------------------------------------------------------------------------
// Bounded-exhaustive stream: every template x every combination of leaves
// ---------------------------------------------------------------------------

/// The leaves: the i-th leaf placed in hole number `hole` (probe keys are
/// distinct per hole so that the trace shows which hole ran).
pub fn leaf(i: usize, hole: u64) -> Cmd {
    let k = 100 + 10 * hole;
    match i {
        0 => probe(k, 0),
        1 => probe(k + 1, 1),
        2 => call(Name::Break, &[]),
        3 => call(Name::Continue, &[]),
        4 => call(Name::Break, &[2]),
        5 => call(Name::Continue, &[2]),
        6 => call(Name::Return, &[2]),
        7 => call(Name::Exit, &[3]),
        8 => call(Name::User(0), &[]),
        _ => call(Name::Return, &[]),
    }
}
pub const NLEAVES: usize = 10;

fn ao(first: Pipeline, rest: Vec<(bool, Pipeline)>) -> AndOr {
    AndOr { first, rest }
}
fn p1(c: Cmd) -> Pipeline {
    Pipeline { neg: false, cmds: vec![c] }
}
fn np1(c: Cmd) -> Pipeline {
    Pipeline { neg: true, cmds: vec![c] }
}
fn counter_while(until: bool, body: List) -> Cmd {
    let step = Cmd::Case(
        Word::Var(10),
        vec![
            (vec![Pat::Lit(0)], l1(Cmd::Assign(10, Word::Lit(1))), Cont::Break),
            (vec![Pat::Lit(1)], l1(Cmd::Assign(10, Word::Lit(2))), Cont::Break),
            (vec![Pat::Star], vec![ao(np1(call(Name::Colon, &[])), vec![])], Cont::Break),
        ],
    );
    let cond = vec![ao(Pipeline { neg: until, cmds: vec![step] }, vec![])];
    Cmd::Brace(seq(vec![Cmd::Assign(10, Word::Lit(0)), Cmd::While(until, cond, body)]))
}

/// Templates with three holes a, b, c.  `f0` is defined first as
/// `f0() { probe 90; A'; probe 91 4; }` where A' is the leaf of hole c shifted,
/// so that calls of f0 exercise break/continue/return inside a function.
pub fn templates(a: Cmd, b: Cmd, c: Cmd) -> Vec<(&'static str, Vec<List>)> {
    let ab = || seq(vec![a.clone(), b.clone()]);
    let for2 = |body: List| Cmd::For(0, vec![Word::Lit(0), Word::Lit(1)], body);
    let for2w = |body: List| Cmd::For(1, vec![Word::Lit(2), Word::Lit(3)], body);
    let end = || l1(probe(1, 0));
    vec![
        ("seq", vec![seq(vec![a.clone(), b.clone(), c.clone()]), end()]),
        ("and-or &&||", vec![vec![ao(p1(a.clone()), vec![(true, p1(b.clone())), (false, p1(c.clone()))])], end()]),
        ("and-or ||&&", vec![vec![ao(p1(a.clone()), vec![(false, p1(b.clone())), (true, p1(c.clone()))])], end()]),
        ("negation", vec![vec![ao(np1(a.clone()), vec![(true, p1(b.clone()))]), simple(c.clone())], end()]),
        ("if", vec![l1(Cmd::If(l1(a.clone()), l1(b.clone()), vec![], Some(l1(c.clone())))), end()]),
        ("if-elif", vec![l1(Cmd::If(l1(a.clone()), l1(probe(2, 0)), vec![(l1(b.clone()), l1(c.clone()))], None)), end()]),
        ("for", vec![l1(for2(seq(vec![a.clone(), b.clone(), c.clone()]))), end()]),
        ("for-for", vec![l1(for2(seq(vec![for2w(ab()), c.clone()]))), end()]),
        ("for-if", vec![l1(for2(seq(vec![Cmd::If(l1(a.clone()), l1(b.clone()), vec![], None), c.clone()]))), end()]),
        (
            "for-case",
            vec![
                l1(for2(seq(vec![
                    Cmd::Case(
                        Word::Var(0),
                        vec![(vec![Pat::Lit(0)], l1(a.clone()), Cont::Break), (vec![Pat::Star], l1(b.clone()), Cont::Break)],
                    ),
                    c.clone(),
                ]))),
                end(),
            ],
        ),
        ("for-andor", vec![l1(for2(vec![ao(p1(a.clone()), vec![(true, p1(b.clone()))]), simple(c.clone())])), end()]),
        ("for-negation", vec![l1(for2(vec![ao(np1(a.clone()), vec![]), simple(b.clone()), simple(c.clone())])), end()]),
        ("while", vec![l1(counter_while(false, seq(vec![a.clone(), b.clone(), c.clone()]))), end()]),
        ("until", vec![l1(counter_while(true, seq(vec![a.clone(), b.clone(), c.clone()]))), end()]),
        ("while-for", vec![l1(counter_while(false, seq(vec![for2(ab()), c.clone()]))), end()]),
        (
            "while condition",
            vec![
                l1(Cmd::Assign(10, Word::Lit(0))),
                l1(Cmd::While(
                    false,
                    seq(vec![
                        Cmd::Case(
                            Word::Var(10),
                            vec![
                                (vec![Pat::Lit(0)], l1(Cmd::Assign(10, Word::Lit(1))), Cont::Break),
                                (vec![Pat::Lit(1)], seq(vec![Cmd::Assign(10, Word::Lit(2)), a.clone()]), Cont::Break),
                                (vec![Pat::Star], vec![ao(np1(call(Name::Colon, &[])), vec![])], Cont::Break),
                            ],
                        ),
                    ]),
                    seq(vec![b.clone(), c.clone()]),
                )),
                end(),
            ],
        ),
        ("function", vec![l1(Cmd::FunDef(Name::User(1), Box::new(Cmd::Brace(seq(vec![a.clone(), b.clone()]))))), seq(vec![call(Name::User(1), &[]), c.clone()]), end()]),
        (
            "function in loop",
            vec![
                l1(Cmd::FunDef(Name::User(1), Box::new(Cmd::Brace(seq(vec![a.clone(), b.clone()]))))),
                l1(for2(seq(vec![call(Name::User(1), &[]), c.clone()]))),
                end(),
            ],
        ),
        (
            "function with loop",
            vec![
                l1(Cmd::FunDef(Name::User(1), Box::new(for2(seq(vec![a.clone(), b.clone()]))))),
                seq(vec![call(Name::User(1), &[]), c.clone()]),
                end(),
            ],
        ),
        (
            "function with subshell",
            vec![
                l1(Cmd::FunDef(Name::User(1), Box::new(Cmd::Brace(seq(vec![Cmd::Subshell(seq(vec![a.clone(), b.clone()])), c.clone(), probe(2, 0)]))))),
                seq(vec![call(Name::User(1), &[]), probe(3, 0)]),
                end(),
            ],
        ),
        (
            "function with pipeline",
            vec![
                l1(Cmd::FunDef(
                    Name::User(1),
                    Box::new(Cmd::Brace(vec![
                        ao(Pipeline { neg: false, cmds: vec![a.clone(), Cmd::Brace(seq(vec![b.clone(), probe(2, 0)]))] }, vec![]),
                        simple(c.clone()),
                        simple(probe(3, 0)),
                    ])),
                )),
                seq(vec![call(Name::User(1), &[]), probe(4, 0)]),
                end(),
            ],
        ),
        ("case fall", vec![l1(Cmd::Case(Word::Lit(0), vec![(vec![Pat::Lit(0)], l1(a.clone()), Cont::Fall), (vec![Pat::Lit(1)], l1(b.clone()), Cont::Cont), (vec![Pat::Star], l1(c.clone()), Cont::Break)])), end()]),
        ("subshell", vec![seq(vec![Cmd::Subshell(ab()), c.clone()]), end()]),
        ("subshell in loop", vec![l1(for2(seq(vec![Cmd::Subshell(ab()), c.clone()]))), end()]),
        ("command substitution", vec![seq(vec![Cmd::AssignSub(0, ab()), c.clone()]), end()]),
        (
            "command substitution in function in loop",
            vec![
                l1(Cmd::FunDef(Name::User(1), Box::new(Cmd::Brace(seq(vec![Cmd::AssignSub(0, l1(a.clone())), Cmd::SubstArg(l1(b.clone())), probe(2, 0)]))))),
                l1(for2(seq(vec![call(Name::User(1), &[]), c.clone()]))),
                end(),
            ],
        ),
        ("pipeline", vec![vec![ao(Pipeline { neg: false, cmds: vec![a.clone(), b.clone()] }, vec![]), simple(c.clone())], end()]),
        ("group and-or", vec![vec![ao(p1(Cmd::Brace(ab())), vec![(true, p1(c.clone()))])], end()]),
    ]
}

pub fn exhaustive(rng: &mut Rng, sample: Option<usize>) -> Vec<(String, Prog)> {
    let mut v = vec![];
    // f0() { probe 90; <leaf>; probe 91 4; } for the call leaf
    for fleaf in [0usize, 2, 6] {
        for ia in 0..NLEAVES {
            for ib in 0..NLEAVES {
                for ic in 0..NLEAVES {
                    // the call leaf needs f0; restrict the other f0 bodies to programs that call it
                    let calls = ia == 8 || ib == 8 || ic == 8;
                    if fleaf != 0 && !calls {
                        continue;
                    }
                    for (name, lines) in templates(leaf(ia, 0), leaf(ib, 1), leaf(ic, 2)) {
                        let mut p: Prog = vec![];
                        if calls {
                            p.push(Line::Cmd(l1(Cmd::FunDef(
                                Name::User(0),
                                Box::new(Cmd::Brace(seq(vec![probe(90, 0), leaf(fleaf, 9), probe(91, 4)]))),
                            ))));
                        }
                        for l in lines {
                            p.push(Line::Cmd(l));
                        }
                        v.push((name.to_string(), p));
                    }
                }
            }
        }
    }
    if let Some(n) = sample {
        let mut idx: Vec<usize> = (0..v.len()).collect();
        for i in (1..idx.len()).rev() {
            let j = rng.below(i + 1);
            idx.swap(i, j);
        }
        idx.truncate(n);
        idx.sort();
        let mut out = vec![];
        for i in idx {
            out.push(v[i].clone());
        }
        return out;
    }
    v
}

fn main() {
    let args = Args::parse();
    let mut rng = Rng::new(args.seed);
    let mut w = CasesWriter::new(&args, "Yv.C02.Run", 60);

    for p in corpus() {
        let mut r = rng.fork(1);
        let text = render(&p, &mut r, false);
        emit(&mut w, &p, &text, "corpus", &[]);
        let text = render(&p, &mut r, true);
        emit(&mut w, &p, &text, "corpus", &[]);
    }

    // templates x leaves: all of them (thorough) or a sample (quick)
    {
        let mut r = rng.fork(2);
        let all = exhaustive(&mut r, if args.thorough() { None } else { Some(300) });
        for (name, p) in all {
            let vary = r.chance(1, 3);
            let text = render(&p, &mut r, vary);
            w.count(&format!("template:{name}"));
            emit(&mut w, &p, &text, "templates", &[]);
        }
    }

    let n = args.scale(600, 30000);
    for k in 0..n {
        let mut r = rng.fork(k as u64 + 100);
        let size = 4 + r.below(37) as i32;
        let wild = r.chance(1, 10);
        let p = gen_prog(&mut r, size, wild, false);
        let text = render(&p, &mut r, true);
        emit(&mut w, &p, &text, if wild { "random-unspecified" } else { "random" }, &[]);
    }
    w.finish(
        "random programs of the core command language (<= 40 nodes, every construct, random surface \
         syntax) run by the real shell; non-trivial = at least three probes ran; distinct = by AST",
    );
}
