//! C10 — the shell aborts exactly when errexit or a shell error says so.
//!
//! Same language, model and runner as C02 (`c02.rs` is included as a module).
//! Streams:
//!   * planted: every category of failing command at every kind of syntactic
//!     position, with errexit on/off and with/without an EXIT trap;
//!   * random: random programs with `set -e`/`set +e`, failing redirections,
//!     `command`-wrapped built-ins, `${x?}` expansions, optional EXIT trap.
//! Compared: probe trace up to the abort point, final exit status, number of
//! runs of the EXIT trap action (its probe key).
#![allow(dead_code)]

#[path = "c02.rs"]
mod c02;

use c02::*;
use yv_harness::cli::Args;
use yv_harness::out::CasesWriter;
use yv_harness::rng::Rng;
use yv_harness::{coq, json_str};

const TRAP_KEY: u64 = 9999;

fn l1(c: Cmd) -> List {
    vec![simple(c)]
}
fn seq(cs: Vec<Cmd>) -> List {
    cs.into_iter().map(simple).collect()
}
fn pipe1(c: Cmd) -> Pipeline {
    Pipeline { neg: false, cmds: vec![c] }
}
fn bad() -> Deco {
    Deco { bad_redir: true, via_command: false }
}
fn via() -> Deco {
    Deco { bad_redir: false, via_command: true }
}

/// A failing command of some category.  `needs`: 0 nothing, 1 must be inside a function.
struct Victim {
    name: &'static str,
    cmd: Cmd,
    needs_fun: bool,
    /// needs `readonly v1` first (assignment error)
    readonly: bool,
    /// contains `${x?}`
    expansion: bool,
    /// commands to run first (own lines), e.g. `v3=a`, `readonly v3`
    setup: Vec<Cmd>,
}

fn victims() -> Vec<Victim> {
    let v = |name: &'static str, cmd: Cmd| Victim { name, cmd, needs_fun: false, readonly: false, expansion: false, setup: vec![] };
    let ro = |name: &'static str, setup: Vec<Cmd>, cmd: Cmd| Victim { name, cmd, needs_fun: false, readonly: false, expansion: false, setup };
    let a_ro = || vec![Cmd::Assign(3, Word::Lit(0)), Cmd::Readonly(3)];
    vec![
        v("probe fails", probe(50, 3)),
        v("false", call(Name::False, &[])),
        v("not found", call(Name::User(9), &[])),
        v("function fails", call(Name::User(1), &[])), // f1() { probe 60; return 3; }
        v("subshell fails", Cmd::Subshell(seq(vec![probe(51, 0), call(Name::Exit, &[3])]))),
        v(
            "pipeline fails",
            Cmd::Brace(vec![AndOr {
                first: Pipeline { neg: false, cmds: vec![probe(52, 0), probe(53, 3)] },
                rest: vec![],
            }]),
        ),
        v("negated success", Cmd::Brace(vec![AndOr { first: Pipeline { neg: true, cmds: vec![probe(54, 0)] }, rest: vec![] }])),
        v("break 0", call(Name::Break, &[0])),
        v("continue 1 2", call(Name::Continue, &[1, 2])),
        v("exit 1 2", call(Name::Exit, &[1, 2])),
        Victim { name: "return 1 2", cmd: call(Name::Return, &[1, 2]), needs_fun: true, readonly: false, expansion: false, setup: vec![] },
        v("break (maybe outside a loop)", call(Name::Break, &[])),
        v("special redirection", Cmd::Call(bad(), Name::Colon, vec![])),
        v("special redirection (set)", Cmd::Call(bad(), Name::Set, vec![1])),
        v("exec 3<missing", Cmd::Call(bad(), Name::Exec, vec![])),
        v("exec (no operands)", call(Name::Exec, &[])),
        v(". missing file", call(Name::Dot, &[])),
        v("command . missing file", Cmd::Call(via(), Name::Dot, vec![])),
        v("command exec 3<missing", Cmd::Call(Deco { bad_redir: true, via_command: true }, Name::Exec, vec![])),
        v("regular redirection", Cmd::Call(bad(), Name::Probe, vec![55])),
        v("function redirection", Cmd::Call(bad(), Name::User(1), vec![])),
        v("not found + redirection", Cmd::Call(bad(), Name::User(9), vec![])),
        v("compound redirection", Cmd::RedirFail(Box::new(Cmd::Brace(l1(probe(56, 0)))))),
        Victim { name: "expansion error (assignment)", cmd: Cmd::Assign(0, Word::Req(2)), needs_fun: false, readonly: false, expansion: true, setup: vec![] },
        Victim {
            name: "expansion error (for)",
            cmd: Cmd::For(0, vec![Word::Lit(0), Word::Req(2)], l1(probe(57, 0))),
            needs_fun: false,
            readonly: false,
            expansion: true,
            setup: vec![],
        },
        Victim {
            name: "expansion error (case)",
            cmd: Cmd::Case(Word::Req(2), vec![(vec![Pat::Star], l1(probe(58, 0)), Cont::Break)]),
            needs_fun: false,
            readonly: false,
            expansion: true,
            setup: vec![],
        },
        Victim { name: "assignment error", cmd: Cmd::Assign(1, Word::Lit(0)), needs_fun: false, readonly: true, expansion: false, setup: vec![] },
        Victim {
            name: "assignment error (for)",
            cmd: Cmd::For(1, vec![Word::Lit(0)], l1(probe(59, 0))),
            needs_fun: false,
            readonly: true,
            expansion: false,
            setup: vec![],
        },
        // a read-only variable: the check does not look at the value
        ro("assignment error, same value", a_ro(), Cmd::Assign(3, Word::Lit(0))),
        ro("assignment error, different value", a_ro(), Cmd::Assign(3, Word::Lit(1))),
        ro("assignment error, its own value", a_ro(), Cmd::Assign(3, Word::Var(3))),
        ro("assignment error, no prior value, empty", vec![Cmd::Readonly(3)], Cmd::Assign(3, Word::Var(2))),
        ro("assignment error, prefix of a special built-in, same value", a_ro(), Cmd::PrefixCall(3, Word::Lit(0), Name::Colon, vec![])),
        ro("assignment error, prefix of a special built-in, different value", a_ro(), Cmd::PrefixCall(3, Word::Lit(1), Name::Colon, vec![])),
        ro("assignment error, prefix of a regular built-in, same value", a_ro(), Cmd::PrefixCall(3, Word::Lit(0), Name::Probe, vec![64])),
        ro("assignment error, prefix of a regular built-in, different value", a_ro(), Cmd::PrefixCall(3, Word::Lit(1), Name::Probe, vec![64])),
        ro("assignment error, prefix of a function, same value", a_ro(), Cmd::PrefixCall(3, Word::Lit(0), Name::User(1), vec![])),
        ro("assignment error, prefix of a command not found, same value", a_ro(), Cmd::PrefixCall(3, Word::Lit(0), Name::User(9), vec![])),
        ro("assignment error, command substitution, same value", a_ro(), Cmd::AssignSub(3, l1(probe(65, 0)))),
        v(
            "prefix assignment, special built-in (persists)",
            Cmd::Brace(seq(vec![
                Cmd::PrefixCall(3, Word::Lit(1), Name::Colon, vec![]),
                Cmd::Case(Word::Var(3), vec![(vec![Pat::Lit(1)], l1(probe(66, 3)), Cont::Break)]),
            ])),
        ),
        v(
            "prefix assignment, regular built-in (temporary)",
            Cmd::Brace(seq(vec![
                Cmd::PrefixCall(3, Word::Lit(1), Name::Probe, vec![67, 3]),
                Cmd::Case(Word::Var(3), vec![(vec![Pat::Lit(1)], l1(probe(68, 0)), Cont::Break)]),
            ])),
        ),
        v("command break 0", Cmd::Call(via(), Name::Break, vec![0])),
        v("command exit 1 2", Cmd::Call(via(), Name::Exit, vec![1, 2])),
        v("command not found", Cmd::Call(via(), Name::User(9), vec![])),
        v("command : redirection", Cmd::Call(Deco { bad_redir: true, via_command: true }, Name::Colon, vec![])),
        v("command probe fails", Cmd::Call(via(), Name::Probe, vec![61, 4])),
        v("command function (not searched)", Cmd::Call(via(), Name::User(1), vec![])),
        v("exit 3", call(Name::Exit, &[3])),
        v("exit", Cmd::Brace(seq(vec![probe(62, 6), call(Name::Exit, &[])]))),
        Victim { name: "return 3", cmd: call(Name::Return, &[3]), needs_fun: true, readonly: false, expansion: false, setup: vec![] },
        v("succeeds", probe(63, 0)),
    ]
}

/// Syntactic positions.  Returns the lines and whether the victim sits inside a function body.
fn contexts(v: &Cmd) -> Vec<(&'static str, Vec<List>, bool)> {
    let v = || v.clone();
    let f0 = |body: List| Cmd::FunDef(Name::User(0), Box::new(Cmd::Brace(body)));
    let andor = |first: Pipeline, rest: Vec<(bool, Pipeline)>| AndOr { first, rest };
    let counter_loop = |until: bool, body: List| -> Cmd {
        // v10=a; while case $v10 in a) v10=b;; *) ! :;; esac; do body; done
        let step = Cmd::Case(
            Word::Var(10),
            vec![
                (vec![Pat::Lit(0)], l1(Cmd::Assign(10, Word::Lit(1))), Cont::Break),
                (vec![Pat::Lit(1)], l1(Cmd::Assign(10, Word::Lit(2))), Cont::Break),
                (vec![Pat::Star], vec![andor(Pipeline { neg: true, cmds: vec![call(Name::Colon, &[])] }, vec![])], Cont::Break),
            ],
        );
        let cond = vec![andor(Pipeline { neg: until, cmds: vec![step] }, vec![])];
        Cmd::Brace(seq(vec![Cmd::Assign(10, Word::Lit(0)), Cmd::While(until, cond, body)]))
    };
    vec![
        ("top level", vec![seq(vec![probe(1, 0), v(), probe(2, 0)])], false),
        ("own line", vec![l1(probe(1, 0)), l1(v()), l1(probe(2, 0))], false),
        ("if condition", vec![l1(Cmd::If(seq(vec![v()]), l1(probe(2, 0)), vec![], Some(l1(probe(3, 0))))), l1(probe(4, 0))], false),
        ("if condition, not last", vec![l1(Cmd::If(seq(vec![v(), probe(1, 0)]), l1(probe(2, 0)), vec![], None)), l1(probe(4, 0))], false),
        ("if body", vec![l1(Cmd::If(l1(probe(1, 0)), seq(vec![v(), probe(2, 0)]), vec![], None)), l1(probe(3, 0))], false),
        ("else body", vec![l1(Cmd::If(l1(probe(1, 1)), l1(probe(5, 0)), vec![], Some(seq(vec![v(), probe(2, 0)])))), l1(probe(3, 0))], false),
        (
            "elif condition",
            vec![l1(Cmd::If(l1(probe(1, 1)), l1(probe(5, 0)), vec![(seq(vec![v()]), l1(probe(2, 0)))], None)), l1(probe(3, 0))],
            false,
        ),
        ("while condition", vec![l1(Cmd::While(false, seq(vec![v()]), seq(vec![probe(2, 0), call(Name::Break, &[])]))), l1(probe(3, 0))], false),
        ("until condition", vec![l1(Cmd::While(true, seq(vec![v()]), seq(vec![probe(2, 0), call(Name::Break, &[])]))), l1(probe(3, 0))], false),
        ("while body", vec![l1(counter_loop(false, seq(vec![probe(1, 0), v(), probe(2, 0)]))), l1(probe(3, 0))], false),
        ("until body", vec![l1(counter_loop(true, seq(vec![v(), probe(2, 0)]))), l1(probe(3, 0))], false),
        ("for body", vec![l1(Cmd::For(0, vec![Word::Lit(0), Word::Lit(1)], seq(vec![probe(1, 0), v(), probe(2, 0)]))), l1(probe(3, 0))], false),
        ("and-or first", vec![vec![andor(pipe1(v()), vec![(true, pipe1(probe(2, 0)))])], l1(probe(3, 0))], false),
        ("and-or first (or)", vec![vec![andor(pipe1(v()), vec![(false, pipe1(probe(2, 0)))])], l1(probe(3, 0))], false),
        (
            "and-or middle",
            vec![vec![andor(pipe1(probe(1, 0)), vec![(true, pipe1(v())), (false, pipe1(probe(2, 0)))])], l1(probe(3, 0))],
            false,
        ),
        ("and-or last", vec![vec![andor(pipe1(probe(1, 0)), vec![(true, pipe1(v()))])], l1(probe(3, 0))], false),
        ("and-or last after or", vec![vec![andor(pipe1(probe(1, 2)), vec![(false, pipe1(v()))])], l1(probe(3, 0))], false),
        ("negated", vec![vec![andor(Pipeline { neg: true, cmds: vec![v()] }, vec![])], l1(probe(2, 0))], false),
        ("negated group", vec![vec![andor(Pipeline { neg: true, cmds: vec![Cmd::Brace(seq(vec![v(), probe(1, 0)]))] }, vec![])], l1(probe(2, 0))], false),
        ("brace group", vec![l1(Cmd::Brace(seq(vec![v(), probe(1, 0)]))), l1(probe(2, 0))], false),
        (
            "brace group in condition",
            vec![l1(Cmd::If(l1(Cmd::Brace(seq(vec![v(), probe(1, 0)]))), l1(probe(2, 0)), vec![], None)), l1(probe(3, 0))],
            false,
        ),
        ("function", vec![l1(f0(seq(vec![probe(1, 0), v(), probe(2, 0)]))), l1(call(Name::User(0), &[])), l1(probe(3, 0))], true),
        (
            "function called in a condition",
            vec![
                l1(f0(seq(vec![v(), probe(1, 0)]))),
                l1(Cmd::If(l1(call(Name::User(0), &[])), l1(probe(2, 0)), vec![], None)),
                l1(probe(3, 0)),
            ],
            true,
        ),
        (
            "function called in and-or, not last",
            vec![
                l1(f0(seq(vec![v(), probe(1, 0)]))),
                vec![andor(pipe1(call(Name::User(0), &[])), vec![(false, pipe1(probe(2, 0)))])],
                l1(probe(3, 0)),
            ],
            true,
        ),
        (
            "function called negated in a loop",
            vec![
                l1(f0(seq(vec![v(), probe(1, 0)]))),
                l1(Cmd::For(0, vec![Word::Lit(0)], vec![andor(Pipeline { neg: true, cmds: vec![call(Name::User(0), &[])] }, vec![]), simple(probe(2, 0))])),
                l1(probe(3, 0)),
            ],
            true,
        ),
        ("subshell", vec![l1(Cmd::Subshell(seq(vec![probe(1, 0), v(), probe(2, 0)]))), l1(probe(3, 0))], false),
        ("command substitution", vec![l1(Cmd::AssignSub(0, seq(vec![probe(1, 0), v(), probe(2, 0)]))), l1(probe(3, 0))], false),
        ("command substitution, status ignored", vec![l1(Cmd::SubstArg(seq(vec![v(), probe(2, 0)]))), l1(probe(3, 0))], false),
        (
            "command substitution in condition",
            vec![l1(Cmd::If(l1(Cmd::AssignSub(0, seq(vec![v(), probe(1, 0)]))), l1(probe(2, 0)), vec![], None)), l1(probe(3, 0))],
            false,
        ),
        (
            "subshell in condition",
            vec![l1(Cmd::If(l1(Cmd::Subshell(seq(vec![v(), probe(1, 0)]))), l1(probe(2, 0)), vec![], None)), l1(probe(3, 0))],
            false,
        ),
        (
            "pipeline, first command",
            vec![vec![andor(Pipeline { neg: false, cmds: vec![Cmd::Brace(seq(vec![v(), probe(1, 0)])), probe(2, 0)] }, vec![])], l1(probe(3, 0))],
            false,
        ),
        (
            "pipeline, last command",
            vec![vec![andor(Pipeline { neg: false, cmds: vec![probe(1, 0), Cmd::Brace(seq(vec![v(), probe(2, 0)]))] }, vec![])], l1(probe(3, 0))],
            false,
        ),
        (
            "pipeline, last command bare",
            vec![vec![andor(Pipeline { neg: false, cmds: vec![probe(1, 0), v()] }, vec![])], l1(probe(3, 0))],
            false,
        ),
        (
            "case clause",
            vec![l1(Cmd::Case(Word::Lit(0), vec![(vec![Pat::Lit(0)], seq(vec![v(), probe(1, 0)]), Cont::Fall), (vec![Pat::Lit(1)], l1(probe(2, 0)), Cont::Break)])), l1(probe(3, 0))],
            false,
        ),
        (
            "errexit set inside the function only",
            vec![l1(f0(seq(vec![call(Name::Set, &[1]), v(), probe(1, 0)]))), l1(call(Name::User(0), &[])), l1(probe(3, 0))],
            true,
        ),
        (
            "errexit set inside the subshell only",
            vec![l1(Cmd::Subshell(seq(vec![call(Name::Set, &[1]), v(), probe(1, 0)]))), l1(probe(3, 0))],
            false,
        ),
        ("errexit switched off again", vec![seq(vec![call(Name::Set, &[1]), call(Name::Set, &[0]), v(), probe(1, 0)]), l1(probe(3, 0))], false),
        (
            "subshell with its own EXIT trap",
            vec![l1(Cmd::Subshell(seq(vec![Cmd::TrapExit(l1(probe(9998, 0))), probe(1, 0), v(), probe(2, 0)]))), l1(probe(3, 0))],
            false,
        ),
        (
            "pipeline command with its own EXIT trap",
            vec![
                vec![andor(
                    Pipeline {
                        neg: false,
                        cmds: vec![Cmd::Brace(seq(vec![Cmd::TrapExit(l1(probe(9998, 7))), v(), probe(1, 0)])), probe(2, 0)],
                    },
                    vec![],
                )],
                l1(probe(3, 0)),
            ],
            false,
        ),
        // ---- errexit toggled inside ignored contexts (and what is left of it afterwards) ----
        (
            "errexit set inside a subshell in a condition",
            vec![
                l1(Cmd::If(l1(Cmd::Subshell(seq(vec![call(Name::Set, &[1]), v(), probe(1, 0)]))), l1(probe(2, 0)), vec![], Some(l1(probe(5, 0))))),
                l1(probe(6, 3)),
                l1(probe(3, 0)),
            ],
            false,
        ),
        (
            "errexit set inside a condition, in force afterwards",
            vec![
                l1(Cmd::If(seq(vec![call(Name::Set, &[1]), v(), probe(1, 0)]), l1(probe(2, 0)), vec![], None)),
                l1(probe(6, 3)),
                l1(probe(3, 0)),
            ],
            false,
        ),
        (
            "errexit switched off inside a function called from a condition",
            vec![
                l1(f0(seq(vec![call(Name::Set, &[0]), v(), probe(1, 0)]))),
                l1(Cmd::If(l1(call(Name::User(0), &[])), l1(probe(2, 0)), vec![], None)),
                l1(probe(6, 3)),
                l1(probe(3, 0)),
            ],
            true,
        ),
        (
            "errexit set inside a function called in and-or, not last",
            vec![
                l1(f0(seq(vec![call(Name::Set, &[1]), v(), probe(1, 0)]))),
                vec![andor(pipe1(call(Name::User(0), &[])), vec![(true, pipe1(probe(2, 0)))])],
                l1(probe(6, 3)),
                l1(probe(3, 0)),
            ],
            true,
        ),
        (
            "errexit set inside a negated group",
            vec![
                vec![andor(Pipeline { neg: true, cmds: vec![Cmd::Brace(seq(vec![call(Name::Set, &[1]), v(), probe(1, 0)]))] }, vec![])],
                l1(probe(6, 3)),
                l1(probe(3, 0)),
            ],
            false,
        ),
        (
            "errexit set inside a command substitution in a condition",
            vec![
                l1(Cmd::If(l1(Cmd::AssignSub(0, seq(vec![call(Name::Set, &[1]), v(), probe(1, 0)]))), l1(probe(2, 0)), vec![], None)),
                l1(probe(6, 3)),
                l1(probe(3, 0)),
            ],
            false,
        ),
        (
            "errexit set, then off and on again inside a function in a while condition",
            vec![
                l1(f0(seq(vec![call(Name::Set, &[0]), probe(7, 3), call(Name::Set, &[1]), v(), probe(1, 0)]))),
                l1(Cmd::While(false, l1(call(Name::User(0), &[])), seq(vec![probe(2, 0), call(Name::Break, &[])]))),
                l1(probe(6, 3)),
                l1(probe(3, 0)),
            ],
            true,
        ),
        (
            "nested: loop, function, and-or, group",
            vec![
                l1(f0(vec![andor(pipe1(Cmd::Brace(seq(vec![v(), probe(1, 0)]))), vec![(true, pipe1(probe(2, 0)))]), simple(probe(4, 0))])),
                l1(Cmd::For(0, vec![Word::Lit(0), Word::Lit(1)], seq(vec![call(Name::User(0), &[]), probe(5, 0)]))),
                l1(probe(3, 0)),
            ],
            true,
        ),
    ]
}

fn has_error_sources(p: &Prog) -> bool {
    let t = coq_prog(p);
    t.contains("WReq") || t.contains("CReadonly")
}

fn emit10(w: &mut CasesWriter, p: &Prog, text: &str, stream: &str, trap: bool, tags: &[&str]) {
    if std::env::var("YV_DEBUG").is_ok() {
        eprintln!("=== case {}\n{}", w.len(), text);
    }
    let out = run_text(text);
    emit_out(w, p, text, stream, trap, false, &out, tags);
}

#[allow(clippy::too_many_arguments)]
fn emit_out(
    w: &mut CasesWriter,
    p: &Prog,
    text: &str,
    stream: &str,
    trap: bool,
    unordered: bool,
    out: &ImplOut,
    tags: &[&str],
) {
    count_constructs(p, w);
    w.count(&format!("stream:{stream}"));
    let trapkey = if trap { Some(coq::n(TRAP_KEY)) } else { None };
    if let ImplOut::Ok(tr, st) = out {
        w.count(&format!("{stream} final status:{}", if *st == 0 { "0" } else { "nonzero" }));
        if trap {
            w.count(&format!("{stream} exit trap runs:{}", tr.iter().filter(|(k, _)| *k == TRAP_KEY).count()));
        }
    }
    let term = format!("({}, {}, {}, None, {})", coq_prog(p), coq::opt(trapkey), coq::b(unordered || has_async(p)), out.coq());
    let json = format!(
        "{{\"stream\":{},\"script\":{},\"observed\":{}}}",
        json_str(stream),
        json_str(text),
        json_str(&out.show())
    );
    let key = match out {
        ImplOut::Ok(tr, _) if !tr.is_empty() => Some(format!("{stream}:{}", coq_prog(p))),
        _ => None,
    };
    w.push(&term, &json, tags, key);
}

// ---------------------------------------------------------------------------
// The real binary: `yash3` built from the repository under test
// ---------------------------------------------------------------------------

/// Builds the real shell binary from $YV_REPO (default /repo); returns its path.
/// A build failure is a harness error, not a verdict.
fn build_yash3() -> String {
    let repo = std::env::var("YV_REPO").unwrap_or_else(|_| "/repo".to_string());
    let target = std::env::var("CARGO_TARGET_DIR").unwrap_or_else(|_| "/verif/.cache/target".to_string());
    let target = format!("{target}/yash3");
    let out = std::process::Command::new("cargo")
        .args(["build", "--offline", "--locked", "-p", "yash-cli", "--manifest-path"])
        .arg(format!("{repo}/Cargo.toml"))
        .env("CARGO_TARGET_DIR", &target)
        .env("CARGO_NET_OFFLINE", "true")
        .output()
        .expect("cargo");
    if !out.status.success() {
        eprintln!("building yash3 failed:\n{}", String::from_utf8_lossy(&out.stderr));
        std::process::exit(3);
    }
    format!("{target}/debug/yash3")
}

/// `probe`, `true`, `false` do not exist in the real binary (no external
/// utilities: PATH is empty): they are defined as functions whose effect is
/// visible in the file system.  `probe K [S]` appends one line to the file
/// `m.K.$?` and returns S.
const REAL_PRELUDE: &str = "probe() { _s=$?; umask >>\"m.$1.$_s\"; return ${2:-0}; }\n\
true() { return 0; }\nfalse() { return 1; }\n";

/// Runs the script with the real binary in a fresh scratch directory; returns
/// the exit status and, sorted, how often each (key, `$?`) pair was probed.
fn run_real(yash3: &str, dir: &std::path::Path, script: &str) -> ImplOut {
    use std::io::Read as _;
    use std::os::unix::process::CommandExt as _;
    use std::process::Stdio;
    use std::time::{Duration, Instant};
    let _ = std::fs::remove_dir_all(dir);
    std::fs::create_dir_all(dir).expect("scratch directory");
    let full = format!("{REAL_PRELUDE}{script}");
    let mut cmd = std::process::Command::new(yash3);
    cmd.arg("-c")
        .arg(&full)
        .current_dir(dir)
        .env_clear()
        .env("PATH", "")
        .process_group(0)
        .stdin(Stdio::null())
        .stdout(Stdio::null())
        .stderr(Stdio::piped());
    let mut child = cmd.spawn().expect("spawn yash3");
    let mut err = child.stderr.take().unwrap();
    let th = std::thread::spawn(move || {
        let mut b = vec![];
        let _ = err.read_to_end(&mut b);
        b
    });
    let t0 = Instant::now();
    let status = loop {
        match child.try_wait() {
            Ok(Some(st)) => break st,
            Ok(None) => {
                if t0.elapsed() > Duration::from_secs(30) {
                    let _ = child.kill();
                    let _ = child.wait();
                    eprintln!("yash3 timed out (harness error, not a verdict) on:\n{full}");
                    std::process::exit(3);
                }
                std::thread::sleep(Duration::from_millis(1));
            }
            Err(e) => {
                eprintln!("waiting for yash3 failed: {e}");
                std::process::exit(3);
            }
        }
    };
    // subshells may outlive nothing here (no asynchronous commands); do not wait for ever anyway
    let t1 = Instant::now();
    while !th.is_finished() && t1.elapsed() < Duration::from_secs(2) {
        std::thread::sleep(Duration::from_millis(1));
    }
    let Some(code) = status.code() else {
        return ImplOut::Crash(format!("yash3 was killed by a signal: {status:?}"));
    };
    let mut items: Vec<(u64, i64)> = vec![];
    for e in std::fs::read_dir(dir).expect("read scratch directory") {
        let e = e.unwrap();
        let name = e.file_name().to_string_lossy().into_owned();
        let parts: Vec<&str> = name.split('.').collect();
        if parts.len() == 3 && parts[0] == "m" {
            let (Ok(k), Ok(s)) = (parts[1].parse::<u64>(), parts[2].parse::<i64>()) else {
                return ImplOut::Crash(format!("unexpected file {name}"));
            };
            let lines = std::fs::read(e.path()).map(|b| b.iter().filter(|c| **c == b'\n').count()).unwrap_or(0);
            for _ in 0..lines {
                items.push((k, s));
            }
        } else {
            return ImplOut::Crash(format!("unexpected file {name}"));
        }
    }
    items.sort();
    let _ = std::fs::remove_dir_all(dir);
    ImplOut::Ok(items, code as i64)
}

/// Does the script use something that only exists in the simulated shell?
fn real_compatible(p: &Prog) -> bool {
    // `command probe ...` / `command true` would bypass the functions of the prelude
    let t = coq_prog(p);
    !(t.contains("(mkDeco false true) NProbe")
        || t.contains("(mkDeco true true) NProbe")
        || t.contains("true) NTrue")
        || t.contains("true) NFalse"))
}

fn trap_line() -> Line {
    Line::Cmd(l1(Cmd::TrapExit(l1(probe(TRAP_KEY, 0)))))
}

fn main() {
    let args = Args::parse();
    let mut rng = Rng::new(args.seed);
    let mut w = CasesWriter::new(&args, "Yv.C10.Run", 60);
    let thorough = args.thorough();

    // ---- planted: category x position x errexit x trap --------------------
    let vs = victims();
    let mut planted: Vec<(String, Prog, bool)> = vec![];
    for vi in &vs {
        for (cname, lines, infun) in contexts(&vi.cmd) {
            if vi.needs_fun && !infun {
                continue;
            }
            for (errexit, monitor) in [(false, false), (true, false), (true, true), (false, true)] {
                for trap in [false, true] {
                    let mut p: Prog = vec![];
                    if trap {
                        p.push(trap_line());
                    }
                    if errexit {
                        p.push(Line::Cmd(l1(call(Name::Set, &[1]))));
                    }
                    if monitor {
                        // job control on in a non-interactive shell must not change when it aborts
                        p.push(Line::Cmd(l1(call(Name::Set, &[3]))));
                    }
                    if vi.readonly {
                        p.push(Line::Cmd(l1(Cmd::Readonly(1))));
                    }
                    for c in &vi.setup {
                        p.push(Line::Cmd(l1(c.clone())));
                    }
                    // f1() { probe 60; return 3; }
                    p.push(Line::Cmd(l1(Cmd::FunDef(
                        Name::User(1),
                        Box::new(Cmd::Brace(seq(vec![probe(60, 0), call(Name::Return, &[3])]))),
                    ))));
                    for l in &lines {
                        p.push(Line::Cmd(l.clone()));
                    }
                    planted.push((
                        format!("{} / {} / errexit {} / trap {}{}", vi.name, cname, errexit, trap, if monitor { " / monitor" } else { "" }),
                        p,
                        trap,
                    ));
                }
            }
        }
    }
    // syntax error lines
    for errexit in [false, true] {
        for trap in [false, true] {
            let mut p: Prog = vec![];
            if trap {
                p.push(trap_line());
            }
            if errexit {
                p.push(Line::Cmd(l1(call(Name::Set, &[1]))));
            }
            p.push(Line::Cmd(l1(probe(1, 3))));
            p.push(Line::SyntaxError);
            p.push(Line::Cmd(l1(probe(2, 0))));
            planted.push((format!("syntax error / own line / errexit {errexit} / trap {trap}"), p, trap));
        }
    }
    // the EXIT trap action itself contains the failing command
    for vi in &vs {
        if vi.needs_fun {
            continue;
        }
        for errexit in [false, true] {
            let mut p: Prog = vec![];
            p.push(Line::Cmd(l1(Cmd::TrapExit(seq(vec![probe(TRAP_KEY, 5), vi.cmd.clone(), probe(70, 0)])))));
            if errexit {
                p.push(Line::Cmd(l1(call(Name::Set, &[1]))));
            }
            if vi.readonly {
                p.push(Line::Cmd(l1(Cmd::Readonly(1))));
            }
            for c in &vi.setup {
                p.push(Line::Cmd(l1(c.clone())));
            }
            p.push(Line::Cmd(l1(Cmd::FunDef(
                Name::User(1),
                Box::new(Cmd::Brace(seq(vec![probe(60, 0), call(Name::Return, &[3])]))),
            ))));
            p.push(Line::Cmd(l1(probe(1, 4))));
            planted.push((format!("{} / inside the EXIT trap action / errexit {errexit}", vi.name), p, true));
        }
    }

    // a shell error inside the EXIT trap action: the exit status is the error
    // status 2, not the stale `$?` (defect of yash-rs repaired by commit 52e95c4)
    for st in [0u64, 5] {
        planted.push((
            format!("expansion error / minimal, inside the EXIT trap action, $?={st} / errexit false"),
            vec![
                Line::Cmd(l1(Cmd::TrapExit(seq(vec![probe(TRAP_KEY, st), Cmd::Assign(0, Word::Req(2)), probe(70, 0)])))),
                Line::Cmd(l1(probe(1, 0))),
            ],
            true,
        ));
    }
    // `${x?}` of a variable that is set but empty is not an error
    planted.push((
        "succeeds / ${x?} of an empty variable / errexit false / trap false".into(),
        vec![
            Line::Cmd(l1(Cmd::Assign(0, Word::Var(2)))),
            Line::Cmd(l1(Cmd::Assign(1, Word::Req(0)))),
            Line::Cmd(l1(Cmd::For(1, vec![Word::Req(0), Word::Lit(1)], l1(probe(1, 0))))),
            Line::Cmd(l1(Cmd::Assign(1, Word::Req(2)))),
            Line::Cmd(l1(probe(2, 0))),
        ],
        false,
    ));
    let total_planted = planted.len();
    let take = if thorough { total_planted } else { 900 };
    // quick: the small special groups (trap action, syntax errors, own traps,
    // hand-written) always, plus a random sample of the big matrix
    let mut idx: Vec<usize> = (0..total_planted).collect();
    if take < total_planted {
        let always = |name: &str| {
            name.contains("inside the EXIT trap action")
                || name.contains("syntax error")
                || name.contains("own EXIT trap")
                || name.contains("${x?} of an empty")
                || (name.contains("errexit set") && name.contains("trap true") && !name.contains("monitor")
                    && (name.starts_with("false /") || name.starts_with("subshell fails /") || name.starts_with("break 0 /")))
                || name.contains("minimal, inside the EXIT trap")
                || ((name.contains("same value") || name.contains("its own value") || name.contains("no prior value"))
                    && (name.contains("/ top level /") || name.contains("/ function /")))
        };
        let (mut must, mut rest): (Vec<usize>, Vec<usize>) = idx.iter().partition(|i| always(&planted[**i].0));
        // Fisher-Yates with the run's PRNG
        let mut r = rng.fork(7);
        for i in (1..rest.len()).rev() {
            let j = r.below(i + 1);
            rest.swap(i, j);
        }
        rest.truncate(take.saturating_sub(must.len().min(take / 2)));
        // of the "own EXIT trap" matrix keep a third
        must.retain(|i| !planted[*i].0.contains("own EXIT trap") || i % 3 == 0);
        must.extend(rest);
        must.sort();
        idx = must;
    }
    for i in idx {
        let (name, p, trap) = &planted[i];
        let mut r = rng.fork(1000 + i as u64);
        let vary = r.chance(1, 2);
        let text = render(p, &mut r, vary);
        w.count(&format!("planted:{}", name.split(" / ").next().unwrap()));
        emit10(&mut w, p, &text, "planted", *trap, &[]);
    }

    // ---- the same planted scripts run by the real binary (yash-cli's own
    //      run_as_shell_process, real processes, job control) ---------------
    {
        let yash3 = build_yash3();
        let scratch = std::path::PathBuf::from(format!("/verif/.cache/c10_scratch/{}", args.seed));
        let n_real = if thorough { 1500 } else { 110 };
        let mut cand: Vec<usize> = (0..total_planted).filter(|i| real_compatible(&planted[*i].1)).collect();
        let mut r = rng.fork(9);
        // the combinations named by the property first: EXIT trap set and the
        // shell aborted by a shell error / errexit with job control on
        let prefer = |name: &str| {
            (name.contains("trap true")
                && (name.contains("break 0")
                    || name.contains("exit 1 2")
                    || name.contains("special redirection")
                    || name.contains("exec 3<missing")
                    || name.contains(". missing file")
                    || name.contains("expansion error")
                    || name.contains("assignment error")
                    || name.contains("prefix assignment")
                    || name.contains("syntax error")
                    || name.contains("break (maybe")))
                || name.contains("monitor")
                || name.contains("inside the EXIT trap action")
        };
        for i in (1..cand.len()).rev() {
            let j = r.below(i + 1);
            cand.swap(i, j);
        }
        let (mut pref, mut rest): (Vec<usize>, Vec<usize>) = cand.iter().partition(|i| prefer(&planted[**i].0));
        pref.truncate(n_real * 3 / 4);
        rest.truncate(n_real - pref.len().min(n_real));
        pref.extend(rest);
        pref.sort();
        for i in pref {
            let (name, p, trap) = &planted[i];
            let mut rr = rng.fork(5000 + i as u64);
            let vary = rr.chance(1, 2);
            let text = render(p, &mut rr, vary);
            let out = run_real(&yash3, &scratch.join(format!("{i}")), &text);
            w.count(&format!("real:{}", name.split(" / ").next().unwrap()));
            emit_out(&mut w, p, &text, "real-binary", *trap, true, &out, &[]);
        }
        let _ = std::fs::remove_dir_all(&scratch);
    }

    // ---- extension: further error categories at composed positions ----------
    {
        let mut r = rng.fork(11);
        xtable_stream(&mut w, &mut r, thorough);
    }

    // ---- random programs with error material --------------------------------
    let n = args.scale(500, 20000);
    for k in 0..n {
        let mut r = rng.fork(k as u64 + 100_000);
        let size = 4 + r.below(30) as i32;
        let with_error_sources = r.chance(2, 3);
        let mut p = gen_prog(&mut r, size, false, true);
        if !with_error_sources {
            scrub_error_sources(&mut p);
        }
        let trap = r.chance(1, 2);
        let mut q: Prog = vec![];
        if trap {
            if r.chance(1, 2) {
                q.push(trap_line());
            } else {
                // a random action after the trap's own probe
                let mut g = Gen { rng: &mut r, nodes: 6, next_key: 8000, next_loop_var: 40 };
                let cx = Ctx { depth: 0, infun: false, rank: 4, allow_exit: true, nest: 2, wild: false, errors: true };
                let mut action = vec![simple(probe(TRAP_KEY, g.rng.below(3) as u64))];
                action.extend(g.list(&cx, 1, 2));
                let mut ap: Prog = vec![Line::Cmd(action)];
                scrub_prog(&mut ap);
                let Line::Cmd(action) = ap.pop().unwrap() else { unreachable!() };
                q.push(Line::Cmd(l1(Cmd::TrapExit(action))));
            }
        }
        if r.chance(1, 2) {
            q.push(Line::Cmd(l1(call(Name::Set, &[1]))));
        }
        if r.chance(1, 3) {
            q.push(Line::Cmd(l1(call(Name::Set, &[3]))));
        }
        if with_error_sources && r.chance(1, 4) {
            q.push(Line::Cmd(l1(Cmd::Readonly(r.below(3) as u32))));
        }
        q.extend(p);
        if r.chance(1, 10) {
            let at = 1 + r.below(q.len());
            q.insert(at, Line::SyntaxError);
        }
        let text = render(&q, &mut r, true);
        emit10(&mut w, &q, &text, "random", trap, &[]);
    }
    w.finish(
        "failing commands of every category planted at every kind of position x errexit on/off x EXIT trap \
         yes/no, plus random programs with set -e / failing redirections / command-wrapped built-ins / ${x?} / \
         readonly / syntax-error lines; non-trivial = at least one probe ran; distinct = by AST",
    );
}


// ---------------------------------------------------------------------------
// Extension stream: further categories of shell errors (XCU 2.8.1) planted at
// composed positions.  Mirrors coq/C10/Model.v xerr / position / xscript: the
// Coq side builds the model script from the same (category, command prefix,
// errexit, trap, positions) record; here the REAL commands are rendered.
// ---------------------------------------------------------------------------

/// (Coq constructor, script text)
const XERRS: &[(&str, &str)] = &[
    ("XShiftTooMany", "shift 5"),
    ("XShiftOperand", "shift 1 2"),
    ("XUnsetReadonly", "unset v3"),
    ("XSetBadOption", "set -o nosuchoption"),
    ("XReadonlyReassign", "readonly v3=t1"),
    ("XExportReadonly", "export v3=t1"),
    ("XExportSubstReadonly", "export v3=$(true)"),
    ("XTimesOperand", "times x"),
    ("XReturnOperand", "return x"),
    ("XBreakOperand", "break x"),
    ("XDotNotFound", ". /nonexistent/script"),
    ("XExecNotFound", "exec /nonexistent/cmd"),
    ("XEvalSyntax", "eval 'if'"),
    ("XEvalSpecial", "eval 'shift 5'"),
    ("XTrapBadSignal", "trap '' NOSUCH"),
    ("XExportSubstFails", "export v4=$(exit 3)"),
    ("XExecNotFoundPath", "exec nonexistent_cmd"),
    ("XDotSyntax", ". /synt.sh"),
    ("XDotSpecial", ". /shift.sh"),
    ("XPrefixShiftTooMany", "shift 5"),
    ("XEvalCommandSoft", "eval 'command shift 5'"),
    ("XDotCommandSoft", ". /cshift.sh"),
];

const XPOSITIONS: &[&str] = &[
    "PBrace", "PIfCond", "PAndLeft", "POrLeft", "PNeg", "PFun", "PFunInCond", "PSubshell", "PSubst", "PSubstIgn",
    "PWhileCond", "PUntilCond", "PForBody", "PPipeLast", "PPipeFirst",
];

/// `command exec` of a command that is not found ends a non-interactive shell
/// like plain `exec` does (yash-builtin exec.rs); kept in the stream, recorded
/// in the table (XFatal 127 whatever the prefix).
const X_INCLUDE_COMMAND_EXEC: bool = true;

/// FINDING (reported, not repaired): `exec` of a command that cannot be
/// executed ends a non-interactive shell with Divert::Abort (yash-builtin
/// exec.rs), and yash-cli's run_as_shell_process does not run the EXIT trap
/// for Abort: `trap 'probe 9999' EXIT; exec /nonexistent/cmd` exits with 127
/// without running the trap (a subshell does run its own EXIT trap).  The
/// property and docs/src/termination.md say the trap runs however the shell
/// exits.  With this switch on, those scripts are generated and the table
/// oracle rejects them (code 8).  (Environment variable
/// YV_C10_INCLUDE_EXEC_TRAP=1 switches it on for one run.)
const X_INCLUDE_EXEC_FAILURE_WITH_EXIT_TRAP: bool = true;

fn x_exec_skips_trap(x: &XSpec) -> bool {
    let isolating = ["PSubshell", "PSubst", "PSubstIgn", "PPipeLast", "PPipeFirst"];
    XERRS[x.err].0.starts_with("XExecNotFound") && x.trap && !x.pos.iter().any(|p| isolating.contains(&XPOSITIONS[*p]))
}

fn xwrap(p: &str, i: usize, b: &str) -> String {
    match p {
        "PBrace" => format!("{{ {b}; }}"),
        "PIfCond" => format!("if {b}; then :; fi"),
        "PAndLeft" => format!("{{ {b}; }} && :"),
        "POrLeft" => format!("{{ {b}; }} || :"),
        "PNeg" => format!("! {{ {b}; }}"),
        "PFun" => format!("f{i}() {{ {b}; }}; f{i}"),
        "PFunInCond" => format!("f{i}() {{ {b}; }}; if f{i}; then :; fi"),
        "PSubshell" => format!("( {b} )"),
        "PSubst" => format!("v0=$( {b} )"),
        "PSubstIgn" => format!(": $( {b} )"),
        "PWhileCond" => format!("while {b}; do break; done"),
        "PUntilCond" => format!("until {b}; do break; done"),
        "PForBody" => format!("for v0 in t0; do {b}; done"),
        "PPipeLast" => format!("probe 4 | {{ {b}; }}"),
        "PPipeFirst" => format!("{{ {b}; }} | probe 4"),
        _ => unreachable!(),
    }
}

fn xplant(ps: &[usize], b: &str) -> String {
    match ps.split_first() {
        None => b.to_string(),
        Some((p, rest)) => xwrap(XPOSITIONS[*p], rest.len(), &xplant(rest, b)),
    }
}

struct XSpec {
    err: usize,
    viac: bool,
    errexit: bool,
    trap: bool,
    pos: Vec<usize>,
}

impl XSpec {
    fn coq(&self) -> String {
        format!(
            "(mkX {} {} {} {} [{}])",
            XERRS[self.err].0,
            coq::b(self.viac),
            coq::b(self.errexit),
            coq::b(self.trap),
            self.pos.iter().map(|p| XPOSITIONS[*p]).collect::<Vec<_>>().join("; ")
        )
    }
    fn text(&self) -> String {
        let mut t = String::new();
        if self.trap {
            t.push_str(&format!("trap 'probe {TRAP_KEY}' EXIT\n"));
        }
        // the files sourced by XDotSyntax / XDotSpecial (not part of the model script: nothing observed)
        t.push_str("echo if >/synt.sh\necho 'shift 5' >/shift.sh\necho 'command shift 5' >/cshift.sh\n");
        t.push_str("v3=t0\nreadonly v3\n");
        if self.errexit {
            t.push_str("set -e\n");
        }
        t.push_str("probe 1\n");
        let prefix = if XERRS[self.err].0 == "XPrefixShiftTooMany" { "v9=t0 " } else { "" };
        let victim = format!("{prefix}{}{}", if self.viac { "command " } else { "" }, XERRS[self.err].1);
        t.push_str(&xplant(&self.pos, &format!("{victim}; probe 2")));
        t.push_str("\nprobe 3\n");
        t
    }
}

fn emit_x(w: &mut CasesWriter, x: &XSpec) {
    let text = x.text();
    if std::env::var("YV_DEBUG").is_ok() {
        eprintln!("=== case {}\n{}", w.len(), text);
    }
    let out = run_text(&text);
    w.count("stream:xtable");
    w.count(&format!("xtable category:{}{}{}", if XERRS[x.err].0 == "XPrefixShiftTooMany" { "v9=t0 " } else { "" }, if x.viac { "command " } else { "" }, XERRS[x.err].1));
    w.count(&format!("xtable depth:{}", x.pos.len()));
    for p in &x.pos {
        w.count(&format!("xtable position:{}", XPOSITIONS[*p]));
    }
    if let ImplOut::Ok(tr, st) = &out {
        w.count(&format!("xtable final status:{st}"));
        w.count(&format!("xtable aborted:{}", !tr.iter().any(|(k, _)| *k == 3)));
    }
    let trapkey = if x.trap { Some(coq::n(TRAP_KEY)) } else { None };
    let xs = x.coq();
    let term = format!("(xscript {xs}, {}, false, Some {xs}, {})", coq::opt(trapkey), out.coq());
    let json = format!(
        "{{\"stream\":\"xtable\",\"script\":{},\"observed\":{}}}",
        json_str(&text),
        json_str(&out.show())
    );
    let key = match &out {
        ImplOut::Ok(tr, _) if !tr.is_empty() => Some(format!("xtable:{xs}")),
        _ => None,
    };
    // known finding F47: a failed `exec` in the main shell environment ends the
    // shell with Divert::Abort, which skips the EXIT trap; every case of exactly
    // this class carries the tag (the oracle keeps the strict reading)
    let tags: &[&str] = if x_exec_skips_trap(x) { &["F47"] } else { &[] };
    w.push(&term, &json, tags, key);
}

fn xtable_stream(w: &mut CasesWriter, rng: &mut Rng, thorough: bool) {
    let np = XPOSITIONS.len();
    let mut specs: Vec<XSpec> = vec![];
    // every category x prefix x errexit at top level and at every single position
    for err in 0..XERRS.len() {
        for viac in [false, true] {
            if viac && XERRS[err].0 == "XExecNotFound" && !X_INCLUDE_COMMAND_EXEC {
                continue;
            }
            for errexit in [false, true] {
                let mut poss: Vec<Vec<usize>> = vec![vec![]];
                poss.extend((0..np).map(|p| vec![p]));
                if thorough {
                    for p in 0..np {
                        for q in 0..np {
                            poss.push(vec![p, q]);
                        }
                    }
                }
                for pos in poss {
                    let trap = rng.chance(1, 2);
                    // quick: a third of the single positions (all of them for the plain command with errexit)
                    if !thorough && pos.len() == 1 && !(errexit && !viac) && !rng.chance(1, 3) {
                        continue;
                    }
                    // thorough: half of the nestings of two positions
                    if pos.len() == 2 && !rng.chance(1, 2) {
                        continue;
                    }
                    specs.push(XSpec { err, viac, errexit, trap, pos });
                }
            }
        }
    }
    // random deeper nestings
    let n = if thorough { 3000 } else { 300 };
    for _ in 0..n {
        let depth = 2 + rng.below(3);
        let pos = (0..depth).map(|_| rng.below(np)).collect();
        specs.push(XSpec {
            err: rng.below(XERRS.len()),
            viac: rng.chance(1, 3),
            errexit: rng.chance(2, 3),
            trap: rng.chance(1, 2),
            pos,
        });
    }
    for x in &mut specs {
        if x_exec_skips_trap(x) && !(X_INCLUDE_EXEC_FAILURE_WITH_EXIT_TRAP || std::env::var("YV_C10_INCLUDE_EXEC_TRAP").is_ok()) {
            w.count("xtable: EXIT trap left out (finding: exec failure skips the EXIT trap)");
            x.trap = false;
        }
        emit_x(w, x);
    }
}

fn scrub_error_sources(p: &mut Prog) {
    fn word(w: &mut Word) {
        if let Word::Req(x) = *w {
            *w = Word::Var(x);
        }
    }
    fn list(l: &mut List) {
        for a in l {
            for c in &mut a.first.cmds {
                cmd(c);
            }
            for (_, pl) in &mut a.rest {
                for c in &mut pl.cmds {
                    cmd(c);
                }
            }
        }
    }
    fn cmd(c: &mut Cmd) {
        match c {
            Cmd::Assign(_, w) => word(w),
            Cmd::Readonly(x) => *c = Cmd::Assign(*x, Word::Lit(0)),
            Cmd::Call(..) | Cmd::PrefixCall(..) => {}
            Cmd::Brace(l) | Cmd::Subshell(l) | Cmd::TrapExit(l) | Cmd::AssignSub(_, l) | Cmd::SubstArg(l) => list(l),
            Cmd::Async(a) => {
                let mut l = vec![(**a).clone()];
                list(&mut l);
                **a = l.pop().unwrap();
            }
            Cmd::If(c1, b, elifs, els) => {
                list(c1);
                list(b);
                for (c2, b2) in elifs {
                    list(c2);
                    list(b2);
                }
                if let Some(e) = els {
                    list(e);
                }
            }
            Cmd::While(_, c1, b) => {
                list(c1);
                list(b);
            }
            Cmd::For(_, ws, b) => {
                for w in ws {
                    word(w);
                }
                list(b)
            }
            Cmd::Case(w, items) => {
                word(w);
                for (_, b, _) in items {
                    list(b);
                }
            }
            Cmd::FunDef(_, b) => cmd(b),
            Cmd::RedirFail(c) => cmd(c),
        }
    }
    for l in p {
        if let Line::Cmd(l) = l {
            list(l);
        }
    }
}
