//! C10 — the shell aborts exactly when errexit or a shell error says so.
//!
//! Same language, model and runner as C02 (`c02.rs` is included as a module).
//! Streams:
//!   * planted: every category of failing command at every kind of syntactic
//!     position, with errexit on/off and with/without an EXIT trap;
//!   * random: random programs with `set -e`/`set +e`, failing redirections,
//!     `command`-wrapped built-ins, `${x?}` expansions, optional EXIT trap.
//! Compared: probe trace up to the abort point, final exit status, number of
//! runs of the EXIT trap action (its probe key).
#![allow(dead_code)]

#[path = "c02.rs"]
mod c02;

use c02::*;
use yv_harness::cli::Args;
use yv_harness::out::CasesWriter;
use yv_harness::rng::Rng;
use yv_harness::{coq, json_str};

const TRAP_KEY: u64 = 9999;

fn l1(c: Cmd) -> List {
    vec![simple(c)]
}
fn seq(cs: Vec<Cmd>) -> List {
    cs.into_iter().map(simple).collect()
}
fn pipe1(c: Cmd) -> Pipeline {
    Pipeline { neg: false, cmds: vec![c] }
}
fn bad() -> Deco {
    Deco { bad_redir: true, via_command: false }
}
fn via() -> Deco {
    Deco { bad_redir: false, via_command: true }
}

/// A failing command of some category.  `needs`: 0 nothing, 1 must be inside a function.
struct Victim {
    name: &'static str,
    cmd: Cmd,
    needs_fun: bool,
    /// needs `readonly v1` first (assignment error)
    readonly: bool,
    /// contains `${x?}`
    expansion: bool,
}

fn victims() -> Vec<Victim> {
    let v = |name: &'static str, cmd: Cmd| Victim { name, cmd, needs_fun: false, readonly: false, expansion: false };
    vec![
        v("probe fails", probe(50, 3)),
        v("false", call(Name::False, &[])),
        v("not found", call(Name::User(9), &[])),
        v("function fails", call(Name::User(1), &[])), // f1() { probe 60; return 3; }
        v("subshell fails", Cmd::Subshell(seq(vec![probe(51, 0), call(Name::Exit, &[3])]))),
        v(
            "pipeline fails",
            Cmd::Brace(vec![AndOr {
                first: Pipeline { neg: false, cmds: vec![probe(52, 0), probe(53, 3)] },
                rest: vec![],
            }]),
        ),
        v("negated success", Cmd::Brace(vec![AndOr { first: Pipeline { neg: true, cmds: vec![probe(54, 0)] }, rest: vec![] }])),
        v("break 0", call(Name::Break, &[0])),
        v("continue 1 2", call(Name::Continue, &[1, 2])),
        v("exit 1 2", call(Name::Exit, &[1, 2])),
        Victim { name: "return 1 2", cmd: call(Name::Return, &[1, 2]), needs_fun: true, readonly: false, expansion: false },
        v("break (maybe outside a loop)", call(Name::Break, &[])),
        v("special redirection", Cmd::Call(bad(), Name::Colon, vec![])),
        v("special redirection (set)", Cmd::Call(bad(), Name::Set, vec![1])),
        v("regular redirection", Cmd::Call(bad(), Name::Probe, vec![55])),
        v("function redirection", Cmd::Call(bad(), Name::User(1), vec![])),
        v("not found + redirection", Cmd::Call(bad(), Name::User(9), vec![])),
        v("compound redirection", Cmd::RedirFail(Box::new(Cmd::Brace(l1(probe(56, 0)))))),
        Victim { name: "expansion error (assignment)", cmd: Cmd::Assign(0, Word::Req(2)), needs_fun: false, readonly: false, expansion: true },
        Victim {
            name: "expansion error (for)",
            cmd: Cmd::For(0, vec![Word::Lit(0), Word::Req(2)], l1(probe(57, 0))),
            needs_fun: false,
            readonly: false,
            expansion: true,
        },
        Victim {
            name: "expansion error (case)",
            cmd: Cmd::Case(Word::Req(2), vec![(vec![Pat::Star], l1(probe(58, 0)), Cont::Break)]),
            needs_fun: false,
            readonly: false,
            expansion: true,
        },
        Victim { name: "assignment error", cmd: Cmd::Assign(1, Word::Lit(0)), needs_fun: false, readonly: true, expansion: false },
        Victim {
            name: "assignment error (for)",
            cmd: Cmd::For(1, vec![Word::Lit(0)], l1(probe(59, 0))),
            needs_fun: false,
            readonly: true,
            expansion: false,
        },
        v("command break 0", Cmd::Call(via(), Name::Break, vec![0])),
        v("command exit 1 2", Cmd::Call(via(), Name::Exit, vec![1, 2])),
        v("command not found", Cmd::Call(via(), Name::User(9), vec![])),
        v("command : redirection", Cmd::Call(Deco { bad_redir: true, via_command: true }, Name::Colon, vec![])),
        v("command probe fails", Cmd::Call(via(), Name::Probe, vec![61, 4])),
        v("command function (not searched)", Cmd::Call(via(), Name::User(1), vec![])),
        v("exit 3", call(Name::Exit, &[3])),
        v("exit", Cmd::Brace(seq(vec![probe(62, 6), call(Name::Exit, &[])]))),
        Victim { name: "return 3", cmd: call(Name::Return, &[3]), needs_fun: true, readonly: false, expansion: false },
        v("succeeds", probe(63, 0)),
    ]
}

/// Syntactic positions.  Returns the lines and whether the victim sits inside a function body.
fn contexts(v: &Cmd) -> Vec<(&'static str, Vec<List>, bool)> {
    let v = || v.clone();
    let f0 = |body: List| Cmd::FunDef(Name::User(0), Box::new(Cmd::Brace(body)));
    let andor = |first: Pipeline, rest: Vec<(bool, Pipeline)>| AndOr { first, rest };
    let counter_loop = |until: bool, body: List| -> Cmd {
        // v10=a; while case $v10 in a) v10=b;; *) ! :;; esac; do body; done
        let step = Cmd::Case(
            Word::Var(10),
            vec![
                (vec![Pat::Lit(0)], l1(Cmd::Assign(10, Word::Lit(1))), Cont::Break),
                (vec![Pat::Lit(1)], l1(Cmd::Assign(10, Word::Lit(2))), Cont::Break),
                (vec![Pat::Star], vec![andor(Pipeline { neg: true, cmds: vec![call(Name::Colon, &[])] }, vec![])], Cont::Break),
            ],
        );
        let cond = vec![andor(Pipeline { neg: until, cmds: vec![step] }, vec![])];
        Cmd::Brace(seq(vec![Cmd::Assign(10, Word::Lit(0)), Cmd::While(until, cond, body)]))
    };
    vec![
        ("top level", vec![seq(vec![probe(1, 0), v(), probe(2, 0)])], false),
        ("own line", vec![l1(probe(1, 0)), l1(v()), l1(probe(2, 0))], false),
        ("if condition", vec![l1(Cmd::If(seq(vec![v()]), l1(probe(2, 0)), vec![], Some(l1(probe(3, 0))))), l1(probe(4, 0))], false),
        ("if condition, not last", vec![l1(Cmd::If(seq(vec![v(), probe(1, 0)]), l1(probe(2, 0)), vec![], None)), l1(probe(4, 0))], false),
        ("if body", vec![l1(Cmd::If(l1(probe(1, 0)), seq(vec![v(), probe(2, 0)]), vec![], None)), l1(probe(3, 0))], false),
        ("else body", vec![l1(Cmd::If(l1(probe(1, 1)), l1(probe(5, 0)), vec![], Some(seq(vec![v(), probe(2, 0)])))), l1(probe(3, 0))], false),
        (
            "elif condition",
            vec![l1(Cmd::If(l1(probe(1, 1)), l1(probe(5, 0)), vec![(seq(vec![v()]), l1(probe(2, 0)))], None)), l1(probe(3, 0))],
            false,
        ),
        ("while condition", vec![l1(Cmd::While(false, seq(vec![v()]), seq(vec![probe(2, 0), call(Name::Break, &[])]))), l1(probe(3, 0))], false),
        ("until condition", vec![l1(Cmd::While(true, seq(vec![v()]), seq(vec![probe(2, 0), call(Name::Break, &[])]))), l1(probe(3, 0))], false),
        ("while body", vec![l1(counter_loop(false, seq(vec![probe(1, 0), v(), probe(2, 0)]))), l1(probe(3, 0))], false),
        ("until body", vec![l1(counter_loop(true, seq(vec![v(), probe(2, 0)]))), l1(probe(3, 0))], false),
        ("for body", vec![l1(Cmd::For(0, vec![Word::Lit(0), Word::Lit(1)], seq(vec![probe(1, 0), v(), probe(2, 0)]))), l1(probe(3, 0))], false),
        ("and-or first", vec![vec![andor(pipe1(v()), vec![(true, pipe1(probe(2, 0)))])], l1(probe(3, 0))], false),
        ("and-or first (or)", vec![vec![andor(pipe1(v()), vec![(false, pipe1(probe(2, 0)))])], l1(probe(3, 0))], false),
        (
            "and-or middle",
            vec![vec![andor(pipe1(probe(1, 0)), vec![(true, pipe1(v())), (false, pipe1(probe(2, 0)))])], l1(probe(3, 0))],
            false,
        ),
        ("and-or last", vec![vec![andor(pipe1(probe(1, 0)), vec![(true, pipe1(v()))])], l1(probe(3, 0))], false),
        ("and-or last after or", vec![vec![andor(pipe1(probe(1, 2)), vec![(false, pipe1(v()))])], l1(probe(3, 0))], false),
        ("negated", vec![vec![andor(Pipeline { neg: true, cmds: vec![v()] }, vec![])], l1(probe(2, 0))], false),
        ("negated group", vec![vec![andor(Pipeline { neg: true, cmds: vec![Cmd::Brace(seq(vec![v(), probe(1, 0)]))] }, vec![])], l1(probe(2, 0))], false),
        ("brace group", vec![l1(Cmd::Brace(seq(vec![v(), probe(1, 0)]))), l1(probe(2, 0))], false),
        (
            "brace group in condition",
            vec![l1(Cmd::If(l1(Cmd::Brace(seq(vec![v(), probe(1, 0)]))), l1(probe(2, 0)), vec![], None)), l1(probe(3, 0))],
            false,
        ),
        ("function", vec![l1(f0(seq(vec![probe(1, 0), v(), probe(2, 0)]))), l1(call(Name::User(0), &[])), l1(probe(3, 0))], true),
        (
            "function called in a condition",
            vec![
                l1(f0(seq(vec![v(), probe(1, 0)]))),
                l1(Cmd::If(l1(call(Name::User(0), &[])), l1(probe(2, 0)), vec![], None)),
                l1(probe(3, 0)),
            ],
            true,
        ),
        (
            "function called in and-or, not last",
            vec![
                l1(f0(seq(vec![v(), probe(1, 0)]))),
                vec![andor(pipe1(call(Name::User(0), &[])), vec![(false, pipe1(probe(2, 0)))])],
                l1(probe(3, 0)),
            ],
            true,
        ),
        (
            "function called negated in a loop",
            vec![
                l1(f0(seq(vec![v(), probe(1, 0)]))),
                l1(Cmd::For(0, vec![Word::Lit(0)], vec![andor(Pipeline { neg: true, cmds: vec![call(Name::User(0), &[])] }, vec![]), simple(probe(2, 0))])),
                l1(probe(3, 0)),
            ],
            true,
        ),
        ("subshell", vec![l1(Cmd::Subshell(seq(vec![probe(1, 0), v(), probe(2, 0)]))), l1(probe(3, 0))], false),
        (
            "subshell in condition",
            vec![l1(Cmd::If(l1(Cmd::Subshell(seq(vec![v(), probe(1, 0)]))), l1(probe(2, 0)), vec![], None)), l1(probe(3, 0))],
            false,
        ),
        (
            "pipeline, first command",
            vec![vec![andor(Pipeline { neg: false, cmds: vec![Cmd::Brace(seq(vec![v(), probe(1, 0)])), probe(2, 0)] }, vec![])], l1(probe(3, 0))],
            false,
        ),
        (
            "pipeline, last command",
            vec![vec![andor(Pipeline { neg: false, cmds: vec![probe(1, 0), Cmd::Brace(seq(vec![v(), probe(2, 0)]))] }, vec![])], l1(probe(3, 0))],
            false,
        ),
        (
            "pipeline, last command bare",
            vec![vec![andor(Pipeline { neg: false, cmds: vec![probe(1, 0), v()] }, vec![])], l1(probe(3, 0))],
            false,
        ),
        (
            "case clause",
            vec![l1(Cmd::Case(Word::Lit(0), vec![(vec![Pat::Lit(0)], seq(vec![v(), probe(1, 0)]), Cont::Fall), (vec![Pat::Lit(1)], l1(probe(2, 0)), Cont::Break)])), l1(probe(3, 0))],
            false,
        ),
        (
            "errexit set inside the function only",
            vec![l1(f0(seq(vec![call(Name::Set, &[1]), v(), probe(1, 0)]))), l1(call(Name::User(0), &[])), l1(probe(3, 0))],
            true,
        ),
        (
            "errexit set inside the subshell only",
            vec![l1(Cmd::Subshell(seq(vec![call(Name::Set, &[1]), v(), probe(1, 0)]))), l1(probe(3, 0))],
            false,
        ),
        ("errexit switched off again", vec![seq(vec![call(Name::Set, &[1]), call(Name::Set, &[0]), v(), probe(1, 0)]), l1(probe(3, 0))], false),
        (
            "subshell with its own EXIT trap",
            vec![l1(Cmd::Subshell(seq(vec![Cmd::TrapExit(l1(probe(9998, 0))), probe(1, 0), v(), probe(2, 0)]))), l1(probe(3, 0))],
            false,
        ),
        (
            "pipeline command with its own EXIT trap",
            vec![
                vec![andor(
                    Pipeline {
                        neg: false,
                        cmds: vec![Cmd::Brace(seq(vec![Cmd::TrapExit(l1(probe(9998, 7))), v(), probe(1, 0)])), probe(2, 0)],
                    },
                    vec![],
                )],
                l1(probe(3, 0)),
            ],
            false,
        ),
        (
            "nested: loop, function, and-or, group",
            vec![
                l1(f0(vec![andor(pipe1(Cmd::Brace(seq(vec![v(), probe(1, 0)]))), vec![(true, pipe1(probe(2, 0)))]), simple(probe(4, 0))])),
                l1(Cmd::For(0, vec![Word::Lit(0), Word::Lit(1)], seq(vec![call(Name::User(0), &[]), probe(5, 0)]))),
                l1(probe(3, 0)),
            ],
            true,
        ),
    ]
}

fn has_error_sources(p: &Prog) -> bool {
    let t = coq_prog(p);
    t.contains("WReq") || t.contains("CReadonly")
}

fn emit10(w: &mut CasesWriter, p: &Prog, text: &str, stream: &str, trap: bool, tags: &[&str]) {
    if std::env::var("YV_DEBUG").is_ok() {
        eprintln!("=== case {}\n{}", w.len(), text);
    }
    let out = run_text(text);
    count_constructs(p, w);
    w.count(&format!("stream:{stream}"));
    let trapkey = if trap { Some(coq::n(TRAP_KEY)) } else { None };
    if let ImplOut::Ok(tr, st) = &out {
        w.count(if *st == 0 { "final status:0" } else { "final status:nonzero" });
        if trap {
            w.count(&format!("exit trap runs:{}", tr.iter().filter(|(k, _)| *k == TRAP_KEY).count()));
        }
    }
    let term = format!("({}, {}, {})", coq_prog(p), coq::opt(trapkey), out.coq());
    let json = format!(
        "{{\"stream\":{},\"script\":{},\"observed\":{}}}",
        json_str(stream),
        json_str(text),
        json_str(&out.show())
    );
    let key = match &out {
        ImplOut::Ok(tr, _) if !tr.is_empty() => Some(coq_prog(p)),
        _ => None,
    };
    w.push(&term, &json, tags, key);
}

fn trap_line() -> Line {
    Line::Cmd(l1(Cmd::TrapExit(l1(probe(TRAP_KEY, 0)))))
}

fn main() {
    let args = Args::parse();
    let mut rng = Rng::new(args.seed);
    let mut w = CasesWriter::new(&args, "Yv.C10.Run", 60);
    let thorough = args.thorough();

    // ---- planted: category x position x errexit x trap --------------------
    let vs = victims();
    let mut planted: Vec<(String, Prog, bool)> = vec![];
    for vi in &vs {
        for (cname, lines, infun) in contexts(&vi.cmd) {
            if vi.needs_fun && !infun {
                continue;
            }
            for errexit in [false, true] {
                for trap in [false, true] {
                    let mut p: Prog = vec![];
                    if trap {
                        p.push(trap_line());
                    }
                    if errexit {
                        p.push(Line::Cmd(l1(call(Name::Set, &[1]))));
                    }
                    if vi.readonly {
                        p.push(Line::Cmd(l1(Cmd::Readonly(1))));
                    }
                    // f1() { probe 60; return 3; }
                    p.push(Line::Cmd(l1(Cmd::FunDef(
                        Name::User(1),
                        Box::new(Cmd::Brace(seq(vec![probe(60, 0), call(Name::Return, &[3])]))),
                    ))));
                    for l in &lines {
                        p.push(Line::Cmd(l.clone()));
                    }
                    planted.push((
                        format!("{} / {} / errexit {} / trap {}", vi.name, cname, errexit, trap),
                        p,
                        trap,
                    ));
                }
            }
        }
    }
    // syntax error lines
    for errexit in [false, true] {
        for trap in [false, true] {
            let mut p: Prog = vec![];
            if trap {
                p.push(trap_line());
            }
            if errexit {
                p.push(Line::Cmd(l1(call(Name::Set, &[1]))));
            }
            p.push(Line::Cmd(l1(probe(1, 3))));
            p.push(Line::SyntaxError);
            p.push(Line::Cmd(l1(probe(2, 0))));
            planted.push((format!("syntax error / own line / errexit {errexit} / trap {trap}"), p, trap));
        }
    }
    // the EXIT trap action itself contains the failing command
    for vi in &vs {
        if vi.needs_fun {
            continue;
        }
        for errexit in [false, true] {
            let mut p: Prog = vec![];
            p.push(Line::Cmd(l1(Cmd::TrapExit(seq(vec![probe(TRAP_KEY, 5), vi.cmd.clone(), probe(70, 0)])))));
            if errexit {
                p.push(Line::Cmd(l1(call(Name::Set, &[1]))));
            }
            if vi.readonly {
                p.push(Line::Cmd(l1(Cmd::Readonly(1))));
            }
            p.push(Line::Cmd(l1(Cmd::FunDef(
                Name::User(1),
                Box::new(Cmd::Brace(seq(vec![probe(60, 0), call(Name::Return, &[3])]))),
            ))));
            p.push(Line::Cmd(l1(probe(1, 4))));
            planted.push((format!("{} / inside the EXIT trap action / errexit {errexit}", vi.name), p, true));
        }
    }

    // a shell error inside the EXIT trap action: the exit status is the error
    // status 2, not the stale `$?` (defect of yash-rs repaired by commit 52e95c4)
    for st in [0u64, 5] {
        planted.push((
            format!("expansion error / minimal, inside the EXIT trap action, $?={st} / errexit false"),
            vec![
                Line::Cmd(l1(Cmd::TrapExit(seq(vec![probe(TRAP_KEY, st), Cmd::Assign(0, Word::Req(2)), probe(70, 0)])))),
                Line::Cmd(l1(probe(1, 0))),
            ],
            true,
        ));
    }
    // `${x?}` of a variable that is set but empty is not an error
    planted.push((
        "succeeds / ${x?} of an empty variable / errexit false / trap false".into(),
        vec![
            Line::Cmd(l1(Cmd::Assign(0, Word::Var(2)))),
            Line::Cmd(l1(Cmd::Assign(1, Word::Req(0)))),
            Line::Cmd(l1(Cmd::For(1, vec![Word::Req(0), Word::Lit(1)], l1(probe(1, 0))))),
            Line::Cmd(l1(Cmd::Assign(1, Word::Req(2)))),
            Line::Cmd(l1(probe(2, 0))),
        ],
        false,
    ));
    let total_planted = planted.len();
    let take = if thorough { total_planted } else { 900 };
    // quick: the small special groups (trap action, syntax errors, own traps,
    // hand-written) always, plus a random sample of the big matrix
    let mut idx: Vec<usize> = (0..total_planted).collect();
    if take < total_planted {
        let always = |name: &str| {
            name.contains("inside the EXIT trap action")
                || name.contains("syntax error")
                || name.contains("own EXIT trap")
                || name.contains("${x?} of an empty")
                || name.contains("minimal, inside the EXIT trap")
        };
        let (mut must, mut rest): (Vec<usize>, Vec<usize>) = idx.iter().partition(|i| always(&planted[**i].0));
        // Fisher-Yates with the run's PRNG
        let mut r = rng.fork(7);
        for i in (1..rest.len()).rev() {
            let j = r.below(i + 1);
            rest.swap(i, j);
        }
        rest.truncate(take.saturating_sub(must.len().min(take / 2)));
        // of the "own EXIT trap" matrix keep a third
        must.retain(|i| !planted[*i].0.contains("own EXIT trap") || i % 3 == 0);
        must.extend(rest);
        must.sort();
        idx = must;
    }
    for i in idx {
        let (name, p, trap) = &planted[i];
        let mut r = rng.fork(1000 + i as u64);
        let vary = r.chance(1, 2);
        let text = render(p, &mut r, vary);
        w.count(&format!("planted:{}", name.split(" / ").next().unwrap()));
        emit10(&mut w, p, &text, "planted", *trap, &[]);
    }

    // ---- random programs with error material --------------------------------
    let n = args.scale(500, 20000);
    for k in 0..n {
        let mut r = rng.fork(k as u64 + 100_000);
        let size = 4 + r.below(30) as i32;
        let with_error_sources = r.chance(2, 3);
        let mut p = gen_prog(&mut r, size, false, true);
        if !with_error_sources {
            scrub_error_sources(&mut p);
        }
        let trap = r.chance(1, 2);
        let mut q: Prog = vec![];
        if trap {
            if r.chance(1, 2) {
                q.push(trap_line());
            } else {
                // a random action after the trap's own probe
                let mut g = Gen { rng: &mut r, nodes: 6, next_key: 8000, next_loop_var: 40 };
                let cx = Ctx { depth: 0, infun: false, rank: 4, allow_exit: true, nest: 2, wild: false, errors: true };
                let mut action = vec![simple(probe(TRAP_KEY, g.rng.below(3) as u64))];
                action.extend(g.list(&cx, 1, 2));
                let mut ap: Prog = vec![Line::Cmd(action)];
                scrub_prog(&mut ap);
                let Line::Cmd(action) = ap.pop().unwrap() else { unreachable!() };
                q.push(Line::Cmd(l1(Cmd::TrapExit(action))));
            }
        }
        if r.chance(1, 2) {
            q.push(Line::Cmd(l1(call(Name::Set, &[1]))));
        }
        if with_error_sources && r.chance(1, 4) {
            q.push(Line::Cmd(l1(Cmd::Readonly(r.below(3) as u32))));
        }
        q.extend(p);
        if r.chance(1, 10) {
            let at = 1 + r.below(q.len());
            q.insert(at, Line::SyntaxError);
        }
        let text = render(&q, &mut r, true);
        emit10(&mut w, &q, &text, "random", trap, &[]);
    }
    w.finish(
        "failing commands of every category planted at every kind of position x errexit on/off x EXIT trap \
         yes/no, plus random programs with set -e / failing redirections / command-wrapped built-ins / ${x?} / \
         readonly / syntax-error lines; non-trivial = at least one probe ran; distinct = by AST",
    );
}

fn scrub_error_sources(p: &mut Prog) {
    fn word(w: &mut Word) {
        if let Word::Req(x) = *w {
            *w = Word::Var(x);
        }
    }
    fn list(l: &mut List) {
        for a in l {
            for c in &mut a.first.cmds {
                cmd(c);
            }
            for (_, pl) in &mut a.rest {
                for c in &mut pl.cmds {
                    cmd(c);
                }
            }
        }
    }
    fn cmd(c: &mut Cmd) {
        match c {
            Cmd::Assign(_, w) => word(w),
            Cmd::Readonly(x) => *c = Cmd::Assign(*x, Word::Lit(0)),
            Cmd::Call(..) => {}
            Cmd::Brace(l) | Cmd::Subshell(l) | Cmd::TrapExit(l) => list(l),
            Cmd::If(c1, b, elifs, els) => {
                list(c1);
                list(b);
                for (c2, b2) in elifs {
                    list(c2);
                    list(b2);
                }
                if let Some(e) = els {
                    list(e);
                }
            }
            Cmd::While(_, c1, b) => {
                list(c1);
                list(b);
            }
            Cmd::For(_, ws, b) => {
                for w in ws {
                    word(w);
                }
                list(b)
            }
            Cmd::Case(w, items) => {
                word(w);
                for (_, b, _) in items {
                    list(b);
                }
            }
            Cmd::FunDef(_, b) => cmd(b),
            Cmd::RedirFail(c) => cmd(c),
        }
    }
    for l in p {
        if let Line::Cmd(l) = l {
            list(l);
        }
    }
}
