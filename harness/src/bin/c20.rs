//! C20 — built-in argument syntax.
//!
//! Stream 1 (generic parser): `yash_builtin::common::syntax::parse_arguments`
//! is called with generated option tables, modes and argument vectors; the
//! result is written next to the input as a Coq term.  Coq evaluates the
//! model (`Yv.C20.Model.parse`) and the oracle (`Yv.C20.Spec.oracle_parse`:
//! is what was returned a reading of the vector by the syntax guidelines /
//! is the reported defect there?).
//!
//!   1a  raw vectors over a token alphabet (hand-written corpus, exhaustive
//!       enumeration in the thorough tier, random ones)
//!   1b  abstract invocations written in several equivalent spellings
//!       (grouped/separate, attached/next-field argument, long names
//!       abbreviated, `=`/next field, with/without `--`): all of them must be
//!       read as that invocation
//!
//! Stream 2 (real built-ins in the virtual shell) is in `shell_stream`.

use std::panic::{AssertUnwindSafe, catch_unwind};
use yash_builtin::common::syntax::{
    Mode, OptionArgumentSpec, OptionSpec, OptionSpelling, ParseError, parse_arguments,
};
use yash_env::semantics::Field;
use yash_env::source::Location;
use yv_harness::cli::Args;
use yv_harness::out::CasesWriter;
use yv_harness::rng::Rng;
use yv_harness::vsh;
use yv_harness::{coq, json_str, json_str_list};

// ---------------------------------------------------------------------------
// option tables and modes
// ---------------------------------------------------------------------------

#[derive(Clone, Debug, PartialEq, Eq, Hash)]
struct Spec {
    short: Option<char>,
    long: Option<String>,
    arg: bool,
    ext: bool,
}

fn sp(short: Option<char>, long: Option<&str>, arg: bool, ext: bool) -> Spec {
    Spec { short, long: long.map(|s| s.to_string()), arg, ext }
}

impl Spec {
    fn coq(&self) -> String {
        format!(
            "(mkSpec {} {} {} {})",
            coq::opt(self.short.map(|c| coq::n(c as u64))),
            coq::opt(self.long.as_ref().map(|l| coq::s(l))),
            coq::b(self.arg),
            coq::b(self.ext)
        )
    }
    fn show(&self) -> String {
        format!(
            "{}{}{}{}",
            self.short.map(|c| format!("-{c}")).unwrap_or_default(),
            self.long.as_ref().map(|l| format!("/--{l}")).unwrap_or_default(),
            if self.arg { ":" } else { "" },
            if self.ext { "!" } else { "" }
        )
    }
}

fn real_specs(specs: &[Spec]) -> Vec<OptionSpec<'_>> {
    specs
        .iter()
        .map(|s| {
            let mut o: OptionSpec<'_> = OptionSpec::new();
            if let Some(c) = s.short {
                o.set_short(c);
            }
            if let Some(l) = &s.long {
                o.set_long(l);
            }
            if s.arg {
                o.set_argument(OptionArgumentSpec::Required);
            }
            o.set_extension(s.ext);
            o
        })
        .collect()
}

#[derive(Clone, Copy, Debug, PartialEq, Eq)]
struct M {
    long: bool,
    ext: bool,
    same: bool,
}

const WITH_EXT: M = M { long: true, ext: true, same: true };
const PORTABLE: M = M { long: false, ext: false, same: false };

impl M {
    fn real(self) -> Mode {
        let mut m = Mode::default();
        m.long_option_names = self.long;
        m.extension_options = self.ext;
        m.option_arguments_in_same_field = self.same;
        m
    }
    fn coq(self) -> String {
        format!("(mkMode {} {} {})", coq::b(self.long), coq::b(self.ext), coq::b(self.same))
    }
    fn show(self) -> String {
        format!(
            "{}{}{}",
            if self.long { "L" } else { "l" },
            if self.ext { "E" } else { "e" },
            if self.same { "S" } else { "s" }
        )
    }
    fn all() -> Vec<M> {
        let mut v = vec![];
        for k in 0..8 {
            v.push(M { long: k & 1 != 0, ext: k & 2 != 0, same: k & 4 != 0 });
        }
        v
    }
}

// ---------------------------------------------------------------------------
// running the real parser and printing what it returned
// ---------------------------------------------------------------------------

fn loc_text(l: &Location) -> String {
    let code = l.code.value.borrow();
    code.chars().skip(l.range.start).take(l.range.end - l.range.start).collect()
}

/// (Coq term of type `option result` content, short human form, class for the histogram)
struct Outcome {
    /// Coq term of type `result`, or None if the parser panicked
    term: Option<String>,
    human: String,
    class: &'static str,
    /// canonical reading: (spec index, option-argument) list and operands
    canon: Option<(Vec<(usize, Option<String>)>, Vec<String>)>,
}

fn run_parser(specs: &[Spec], mode: M, args: &[String]) -> Outcome {
    let real = real_specs(specs);
    let fields: Vec<Field> = args.iter().map(|a| Field::dummy(a.clone())).collect();
    let index_of = |s: &OptionSpec| -> usize {
        real.iter().position(|r| std::ptr::eq(r, s)).expect("spec not in the table")
    };
    let r = catch_unwind(AssertUnwindSafe(|| parse_arguments(&real, mode.real(), fields)));
    match r {
        Err(_) => Outcome { term: None, human: "PANIC".into(), class: "panic", canon: None },
        Ok(Ok((options, operands))) => {
            let mut occs = vec![];
            let mut human = vec![];
            let mut canon = vec![];
            for o in &options {
                let i = index_of(o.spec);
                let spelling = match o.spelling {
                    OptionSpelling::Short(k) => format!("(Short {})", coq::n(k as u64)),
                    OptionSpelling::Long => "Long".to_string(),
                    _ => panic!("unexpected spelling {:?}", o.spelling),
                };
                let arg = o
                    .argument
                    .as_ref()
                    .map(|f| coq::pair(&coq::s(&f.value), &coq::s(&loc_text(&f.origin))));
                occs.push(format!(
                    "(mkOcc {} {} {} {})",
                    coq::nat(i),
                    coq::s(&loc_text(&o.location)),
                    spelling,
                    coq::opt(arg)
                ));
                human.push(match &o.argument {
                    Some(f) => format!("{}={:?}", i, f.value),
                    None => format!("{}", i),
                });
                canon.push((i, o.argument.as_ref().map(|f| f.value.clone())));
            }
            let ops: Vec<String> = operands.iter().map(|f| f.value.clone()).collect();
            let opt: Vec<String> = ops.iter().map(|o| coq::s(o)).collect();
            Outcome {
                term: Some(format!("(Ok {} {})", coq::list(&occs), coq::list(&opt))),
                human: format!("Ok [{}] {:?}", human.join(","), ops),
                class: "ok",
                canon: Some((canon, ops)),
            }
        }
        Ok(Err(e)) => {
            let (term, class) = match &e {
                ParseError::UnknownShortOption(c, f) => (
                    format!("(UnknownShort {} {})", coq::n(*c as u64), coq::s(&f.value)),
                    "err:unknown-short",
                ),
                ParseError::UnknownLongOption(f) => {
                    (format!("(UnknownLong {})", coq::s(&f.value)), "err:unknown-long")
                }
                ParseError::NonPortableShortOption(c, f, s) => (
                    format!(
                        "(NonPortableShort {} {} {})",
                        coq::n(*c as u64),
                        coq::s(&f.value),
                        coq::nat(index_of(s))
                    ),
                    "err:nonportable-short",
                ),
                ParseError::NonPortableLongOption(f, s) => (
                    format!("(NonPortableLong {} {})", coq::s(&f.value), coq::nat(index_of(s))),
                    "err:nonportable-long",
                ),
                ParseError::AmbiguousLongOption(f, l) => {
                    let v: Vec<String> = l.iter().map(|s| coq::nat(index_of(s))).collect();
                    (
                        format!("(AmbiguousLong {} {})", coq::s(&f.value), coq::list(&v)),
                        "err:ambiguous",
                    )
                }
                ParseError::MissingOptionArgument(f, s) => (
                    format!("(MissingArg {} {})", coq::s(&f.value), coq::nat(index_of(s))),
                    "err:missing-argument",
                ),
                ParseError::UnseparatedOptionArgument(f, s) => (
                    format!("(Unseparated {} {})", coq::s(&f.value), coq::nat(index_of(s))),
                    "err:unseparated",
                ),
                ParseError::UnexpectedOptionArgument(f, s) => (
                    format!("(UnexpectedArg {} {})", coq::s(&f.value), coq::nat(index_of(s))),
                    "err:unexpected-argument",
                ),
                _ => panic!("unexpected error variant {e:?}"),
            };
            Outcome {
                term: Some(format!("(Err {})", term)),
                human: format!("Err {}", e),
                class,
                canon: None,
            }
        }
    }
}

fn specs_coq(specs: &[Spec]) -> String {
    let v: Vec<String> = specs.iter().map(|s| s.coq()).collect();
    coq::list(&v)
}
fn specs_show(specs: &[Spec]) -> String {
    let v: Vec<String> = specs.iter().map(|s| s.show()).collect();
    v.join(" ")
}
fn args_coq(args: &[String]) -> String {
    let v: Vec<String> = args.iter().map(|s| coq::s(s)).collect();
    coq::list(&v)
}

/// Stream 1a: one vector.
fn emit_parse(w: &mut CasesWriter, specs: &[Spec], mode: M, args: &[String], stream: &str) {
    let out = run_parser(specs, mode, args);
    w.count(&format!("{stream}:{}", out.class));
    w.count(&format!("{stream}:len{}", args.len().min(6)));
    let term = match &out.term {
        Some(r) => format!(
            "(CParse {} {} {} {})",
            specs_coq(specs),
            mode.coq(),
            args_coq(args),
            r
        ),
        None => format!("(CPanic {} {} {})", specs_coq(specs), mode.coq(), args_coq(args)),
    };
    let json = format!(
        "{{\"stream\":{},\"specs\":{},\"mode\":{},\"args\":{},\"result\":{}}}",
        json_str(stream),
        json_str(&specs_show(specs)),
        json_str(&mode.show()),
        json_str_list(args),
        json_str(&out.human)
    );
    // non-trivial: at least one option was parsed, or an error was found after
    // at least one complete option field
    let key = match &out.canon {
        Some((os, _)) if !os.is_empty() => {
            Some(format!("{}|{}|{:?}", specs_show(specs), mode.show(), args))
        }
        None if args.len() >= 2 => Some(format!("{}|{}|{:?}", specs_show(specs), mode.show(), args)),
        _ => None,
    };
    w.push(&term, &json, &[], key);
}

// ---------------------------------------------------------------------------
// 1b: spellings of an abstract invocation
// ---------------------------------------------------------------------------

/// Does `name` designate spec `i` (full name of the first such entry, or a
/// proper prefix of its name only and nobody's full name)?
fn designates(specs: &[Spec], name: &str, i: usize) -> bool {
    let exact: Vec<usize> = (0..specs.len())
        .filter(|&j| specs[j].long.as_deref() == Some(name))
        .collect();
    if let Some(&j) = exact.first() {
        return j == i;
    }
    let pre: Vec<usize> = (0..specs.len())
        .filter(|&j| specs[j].long.as_deref().is_some_and(|l| l.starts_with(name)))
        .collect();
    pre == vec![i]
}

fn first_short(specs: &[Spec], c: char) -> Option<usize> {
    specs.iter().position(|s| s.short == Some(c))
}

fn option_like(f: &str) -> bool {
    let mut c = f.chars();
    c.next() == Some('-') && c.next().is_some()
}

/// One random spelling of (os, ops); `None` if some option cannot be written
/// in this mode at all.
fn spell(
    rng: &mut Rng,
    specs: &[Spec],
    mode: M,
    os: &[(usize, Option<String>)],
    ops: &[String],
) -> Option<Vec<String>> {
    let mut out: Vec<String> = vec![];
    // `open` = the last field is a group of argument-less short options that
    // may be extended
    let mut open = false;
    for (i, arg) in os {
        let s = &specs[*i];
        if s.ext && !mode.ext {
            return None;
        }
        let short_ok = s.short.is_some_and(|c| {
            first_short(specs, c) == Some(*i) && c != '-' // a hyphen as option letter cannot lead a group
        });
        let long_names: Vec<String> = match (&s.long, mode.long) {
            (Some(l), true) => {
                let chars: Vec<char> = l.chars().collect();
                (0..=chars.len())
                    .map(|k| chars[..k].iter().collect::<String>())
                    .filter(|p| !p.contains('=') && designates(specs, p, *i))
                    .filter(|p| !p.is_empty() || arg.is_some())
                    .collect()
            }
            _ => vec![],
        };
        let use_short = match (short_ok, long_names.is_empty()) {
            (true, true) => true,
            (false, false) => false,
            (true, false) => rng.chance(3, 5),
            (false, true) => return None,
        };
        if use_short {
            let c = s.short.unwrap();
            if open && rng.chance(1, 2) {
                out.last_mut().unwrap().push(c);
            } else {
                out.push(format!("-{c}"));
            }
            match arg {
                None => open = true,
                Some(a) => {
                    open = false;
                    if mode.same && !a.is_empty() && rng.chance(1, 2) {
                        out.last_mut().unwrap().push_str(a);
                    } else {
                        out.push(a.clone());
                    }
                }
            }
        } else {
            open = false;
            let name = rng.pick(&long_names).clone();
            match arg {
                None => {
                    if name.is_empty() {
                        return None;
                    }
                    out.push(format!("--{name}"))
                }
                Some(a) => {
                    if name.is_empty() || rng.chance(1, 2) {
                        out.push(format!("--{name}={a}"));
                    } else {
                        out.push(format!("--{name}"));
                        out.push(a.clone());
                    }
                }
            }
        }
    }
    let need_sep = ops.first().is_some_and(|f| option_like(f));
    if need_sep || rng.chance(1, 3) {
        out.push("--".into());
    }
    out.extend(ops.iter().cloned());
    Some(out)
}

fn emit_spell(
    w: &mut CasesWriter,
    rng: &mut Rng,
    specs: &[Spec],
    mode: M,
    os: &[(usize, Option<String>)],
    ops: &[String],
    count: usize,
) {
    let mut spellings: Vec<Vec<String>> = vec![];
    for _ in 0..count * 3 {
        if spellings.len() >= count {
            break;
        }
        match spell(rng, specs, mode, os, ops) {
            Some(v) => {
                if !spellings.contains(&v) {
                    spellings.push(v)
                }
            }
            None => return,
        }
    }
    let mut terms = vec![];
    let mut humans = vec![];
    let mut panicked = None;
    for v in &spellings {
        let out = run_parser(specs, mode, v);
        w.count(&format!("1b:{}", out.class));
        match out.term {
            Some(r) => terms.push(coq::pair(&args_coq(v), &r)),
            None => panicked = Some(v.clone()),
        }
        humans.push(format!("{:?} -> {}", v, out.human));
    }
    w.count(&format!("1b:spellings{}", spellings.len().min(6)));
    let os_coq: Vec<String> = os
        .iter()
        .map(|(i, a)| coq::pair(&coq::nat(*i), &coq::opt(a.as_ref().map(|a| coq::s(a)))))
        .collect();
    let term = match panicked {
        Some(v) => format!("(CPanic {} {} {})", specs_coq(specs), mode.coq(), args_coq(&v)),
        None => format!(
            "(CSpell {} {} {} {} {})",
            specs_coq(specs),
            mode.coq(),
            coq::list(&os_coq),
            args_coq(ops),
            coq::list(&terms)
        ),
    };
    let json = format!(
        "{{\"stream\":\"1b\",\"specs\":{},\"mode\":{},\"options\":{},\"operands\":{},\"spellings\":{}}}",
        json_str(&specs_show(specs)),
        json_str(&mode.show()),
        json_str(&format!("{os:?}")),
        json_str_list(ops),
        json_str_list(&humans)
    );
    let key = if spellings.len() >= 2 {
        Some(format!("{}|{}|{:?}|{:?}", specs_show(specs), mode.show(), os, ops))
    } else {
        None
    };
    w.push(&term, &json, &[], key);
}

// ---------------------------------------------------------------------------
// stream 2: real built-ins in the virtual shell
// ---------------------------------------------------------------------------

/// `yash -c SCRIPT` on the simulated OS, with /bin/pwd, /bin/true, /bin/false
/// present (so that the substitutive built-ins are available) and a small
/// directory tree.
fn run_virtual(script: &str) -> vsh::Outcome {
    use std::cell::RefCell;
    use std::rc::Rc;
    use yash_env::system::Mode as FileMode;
    use yash_env::system::r#virtual::Inode;
    let opts = vsh::RunOpts {
        argv: vec!["-c".into(), script.into(), "yash".into(), "p1".into(), "p2".into(), "p3".into()],
        stdin: Some(b"in1 in2\\ in3:in4\nline2\n".to_vec()),
        files: vec![],
    };
    vsh::run_shell(opts, |_env, state| {
        for p in ["/bin/pwd", "/bin/true", "/bin/false"] {
            let mut inode = Inode::new(Vec::<u8>::new());
            inode.permissions = FileMode::from_bits_retain(0o755);
            state.borrow_mut().file_system.save(p, Rc::new(RefCell::new(inode))).unwrap();
        }
        for p in ["/d1/d2/f", "/d1/-P/f", "/home/u/f", "/tmp/f"] {
            vsh::write_file(state, p, b"");
        }
    })
    .0
}


fn fnv(s: &str) -> u64 {
    let mut h: u64 = 0xcbf2_9ce4_8422_2325;
    for b in s.bytes() {
        h ^= b as u64;
        h = h.wrapping_mul(0x0000_0100_0000_01b3);
    }
    h
}

fn sh_quote(a: &str) -> String {
    format!("'{}'", a.replace('\'', "'\\''"))
}

/// State snapshot taken after the invocation (printed by the shell itself).
const SNAPSHOT: &str = "set; alias; trap; umask; typeset -p; typeset -fp; set -o; echo \"$-\"; jobs; \
    ulimit -a; echo \"$PWD|$OLDPWD|$#|$*|$OPTIND\"; args \"$@\"";

#[derive(Clone, Debug, PartialEq)]
struct ShellOutcome {
    status: i64,
    stderr_empty: bool,
    /// what the invocation wrote to stdout
    output: String,
    /// snapshot text + probe trace
    state: String,
    alive: bool,
}

impl ShellOutcome {
    fn coq(&self) -> String {
        format!(
            "(mkOut {} {} {} {} {})",
            coq::z(self.status as i128),
            coq::b(self.stderr_empty),
            coq::n(fnv(&self.output)),
            coq::n(fnv(&self.state)),
            coq::b(self.alive)
        )
    }
    fn show(&self) -> String {
        format!(
            "status={} stderr={} out={:?} state#{:016x}{}",
            self.status,
            if self.stderr_empty { "empty" } else { "text" },
            self.output,
            fnv(&self.state),
            if self.alive { "" } else { " (shell exited)" }
        )
    }
}

/// How an invocation is embedded in a script.
#[derive(Clone, Debug)]
struct Template {
    /// run the invocation while the `portable` shell option is on
    portable: bool,
    setup: String,
    /// text before the command name
    pre: String,
    /// text after the last argument
    post: String,
}

fn run_invocation(t: &Template, command: &str) -> ShellOutcome {
    let (on, off) = if t.portable { ("set -o portable\n", "set +o portable\n") } else { ("", "") };
    let script = format!(
        "{}\n{}echo @@begin\n{}{}{}\necho \"@@end $?\"\n{}{}\n",
        t.setup, on, t.pre, command, t.post, off, SNAPSHOT
    );
    let o = run_virtual(&script);
    if o.panicked.is_some() {
        return ShellOutcome { status: -2, stderr_empty: true, output: String::new(), state: String::new(), alive: false };
    }
    if o.deadlock || o.timeout {
        return ShellOutcome { status: -1, stderr_empty: true, output: String::new(), state: String::new(), alive: false };
    }
    let after_begin = match o.stdout.split_once("@@begin\n") {
        Some((_, r)) => r.to_string(),
        None => String::new(),
    };
    let trace: Vec<String> = o.trace.iter().map(|t| format!("{}:{}:{:?}", t.kind, t.status, t.args)).collect();
    match after_begin.rfind("@@end ") {
        Some(k) if after_begin[..k].is_empty() || after_begin[..k].ends_with('\n') => {
            let output = after_begin[..k].to_string();
            let rest = &after_begin[k + 6..];
            let (st, snap) = rest.split_once('\n').unwrap_or((rest, ""));
            ShellOutcome {
                status: st.trim().parse().unwrap_or(-3),
                stderr_empty: o.stderr.is_empty(),
                output,
                state: format!("{}\n{}", snap, trace.join("\n")),
                alive: true,
            }
        }
        _ => ShellOutcome {
            status: o.status as i64,
            stderr_empty: o.stderr.is_empty(),
            output: after_begin,
            state: trace.join("\n"),
            alive: false,
        },
    }
}

fn command_line(name: &str, args: &[String]) -> String {
    let mut v = vec![name.to_string()];
    v.extend(args.iter().map(|a| if a == "$$" { a.clone() } else { sh_quote(a) }));
    v.join(" ")
}

struct Builtin {
    name: &'static str,
    table: Vec<Spec>,
    /// special built-in: a syntax error makes a non-interactive shell exit, so
    /// the malformed variants are run through `command`
    special: bool,
    template: Template,
    /// word written where the command name goes (the name itself unless the
    /// template wraps the built-in in a function) and the template used for
    /// the malformed variants and their baseline
    wrapped: Option<(&'static str, &'static str, Template)>,
    /// false for `getopts`, which reports a malformed argument to the script
    /// (`?`) rather than failing
    check_malformed: bool,
    /// (options as (index, argument), operands)
    invocations: Vec<(Vec<(usize, Option<&'static str>)>, Vec<&'static str>)>,
}

fn tpl(setup: &str, pre: &str, post: &str) -> Template {
    Template { portable: false, setup: setup.into(), pre: pre.into(), post: post.into() }
}

fn fl(short: char, long: &str) -> Spec {
    sp(Some(short), Some(long), false, false)
}

fn catalogue() -> Vec<Builtin> {
    let ulimit_table = vec![
        fl('H', "hard"),
        fl('S', "soft"),
        fl('a', "all"),
        fl('v', "as"),
        fl('c', "core"),
        fl('t', "cpu"),
        fl('d', "data"),
        fl('f', "fsize"),
        sp(Some('k'), Some("kqueues"), false, true),
        sp(Some('x'), Some("locks"), false, true),
        sp(Some('l'), Some("memlock"), false, true),
        sp(Some('q'), Some("msgqueue"), false, true),
        sp(Some('e'), Some("nice"), false, true),
        fl('n', "nofile"),
        sp(Some('u'), Some("nproc"), false, true),
        sp(Some('m'), Some("rss"), false, true),
        sp(Some('r'), Some("rtprio"), false, true),
        sp(Some('R'), Some("rttime"), false, true),
        sp(Some('b'), Some("sbsize"), false, true),
        sp(Some('i'), Some("sigpending"), false, true),
        fl('s', "stack"),
        sp(Some('w'), Some("swap"), false, true),
    ];
    vec![
        Builtin {
            name: "cd",
            table: vec![fl('e', "ensure-pwd"), fl('L', "logical"), fl('P', "physical")],
            special: false,
            template: tpl("cd /tmp; cd /d1", "", ""),
            wrapped: None,
            check_malformed: true,
            invocations: vec![
                (vec![(2, None)], vec!["d2"]),
                (vec![(1, None)], vec!["d2"]),
                (vec![(2, None), (0, None)], vec!["d2"]),
                (vec![(1, None), (2, None)], vec!["/home/u"]),
                (vec![(2, None), (1, None), (0, None)], vec!["d2"]),
                (vec![], vec!["-P"]),
                (vec![(2, None)], vec!["-"]),
                (vec![], vec!["d2"]),
                (vec![(1, None)], vec!["nonexistent"]),
            ],
        },
        Builtin {
            name: "command",
            table: vec![fl('p', "path"), fl('v', "identify"), fl('V', "verbose-identify")],
            special: false,
            template: tpl("cd /", "", ""),
            wrapped: None,
            check_malformed: true,
            invocations: vec![
                (vec![(1, None)], vec!["cd"]),
                (vec![(2, None)], vec!["cd"]),
                (vec![(0, None), (1, None)], vec!["true"]),
                (vec![(0, None)], vec!["echo", "hello", "-v"]),
                (vec![], vec!["echo", "-p", "--"]),
                (vec![(1, None)], vec!["cd", "nosuchcommand", "if"]),
                (vec![(0, None), (2, None)], vec!["set"]),
            ],
        },
        Builtin {
            name: "type",
            table: vec![],
            special: false,
            template: tpl("cd /", "", ""),
            wrapped: None,
            check_malformed: true,
            invocations: vec![(vec![], vec!["cd", "set"]), (vec![], vec!["-"])],
        },
        Builtin {
            name: "read",
            table: vec![sp(Some('d'), Some("delimiter"), true, false), fl('r', "raw-mode")],
            special: false,
            template: tpl("cd /", "", " </dev/stdin"),
            wrapped: None,
            check_malformed: true,
            invocations: vec![
                (vec![(1, None)], vec!["a", "b"]),
                (vec![(0, Some(":"))], vec!["a"]),
                (vec![(1, None), (0, Some(":"))], vec!["a", "b"]),
                (vec![(0, Some(""))], vec!["a"]),
                (vec![(0, Some("-"))], vec!["a"]),
                (vec![(0, Some("--"))], vec!["a"]),
                (vec![(0, Some("2")), (1, None)], vec!["a", "b", "c"]),
                (vec![], vec!["a", "-r"]),
            ],
        },
        Builtin {
            name: "trap",
            table: vec![fl('p', "print")],
            special: true,
            template: tpl("cd /; trap 'echo x' INT", "", ""),
            wrapped: None,
            check_malformed: true,
            invocations: vec![
                (vec![(0, None)], vec![]),
                (vec![(0, None)], vec!["INT"]),
                (vec![(0, None)], vec!["INT", "TERM"]),
                (vec![], vec!["echo y", "TERM"]),
                (vec![], vec!["-", "INT"]),
                (vec![], vec![]),
            ],
        },
        Builtin {
            name: "ulimit",
            table: ulimit_table,
            special: false,
            template: tpl("cd /", "", ""),
            wrapped: None,
            check_malformed: true,
            invocations: vec![
                (vec![(1, None), (13, None)], vec![]),
                (vec![(0, None), (13, None)], vec![]),
                (vec![(2, None)], vec![]),
                (vec![(1, None), (2, None)], vec![]),
                (vec![(13, None)], vec!["100"]),
                (vec![(1, None), (4, None)], vec!["0"]),
                (vec![(0, None), (1, None), (7, None)], vec!["unlimited"]),
                (vec![(13, None), (4, None)], vec![]),
            ],
        },
        Builtin {
            name: "umask",
            table: vec![sp(Some('S'), None, false, false)],
            special: false,
            template: tpl("cd /; umask 022", "", ""),
            wrapped: None,
            check_malformed: true,
            invocations: vec![
                (vec![(0, None)], vec![]),
                (vec![], vec![]),
                (vec![], vec!["027"]),
                (vec![(0, None)], vec!["u=rwx,g=rx,o="]),
                (vec![], vec!["-w"]),
            ],
        },
        Builtin {
            name: "unset",
            table: vec![fl('f', "functions"), fl('v', "variables")],
            special: true,
            template: tpl("cd /; x=1; y=2; f() { :; }; g() { :; }", "", ""),
            wrapped: None,
            check_malformed: true,
            invocations: vec![
                (vec![(1, None)], vec!["x"]),
                (vec![(0, None)], vec!["f"]),
                (vec![], vec!["x", "y"]),
                (vec![(1, None)], vec!["x", "y", "f"]),
                (vec![(0, None)], vec!["f", "g", "x"]),
                (vec![(0, None), (1, None)], vec!["x"]),
            ],
        },
        Builtin {
            name: "pwd",
            table: vec![fl('L', "logical"), fl('P', "physical")],
            special: false,
            template: tpl("PATH=/bin; cd /d1/d2", "", ""),
            wrapped: None,
            check_malformed: true,
            invocations: vec![
                (vec![(0, None)], vec![]),
                (vec![(1, None)], vec![]),
                (vec![(0, None), (1, None)], vec![]),
                (vec![(1, None), (0, None)], vec![]),
                (vec![], vec![]),
            ],
        },
        Builtin {
            name: "jobs",
            table: vec![fl('l', "verbose"), fl('p', "pgid-only")],
            special: false,
            template: tpl("cd /", "", ""),
            wrapped: None,
            check_malformed: true,
            invocations: vec![
                (vec![(0, None)], vec![]),
                (vec![(1, None)], vec![]),
                (vec![(0, None), (1, None)], vec![]),
                (vec![(0, None), (0, None)], vec![]),
            ],
        },
        Builtin {
            name: "return",
            table: vec![sp(Some('n'), Some("no-return"), false, true)],
            special: true,
            template: tpl("cd /", "f() { return \"$@\"; echo after=$?; }; ", ""),
            wrapped: Some(("f", "f", tpl("cd /", "f() { command return \"$@\"; }; ", ""))),
            check_malformed: true,
            invocations: vec![(vec![(0, None)], vec!["3"]), (vec![], vec!["3"]), (vec![(0, None)], vec![])],
        },
        Builtin {
            name: "exit",
            table: vec![sp(Some('f'), Some("force"), false, true)],
            special: true,
            template: tpl("cd /", "(", ")"),
            wrapped: None,
            check_malformed: true,
            invocations: vec![(vec![(0, None)], vec!["3"]), (vec![], vec!["3"]), (vec![(0, None)], vec![])],
        },
        Builtin {
            name: "unalias",
            table: vec![sp(Some('a'), None, false, false)],
            special: false,
            template: tpl("cd /; alias a=b c=d", "", ""),
            wrapped: None,
            check_malformed: true,
            invocations: vec![(vec![(0, None)], vec![]), (vec![], vec!["a"]), (vec![], vec!["a", "c"])],
        },
        Builtin {
            name: "alias",
            table: vec![],
            special: false,
            template: tpl("cd /; alias a=b", "", ""),
            wrapped: None,
            check_malformed: true,
            invocations: vec![(vec![], vec![]), (vec![], vec!["x=y", "a"]), (vec![], vec!["-=x"])],
        },
        Builtin {
            name: "wait",
            table: vec![],
            special: false,
            template: tpl("cd /", "", ""),
            wrapped: None,
            check_malformed: true,
            invocations: vec![(vec![], vec![]), (vec![], vec!["12345"])],
        },
        Builtin {
            name: ".",
            table: vec![],
            special: true,
            template: tpl("cd /; echo 'echo sourced \"$@\"' >/tmp/s", "", ""),
            wrapped: None,
            check_malformed: true,
            invocations: vec![(vec![], vec!["/tmp/s"]), (vec![], vec!["/tmp/s", "-x", "--"])],
        },
        Builtin {
            name: "eval",
            table: vec![],
            special: true,
            template: tpl("cd /", "", ""),
            wrapped: None,
            check_malformed: true,
            invocations: vec![(vec![], vec!["echo x"]), (vec![], vec!["echo", "-n", "--"]), (vec![], vec![])],
        },
        Builtin {
            name: "exec",
            table: vec![],
            special: true,
            template: tpl("cd /", "", ""),
            wrapped: None,
            check_malformed: true,
            invocations: vec![(vec![], vec![])],
        },
        Builtin {
            name: "shift",
            table: vec![],
            special: true,
            template: tpl("cd /", "", ""),
            wrapped: None,
            check_malformed: true,
            invocations: vec![(vec![], vec!["2"]), (vec![], vec![])],
        },
        Builtin {
            name: "break",
            table: vec![],
            special: true,
            template: tpl("cd /", "for i in 1 2; do for j in a b; do echo $i$j; ", "; done; done"),
            wrapped: None,
            check_malformed: true,
            invocations: vec![(vec![], vec!["2"]), (vec![], vec![])],
        },
        Builtin {
            name: "continue",
            table: vec![],
            special: true,
            template: tpl("cd /", "for i in 1 2; do for j in a b; do echo $i$j; ", "; echo not; done; done"),
            wrapped: Some(("continue", "command continue", tpl("cd /", "for i in 1 2; do for j in a b; do echo $i$j; ", "; done; done"))),
            check_malformed: true,
            invocations: vec![(vec![], vec!["2"]), (vec![], vec![])],
        },
        Builtin {
            name: "times",
            table: vec![],
            special: true,
            template: tpl("cd /", "", ""),
            wrapped: None,
            check_malformed: true,
            invocations: vec![(vec![], vec![])],
        },
        Builtin {
            name: "getopts",
            table: vec![],
            special: false,
            template: tpl("cd /", "", ""),
            wrapped: None,
            check_malformed: true,
            invocations: vec![(vec![], vec!["ab:", "v", "-a", "-bX"]), (vec![], vec!["-", "v", "--"])],
        },
        // what the getopts built-in makes of the positional parameters (its own
        // parser, yash-builtin/src/getopts/model.rs): options a, b ARG, o ARG
        Builtin {
            name: "getopts ab:o:",
            table: vec![
                sp(Some('a'), None, false, false),
                sp(Some('b'), None, true, false),
                sp(Some('o'), None, true, false),
            ],
            special: false,
            template: tpl(
                "cd /",
                "g() { while getopts ab:o: v; do echo \"$v=${OPTARG-unset}\"; done; shift $((OPTIND-1)); \
                 echo \"rest=$*\"; OPTIND=1; unset v OPTARG; }; ",
                "",
            ),
            wrapped: Some(("g", "g", tpl("cd /", "", ""))),
            check_malformed: false,
            invocations: vec![
                (vec![(0, None), (1, Some("X"))], vec!["Y"]),
                (vec![(0, None), (0, None), (2, Some("-a"))], vec![]),
                (vec![(1, Some("--")), (0, None)], vec!["-a"]),
                (vec![(2, Some("X Y")), (1, Some("")), (0, None)], vec!["-", "-a"]),
                (vec![], vec!["X", "-a"]),
                (vec![(0, None)], vec![]),
            ],
        },
        Builtin {
            name: "fg",
            table: vec![],
            special: false,
            template: tpl("cd /", "", ""),
            wrapped: None,
            check_malformed: true,
            invocations: vec![(vec![], vec![])],
        },
        Builtin {
            name: "bg",
            table: vec![],
            special: false,
            template: tpl("cd /", "", ""),
            wrapped: None,
            check_malformed: true,
            invocations: vec![(vec![], vec![])],
        },
    ]
}

/// All distinct spellings `spell` finds in `tries` attempts.
fn spellings_of(
    rng: &mut Rng,
    specs: &[Spec],
    mode: M,
    os: &[(usize, Option<String>)],
    ops: &[String],
    tries: usize,
    max: usize,
) -> Vec<Vec<String>> {
    let mut v: Vec<Vec<String>> = vec![];
    for _ in 0..tries {
        if v.len() >= max {
            break;
        }
        if let Some(s) = spell(rng, specs, mode, os, ops) {
            if !v.contains(&s) {
                v.push(s);
            }
        }
    }
    v
}

/// Malformed variants of a vector for the given table (in the default mode).
/// Everything is inserted in front, where an option is certainly expected.
fn malformed_of(specs: &[Spec], good: &[String]) -> Vec<Vec<String>> {
    let mut out: Vec<Vec<String>> = vec![];
    let front = |f: String| -> Vec<String> {
        let mut v = vec![f];
        v.extend(good.iter().cloned());
        v
    };
    let unknown = ['Z', 'z', 'Q', '9'].into_iter().find(|c| first_short(specs, *c).is_none()).unwrap();
    let flag = specs.iter().enumerate().find_map(|(i, s)| {
        s.short.filter(|c| !s.arg && !s.ext && first_short(specs, *c) == Some(i))
    });
    // an unknown short option, alone and grouped behind a flag
    out.push(front(format!("-{unknown}")));
    if let Some(f) = flag {
        out.push(front(format!("-{f}{unknown}")));
    }
    // an unknown long option
    out.push(front("--no-such-option".into()));
    // an ambiguous abbreviation
    let longs: Vec<&String> = specs.iter().filter_map(|s| s.long.as_ref()).collect();
    'amb: for l in &longs {
        let chars: Vec<char> = l.chars().collect();
        for k in 1..chars.len() {
            let p: String = chars[..k].iter().collect();
            let n = longs.iter().filter(|m| m.starts_with(&p)).count();
            if n >= 2 && !longs.iter().any(|m| **m == p) {
                out.push(front(format!("--{p}")));
                break 'amb;
            }
        }
    }
    // a missing option-argument: the option is the last field
    if let Some(i) = (0..specs.len()).find(|&i| specs[i].arg) {
        if let Some(c) = specs[i].short {
            out.push(vec![format!("-{c}")]);
            if let Some(f) = flag {
                out.push(vec![format!("-{f}{c}")]);
            }
        }
        if let Some(l) = &specs[i].long {
            out.push(vec![format!("--{l}")]);
        }
    }
    // an argument given to a long option that takes none
    if let Some(i) = (0..specs.len()).find(|&i| !specs[i].arg && specs[i].long.is_some()) {
        out.push(front(format!("--{}=x", specs[i].long.as_ref().unwrap())));
    }
    out
}

fn outcomes_coq(l: &[(Vec<String>, ShellOutcome)]) -> String {
    let v: Vec<String> = l.iter().map(|(a, o)| coq::pair(&args_coq(a), &o.coq())).collect();
    coq::list(&v)
}
fn outcomes_show(l: &[(Vec<String>, ShellOutcome)]) -> String {
    let v: Vec<String> = l.iter().map(|(a, o)| format!("{:?} -> {}", a, o.show())).collect();
    json_str_list(&v)
}

/// A built-in with a parser of its own: argument vectors listed as
/// equivalent, and malformed ones.
struct Bespoke {
    name: &'static str,
    /// run the malformed variants through `command` (special built-in)
    special: bool,
    template: Template,
    groups: Vec<Vec<Vec<&'static str>>>,
    malformed: Vec<Vec<&'static str>>,
}

fn bespoke_catalogue() -> Vec<Bespoke> {
    vec![
        Bespoke {
            name: "set",
            special: true,
            template: tpl("cd /; set -f", "", ""),
            groups: vec![
                vec![
                    vec!["-e", "-u"],
                    vec!["-eu"],
                    vec!["-o", "errexit", "-o", "nounset"],
                    vec!["-eo", "nounset"],
                    vec!["--errexit", "--nounset"],
                    vec!["-e", "-o", "nounse"],
                    vec!["--erre", "-u"],
                    vec!["-o", "errexit", "-u"],
                    vec!["-oerrexit", "-u"],
                ],
                // `--` without operands clears the positional parameters
                vec![vec!["-e", "-u", "--"], vec!["-eu", "--"], vec!["--errexit", "-u", "--"], vec!["-eu", "-"]],
                vec![vec!["+f"], vec!["+o", "noglob"], vec!["++noglob"], vec!["+o", "nogl"], vec!["++nogl"]],
                vec![
                    vec!["-C", "--", "x", "-y"],
                    vec!["-C", "x", "-y"],
                    vec!["-o", "noclobber", "x", "-y"],
                    vec!["--noclobber", "--", "x", "-y"],
                    vec!["--noclob", "x", "-y"],
                ],
                vec![vec!["--", "-x", "--"], vec!["-", "-x", "--"]],
                vec![vec!["--"], vec!["-"]],
                vec![vec!["-o"]],
                vec![vec!["+o"]],
                vec![vec!["a", "-e"], vec!["--", "a", "-e"]],
                // `log` is a full name and a prefix of `login`: the full name wins
                vec![vec!["-o", "log"], vec!["--log"], vec!["-olog"], vec!["-o", "log", "--", "p1", "p2", "p3"]],
                vec![vec!["-o", "vi"], vec!["--vi"], vec!["-ovi"]],
            ],
            malformed: vec![
                vec!["-o", "lo"],
                vec!["--lo"],
                vec!["-Z"],
                vec!["-eZ"],
                vec!["-o", "nosuchoption"],
                vec!["--nosuchoption"],
                vec!["--no"],
                vec!["-o", "no"],
                vec!["-e", "-Z", "x"],
            ],
        },
        Bespoke {
            name: "kill",
            special: false,
            template: tpl("cd /; trap 'echo got' USR1", "", ""),
            groups: vec![
                vec![
                    vec!["-s", "USR1", "$$"],
                    vec!["-sUSR1", "$$"],
                    vec!["-USR1", "$$"],
                    vec!["-s", "USR1", "--", "$$"],
                    vec!["-s", "usr1", "$$"],
                    vec!["-SIGUSR1", "$$"],
                    vec!["-USR1", "--", "$$"],
                ],
                vec![
                    vec!["-s", "0", "$$"],
                    vec!["-0", "$$"],
                    vec!["-n", "0", "$$"],
                    vec!["-n0", "$$"],
                    vec!["-0", "--", "$$"],
                    vec!["-s0", "$$"],
                ],
                vec![vec!["-l", "9"], vec!["-l", "--", "9"]],
                vec![vec!["-l"], vec!["-l", "--"]],
                vec![vec!["-v", "15"], vec!["-lv", "15"], vec!["-l", "-v", "15"], vec!["-vl", "15"], vec!["-v", "--", "15"]],
                vec![vec!["-v"], vec!["-lv"], vec!["-l", "-v"]],
            ],
            malformed: vec![vec!["-Z", "$$"], vec!["--foo", "$$"], vec!["-s"], vec!["-n"], vec!["-l", "-Z"]],
        },
        Bespoke {
            name: "typeset",
            special: false,
            template: tpl("cd /; v=0; export w=1; f() { :; }", "", ""),
            groups: vec![
                vec![
                    vec!["-x", "v=1"],
                    vec!["--export", "v=1"],
                    vec!["--exp", "v=1"],
                    vec!["-x", "--", "v=1"],
                    vec!["--e", "--", "v=1"],
                ],
                vec![
                    vec!["-r", "-x", "v=1"],
                    vec!["-rx", "v=1"],
                    vec!["-xr", "v=1"],
                    vec!["--readonly", "--export", "v=1"],
                    vec!["--re", "-x", "v=1"],
                    vec!["-x", "--readonly", "--", "v=1"],
                ],
                vec![vec!["-p", "PATH", "w"], vec!["--print", "PATH", "w"], vec!["--p", "PATH", "w"], vec!["-p", "--", "PATH", "w"]],
                vec![vec!["-f", "-p"], vec!["-fp"], vec!["--functions", "--print"], vec!["-pf"], vec!["--f", "-p", "--"]],
                vec![vec!["+x", "w"], vec!["++export", "w"], vec!["++exp", "w"], vec!["+x", "--", "w"]],
                vec![vec!["-g", "v=2"], vec!["--global", "v=2"], vec!["--g", "v=2"]],
                vec![vec!["-X", "w"], vec!["--unexport", "w"], vec!["--u", "w"]],
                vec![vec![], vec!["--"], vec!["-p"]],
            ],
            malformed: vec![
                vec!["-Z", "v"],
                vec!["-xZ", "v"],
                vec!["--nosuch", "v"],
                vec!["--print=x"],
                vec!["+p"],
                vec!["++print"],
                vec!["+Z", "v"],
            ],
        },
        Bespoke {
            name: "export",
            special: true,
            template: tpl("cd /; v=0", "", ""),
            groups: vec![
                vec![vec!["-p"], vec!["--print"], vec!["--pr"], vec!["-p", "--"]],
                vec![vec!["v=1", "u"], vec!["--", "v=1", "u"]],
                vec![vec!["-p", "PWD"], vec!["--print", "--", "PWD"]],
            ],
            malformed: vec![vec!["-Z"], vec!["--foo"], vec!["-r", "v"], vec!["-pZ"]],
        },
        Bespoke {
            name: "readonly",
            special: true,
            template: tpl("cd /; v=0", "", ""),
            groups: vec![
                vec![vec!["-p"], vec!["--print"], vec!["--pr"], vec!["-p", "--"]],
                vec![vec!["v=1", "u"], vec!["--", "v=1", "u"]],
            ],
            malformed: vec![vec!["-Z"], vec!["--foo"], vec!["-x", "v"]],
        },
    ]
}

fn bespoke_stream(w: &mut CasesWriter) {
    for b in bespoke_catalogue() {
        let word = if b.special { format!("command {}", b.name) } else { b.name.to_string() };
        let baseline = run_invocation(&b.template, "false");
        let malformed: Vec<(Vec<String>, ShellOutcome)> = b
            .malformed
            .iter()
            .map(|v| {
                let v = strings(v);
                let o = run_invocation(&b.template, &command_line(&word, &v));
                (v, o)
            })
            .collect();
        for (k, g) in b.groups.iter().enumerate() {
            let valid: Vec<(Vec<String>, ShellOutcome)> = g
                .iter()
                .map(|v| {
                    let v = strings(v);
                    let o = run_invocation(&b.template, &command_line(b.name, &v));
                    (v, o)
                })
                .collect();
            // the malformed variants ride on the first group only
            let bad: &[(Vec<String>, ShellOutcome)] = if k == 0 { &malformed } else { &[] };
            emit_bespoke(w, b.name, &b.template, &valid, bad, &baseline);
        }
    }
}

fn emit_bespoke(
    w: &mut CasesWriter,
    name: &str,
    t: &Template,
    valid: &[(Vec<String>, ShellOutcome)],
    malformed: &[(Vec<String>, ShellOutcome)],
    baseline: &ShellOutcome,
) {
    w.count(&format!("2b:{name}"));
    w.count(&format!("2b:spellings{}", valid.len().min(10)));
    let term = format!(
        "(CBespoke {} {} {} {})",
        coq::s(name),
        outcomes_coq(valid),
        outcomes_coq(malformed),
        baseline.coq()
    );
    let json = format!(
        "{{\"stream\":\"2b\",\"builtin\":{},\"template\":{},\"valid\":{},\"malformed\":{},\"baseline\":{}}}",
        json_str(name),
        json_str(&format!("{} ; {}<invocation>{}", t.setup, t.pre, t.post)),
        outcomes_show(valid),
        outcomes_show(malformed),
        json_str(&baseline.show())
    );
    let key = Some(format!("{}|{:?}", name, valid.first().map(|v| &v.0)));
    w.push(&term, &json, &[], key);
}

/// The shell's own command line (yash-cli/src/startup/args.rs), through its
/// public `parse`: equivalent spellings must give the same `Parse` value.
fn cli_stream(w: &mut CasesWriter) {
    use yash_cli::startup::args::parse;
    let run = |v: &[&str]| -> (Vec<String>, ShellOutcome) {
        let mut argv = vec!["yash".to_string()];
        argv.extend(v.iter().map(|s| s.to_string()));
        let r = catch_unwind(AssertUnwindSafe(|| parse(argv)));
        let o = match r {
            Err(_) => ShellOutcome { status: -2, stderr_empty: true, output: String::new(), state: String::new(), alive: false },
            Ok(Ok(p)) => ShellOutcome { status: 0, stderr_empty: true, output: format!("{p:?}"), state: String::new(), alive: true },
            Ok(Err(_)) => ShellOutcome { status: 2, stderr_empty: false, output: String::new(), state: String::new(), alive: true },
        };
        (strings(v), o)
    };
    let groups: Vec<Vec<Vec<&str>>> = vec![
        vec![
            vec!["-e", "-u", "-c", "S", "n", "a"],
            vec!["-eu", "-c", "S", "n", "a"],
            vec!["-euc", "S", "n", "a"],
            vec!["-o", "errexit", "-o", "nounset", "-c", "S", "n", "a"],
            vec!["--errexit", "--nounset", "-c", "S", "n", "a"],
            vec!["-e", "-o", "nounse", "-c", "--", "S", "n", "a"],
            vec!["-eo", "nounset", "-c", "S", "n", "a"],
            vec!["--errex", "-uc", "--", "S", "n", "a"],
            vec!["-e", "-u", "--cmdline", "S", "n", "a"],
            vec!["-e", "-u", "--cmdl", "--", "S", "n", "a"],
        ],
        vec![vec!["-s", "a", "-b"], vec!["-s", "--", "a", "-b"], vec!["--stdin", "a", "-b"], vec!["--std", "--", "a", "-b"]],
        vec![vec!["file", "-e"], vec!["--", "file", "-e"]],
        vec![vec!["+e", "-c", "S"], vec!["+o", "errexit", "-c", "S"], vec!["++errexit", "-c", "S"], vec!["++errex", "-c", "--", "S"]],
        vec![vec!["--profile=P", "-c", "S"], vec!["--profile", "P", "-c", "S"], vec!["--prof=P", "-c", "S"]],
        vec![vec!["--noprofile", "--norcfile", "-c", "S"], vec!["--noprof", "--norc", "-c", "S"]],
        vec![vec!["-i", "-l", "-c", "S"], vec!["-il", "-c", "S"], vec!["--interactive", "--login", "-c", "S"], vec!["-ilc", "S"]],
        vec![vec!["--help"], vec!["--hel"]],
        vec![vec!["-o", "log", "-c", "S"], vec!["--log", "-c", "S"], vec!["-olog", "-c", "S"]],
        vec![vec!["--version"], vec!["-V"], vec!["--vers"]],
    ];
    let malformed: Vec<Vec<&str>> = vec![
        vec!["-o", "lo", "-c", "S"],
        vec!["--lo", "-c", "S"],
        vec!["-Z", "-c", "S"],
        vec!["-eZ", "-c", "S"],
        vec!["--nosuchoption", "-c", "S"],
        vec!["--no", "-c", "S"],
        vec!["-o", "nosuchoption", "-c", "S"],
        vec!["-o"],
        vec!["-c"],
        vec!["--profile"],
        vec!["--errexit=x", "-c", "S"],
        vec!["-c", "-s", "S"],
        vec!["+V"],
        vec!["++help"],
    ];
    let baseline = ShellOutcome { status: 1, stderr_empty: true, output: String::new(), state: String::new(), alive: true };
    let bad: Vec<(Vec<String>, ShellOutcome)> = malformed.iter().map(|v| run(v)).collect();
    let t = tpl("(yash_cli::startup::args::parse)", "", "");
    for (k, g) in groups.iter().enumerate() {
        let valid: Vec<(Vec<String>, ShellOutcome)> = g.iter().map(|v| run(v)).collect();
        emit_bespoke(w, "yash", &t, &valid, if k == 0 { &bad } else { &[] }, &baseline);
    }
}

fn shell_stream(w: &mut CasesWriter, rng: &mut Rng, per_invocation: usize, mode: M) {
    let portable = mode == PORTABLE;
    for mut b in catalogue() {
        if portable {
            // POSIX exempts ulimit from guideline 5 and yash-rs rejects grouped
            // options there while `portable` is on; the getopts entry is about the
            // script's own option string
            if b.name == "ulimit" || !b.check_malformed {
                continue;
            }
            b.template.portable = true;
            if let Some((_, _, t)) = &mut b.wrapped {
                t.portable = true;
            }
        }
        for (os, ops) in &b.invocations {
            let os: Vec<(usize, Option<String>)> =
                os.iter().map(|(i, a)| (*i, a.map(|a| a.to_string()))).collect();
            let ops: Vec<String> = ops.iter().map(|s| s.to_string()).collect();
            let spellings = spellings_of(rng, &b.table, mode, &os, &ops, per_invocation * 6, per_invocation);
            if spellings.is_empty() {
                continue;
            }
            let word = match &b.wrapped {
                Some((w, _, _)) => w,
                None => b.name,
            };
            let valid: Vec<(Vec<String>, ShellOutcome)> = spellings
                .iter()
                .map(|v| (v.clone(), run_invocation(&b.template, &command_line(word, v))))
                .collect();
            let pick = rng.below(spellings.len());
            let mut bad = if b.check_malformed { malformed_of(&b.table, &spellings[pick]) } else { vec![] };
            if portable {
                // what is malformed only because the mode is portable: the
                // extension spellings of the same invocation
                bad.retain(|v| run_parser(&b.table, mode, v).canon.is_none());
                for v in spellings_of(rng, &b.table, WITH_EXT, &os, &ops, 12, 4) {
                    if run_parser(&b.table, mode, &v).canon.is_none() && !bad.contains(&v) {
                        bad.push(v);
                    }
                }
            }
            let (bad_word, bad_template) = match &b.wrapped {
                Some((_, word, t)) => (word.to_string(), t),
                None if b.special => (format!("command {}", b.name), &b.template),
                None => (b.name.to_string(), &b.template),
            };
            let malformed: Vec<(Vec<String>, ShellOutcome)> = bad
                .iter()
                .map(|v| (v.clone(), run_invocation(bad_template, &command_line(&bad_word, v))))
                .collect();
            let baseline = run_invocation(bad_template, "false");
            let tag = if portable { "2p" } else { "2" };
            w.count(&format!("{tag}:{}", b.name));
            w.count(&format!("{tag}:spellings{}", valid.len().min(8)));
            w.count(&format!("{tag}:malformed{}", malformed.len().min(8)));
            let os_coq: Vec<String> = os
                .iter()
                .map(|(i, a)| coq::pair(&coq::nat(*i), &coq::opt(a.as_ref().map(|a| coq::s(a)))))
                .collect();
            let term = format!(
                "(CBuiltin {} {} {} {} {} {} {} {} {})",
                coq::s(b.name),
                coq::b(b.check_malformed),
                mode.coq(),
                specs_coq(&b.table),
                coq::list(&os_coq),
                args_coq(&ops),
                outcomes_coq(&valid),
                outcomes_coq(&malformed),
                baseline.coq()
            );
            let json = format!(
                "{{\"stream\":\"2\",\"mode\":{},\"builtin\":{},\"template\":{},\"options\":{},\"operands\":{},\"valid\":{},\"malformed\":{},\"baseline\":{}}}",
                json_str(if portable { "portable" } else { "default" }),
                json_str(b.name),
                json_str(&format!("{} ; {}<invocation>{}", b.template.setup, b.template.pre, b.template.post)),
                json_str(&format!("{os:?}")),
                json_str_list(&ops),
                outcomes_show(&valid),
                outcomes_show(&malformed),
                json_str(&baseline.show())
            );
            let key = if valid.len() >= 2 || !malformed.is_empty() {
                Some(format!("{}|{}|{:?}|{:?}", tag, b.name, os, ops))
            } else {
                None
            };
            w.push(&term, &json, &[], key);
        }
    }
}

// ---------------------------------------------------------------------------
// stream 3: complete getopts loops in the virtual shell
// ---------------------------------------------------------------------------

/// The option string as a table (order of the string), followed by the
/// unknown characters as argument-less entries.
fn getopts_table(raw: &str, unknown: &[char]) -> Vec<Spec> {
    let cs: Vec<char> = raw.chars().collect();
    let mut t = vec![];
    for (k, &c) in cs.iter().enumerate() {
        if c == ':' {
            continue;
        }
        t.push(sp(Some(c), None, cs.get(k + 1) == Some(&':'), false));
    }
    for &c in unknown {
        t.push(sp(Some(c), None, false, false));
    }
    t
}

const GMODE: M = M { long: false, ext: true, same: true };

struct GRun {
    args: Vec<String>,
    /// ($name, $OPTARG or None if unset, $OPTIND as (arg, char))
    events: Vec<(String, Option<String>, (usize, usize))>,
    rest: Vec<String>,
    quiet: bool,
    ok: bool,
}

/// `direct`: the arguments are given to getopts as operands
/// (`getopts SPEC o ARGS...`) instead of as positional parameters.
fn run_getopts_loop(raw: &str, args: &[String], direct: bool) -> GRun {
    let quoted: Vec<String> = args.iter().map(|a| sh_quote(a)).collect();
    let script = if direct {
        format!(
            "while getopts {} o {}; do args E \"$o\" \"${{OPTARG-<unset>}}\" \"$OPTIND\"; done\nargs I \"$OPTIND\"\n",
            sh_quote(raw),
            quoted.join(" ")
        )
    } else {
        format!(
            "set -- {}\nwhile getopts {} o; do args E \"$o\" \"${{OPTARG-<unset>}}\" \"$OPTIND\"; done\n\
             shift $((OPTIND-1))\nargs R \"$@\"\n",
            quoted.join(" "),
            sh_quote(raw)
        )
    };
    let o = run_virtual(&script);
    let mut events = vec![];
    let mut rest = None;
    let mut ok = o.panicked.is_none() && !o.deadlock && !o.timeout && o.status == 0;
    for t in &o.trace {
        if t.kind != "args" {
            continue;
        }
        match t.args.first().map(|s| s.as_str()) {
            Some("E") if t.args.len() == 4 => {
                let optarg = if t.args[2] == "<unset>" { None } else { Some(t.args[2].clone()) };
                let mut it = t.args[3].split(':');
                let a = it.next().and_then(|x| x.parse().ok()).unwrap_or(0);
                let c = it.next().map(|x| x.parse().unwrap_or(0)).unwrap_or(1);
                events.push((t.args[1].clone(), optarg, (a, c)));
            }
            Some("R") => rest = Some(t.args[1..].to_vec()),
            // explicit operands: what is left is what lies behind $OPTIND
            Some("I") if t.args.len() == 2 => match t.args[1].parse::<usize>() {
                Ok(i) if i >= 1 && i <= args.len() + 1 => rest = Some(args[i - 1..].to_vec()),
                _ => ok = false,
            },
            _ => ok = false,
        }
    }
    if rest.is_none() {
        ok = false;
    }
    GRun { args: args.to_vec(), events, rest: rest.unwrap_or_default(), quiet: o.stderr.is_empty(), ok }
}

impl GRun {
    fn coq(&self) -> String {
        let evs: Vec<String> = self
            .events
            .iter()
            .map(|(n, a, (ai, ci))| {
                format!(
                    "({}, {}, ({}, {}))",
                    coq::s(n),
                    coq::opt(a.as_ref().map(|a| coq::s(a))),
                    coq::nat(*ai),
                    coq::nat(*ci)
                )
            })
            .collect();
        format!(
            "(mkGRun {} {} {} {} {})",
            args_coq(&self.args),
            coq::list(&evs),
            args_coq(&self.rest),
            coq::b(self.quiet),
            coq::b(self.ok)
        )
    }
    fn show(&self) -> String {
        let evs: Vec<String> = self
            .events
            .iter()
            .map(|(n, a, (ai, ci))| format!("{}={}@{}:{}", n, a.clone().unwrap_or("<unset>".into()), ai, ci))
            .collect();
        format!(
            "{:?} -> [{}] rest={:?} stderr={}{}",
            self.args,
            evs.join(" "),
            self.rest,
            if self.quiet { "empty" } else { "text" },
            if self.ok { "" } else { " (FAILED)" }
        )
    }
}

fn emit_getopts(
    w: &mut CasesWriter,
    raw: &str,
    unknown: &[char],
    os: &[(usize, Option<String>)],
    missing: Option<usize>,
    ops: &[String],
    spellings: &[Vec<String>],
) {
    let mut runs: Vec<GRun> = spellings.iter().map(|v| run_getopts_loop(raw, v, false)).collect();
    // the same vectors as explicit operands of getopts (never empty: with no
    // operand getopts reads the positional parameters)
    runs.extend(spellings.iter().filter(|v| !v.is_empty()).take(2).map(|v| run_getopts_loop(raw, v, true)));
    w.count(&format!("3:spellings{}", runs.len().min(8)));
    w.count(if raw.starts_with(':') { "3:silent" } else { "3:verbose" });
    let n_known = getopts_table(raw, &[]).len();
    if os.iter().any(|(i, _)| *i >= n_known) {
        w.count("3:with-unknown-option");
    }
    if missing.is_some() {
        w.count("3:missing-argument");
    }
    let unk: Vec<String> = unknown.iter().map(|c| coq::n(*c as u64)).collect();
    let os_coq: Vec<String> = os
        .iter()
        .map(|(i, a)| coq::pair(&coq::nat(*i), &coq::opt(a.as_ref().map(|a| coq::s(a)))))
        .collect();
    let runs_coq: Vec<String> = runs.iter().map(|r| r.coq()).collect();
    let term = format!(
        "(CGetopts {} {} {} {} {} {})",
        coq::s(raw),
        coq::list(&unk),
        coq::list(&os_coq),
        coq::opt(missing.map(coq::nat)),
        args_coq(ops),
        coq::list(&runs_coq)
    );
    let shown: Vec<String> = runs.iter().map(|r| r.show()).collect();
    let json = format!(
        "{{\"stream\":\"3\",\"optstring\":{},\"unknown\":{},\"options\":{},\"missing\":{},\"operands\":{},\"runs\":{}}}",
        json_str(raw),
        json_str(&format!("{unknown:?}")),
        json_str(&format!("{os:?}")),
        json_str(&format!("{missing:?}")),
        json_str_list(ops),
        json_str_list(&shown)
    );
    let key = if runs.len() >= 2 { Some(format!("3|{raw}|{os:?}|{missing:?}|{ops:?}")) } else { None };
    w.push(&term, &json, &[], key);
}

fn getopts_stream(w: &mut CasesWriter, rng: &mut Rng, n: usize) {
    // hand-written: an unknown character inside a group, then more characters
    for raw in ["ab:", ":ab:"] {
        let unknown = ['x'];
        // table: a(0) b:(1) x(2)
        let os = vec![(0, None), (2, None), (1, Some("arg".to_string()))];
        let sp: Vec<Vec<String>> = [
            vec!["-axb", "arg"],
            vec!["-a", "-xb", "arg"],
            vec!["-axbarg"],
            vec!["-a", "-x", "-b", "arg"],
            vec!["-ax", "-barg", "--"],
        ]
        .iter()
        .map(|v| strings(v))
        .collect();
        emit_getopts(w, raw, &unknown, &os, None, &[], &sp);
        let os2 = vec![(2, None), (2, None), (0, None)];
        let sp2: Vec<Vec<String>> = [vec!["-xxa", "op", "-a"], vec!["-x", "-xa", "--", "op", "-a"], vec!["-xx", "-a", "op", "-a"]]
            .iter()
            .map(|v| strings(v))
            .collect();
        emit_getopts(w, raw, &unknown, &os2, None, &strings(&["op", "-a"]), &sp2);
        // missing option-argument at the end, after an unknown character
        let os3 = vec![(0, None), (2, None)];
        let sp3: Vec<Vec<String>> =
            [vec!["-axb"], vec!["-a", "-xb"], vec!["-a", "-x", "-b"], vec!["-ax", "-b"]].iter().map(|v| strings(v)).collect();
        emit_getopts(w, raw, &unknown, &os3, Some(1), &[], &sp3);
        // a hyphen and a colon as (unknown) option characters inside a group
        let unknown2 = ['-', ':'];
        let os4 = vec![(0, None), (2, None), (3, None), (1, Some("-".to_string()))];
        let sp4: Vec<Vec<String>> = [vec!["-a-:b-"], vec!["-a-:b", "-"], vec!["-a-", "-:", "-b", "-"]].iter().map(|v| strings(v)).collect();
        emit_getopts(w, raw, &unknown2, &os4, None, &[], &sp4);
    }
    let argvals = ["X", "", "-", "--", "-a", "a b", ":", "?"];
    let opvals = ["X", "-", "", "-a", "--", "Y", "-x"];
    for k in 0..n {
        let mut r = rng.fork(0x3000_0000 + k as u64);
        // option string
        // every fourth case: option characters outside ASCII (2-, 3- and 4-byte
        // UTF-8) and non-letters, so that byte offsets and character offsets
        // into the option string differ
        let wide = k % 4 == 3;
        let mut letters = if wide { vec!['é', 'λ', 'あ', '𝄞', 'a', '7'] } else { vec!['a', 'b', 'c', 'o', 'V'] };
        let mut raw = String::new();
        if r.chance(1, 2) {
            raw.push(':');
        }
        let nk = 1 + r.below(4);
        for _ in 0..nk {
            let c = letters.remove(r.below(letters.len()));
            raw.push(c);
            if r.chance(2, 5) {
                raw.push(':');
            }
        }
        let unknown: Vec<char> = match r.below(4) {
            0 => vec![],
            1 => vec![if wide { 'ü' } else { 'x' }],
            2 => vec!['x', if wide { 'ж' } else { 'z' }],
            _ => vec!['x', ':'],
        };
        let table = getopts_table(&raw, &unknown);
        let n_known = table.len() - unknown.len();
        let no = r.below(6);
        let os: Vec<(usize, Option<String>)> = (0..no)
            .map(|_| {
                let i = if !unknown.is_empty() && r.chance(1, 3) { n_known + r.below(unknown.len()) } else { r.below(n_known) };
                let a = if table[i].arg { Some(r.pick(&argvals).to_string()) } else { None };
                (i, a)
            })
            .collect();
        let takers: Vec<usize> = (0..n_known).filter(|&i| table[i].arg && first_short(&table, table[i].short.unwrap()) == Some(i)).collect();
        let missing = if !takers.is_empty() && r.chance(1, 6) { Some(*r.pick(&takers)) } else { None };
        let ops: Vec<String> = if missing.is_some() {
            vec![]
        } else {
            (0..r.below(3)).map(|_| r.pick(&opvals).to_string()).collect()
        };
        let mut spellings: Vec<Vec<String>> = vec![];
        for _ in 0..24 {
            if spellings.len() >= 5 {
                break;
            }
            let v = match missing {
                None => spell(&mut r, &table, GMODE, &os, &ops),
                Some(i) => {
                    let mut os2 = os.clone();
                    os2.push((i, Some("ZZ".to_string())));
                    match spell(&mut r, &table, GMODE, &os2, &[]) {
                        Some(mut v) if v.last().map(|s| s.as_str()) == Some("ZZ") && v.len() >= 2 => {
                            v.pop();
                            // the argument must have been a separate field
                            if v.last().is_some_and(|f| f.starts_with('-') && f.ends_with(table[i].short.unwrap()) && f != "--") {
                                Some(v)
                            } else {
                                None
                            }
                        }
                        _ => None,
                    }
                }
            };
            if let Some(v) = v {
                if !spellings.contains(&v) {
                    spellings.push(v);
                }
            }
        }
        if spellings.is_empty() {
            continue;
        }
        emit_getopts(w, &raw, &unknown, &os, missing, &ops, &spellings);
    }
}

// ---------------------------------------------------------------------------
// stream 4: kill's own parser, through yash_builtin::kill::syntax::parse
// ---------------------------------------------------------------------------

const KILL_TOKENS: [&str; 56] = [
    "-s", "-n", "-l", "-v", "-lv", "-vl", "-ll", "--", "-", "TERM", "term", "SIGTERM", "sigint", "9", "0",
    "-9", "-TERM", "-term", "-int", "-stop", "-sTERM", "-sterm", "-n9", "-s9", "-sSIGINT", "-stopx",
    "-lost", "-vtalrm", "-LOST", "-Vtalrm", "-lx", "-vs", "-ls", "-x", "--foo", "--9", "-+9", "123", "%1",
    "-1", "", "-siglost", "-sigvtalrm", "-99999999999", "+5", "-l9", "-lTERM", "-nterm", "-sl", "-segv",
    "-nINT", "-vv", "foo", "-sfoo", "-0", "-SIGlost",
];

fn kill_stream(w: &mut CasesWriter, rng: &mut Rng, exhaustive_len: usize, random: usize) {
    use yash_builtin::kill::syntax::{Error as KErr, parse as kill_parse, parse_signal};
    use yash_builtin::kill::Command as KCommand;
    use yash_env::system::Signals;
    use yash_env::system::r#virtual::VirtualSystem;
    let env = yash_env::Env::new_virtual();
    let table: Vec<String> = <VirtualSystem as Signals>::NAMED_SIGNALS
        .iter()
        .filter_map(|(n, v)| v.map(|v| format!("({}, {})", coq::s(n), coq::z(v.as_raw() as i128))))
        .collect();
    let table = coq::list(&table);
    let term = VirtualSystem::SIGTERM.as_raw() as i128;
    let emit = |w: &mut CasesWriter, args: &[String], stream: &str| {
        let fields: Vec<Field> = args.iter().map(|a| Field::dummy(a.clone())).collect();
        let r = catch_unwind(AssertUnwindSafe(|| kill_parse(&env, fields)));
        let (term_r, human, class) = match &r {
            Err(_) => ("None".to_string(), "PANIC".to_string(), "panic"),
            Ok(Ok(KCommand::Send { signal, signal_origin, targets })) => {
                let t: Vec<String> = targets.iter().map(|f| coq::s(&f.value)).collect();
                (
                    format!(
                        "(Some (KOk (KSend {} {} {})))",
                        coq::z(*signal as i128),
                        coq::opt(signal_origin.as_ref().map(|f| coq::s(&f.value))),
                        coq::list(&t)
                    ),
                    format!("Send {} {:?}", signal, targets.iter().map(|f| &f.value).collect::<Vec<_>>()),
                    "send",
                )
            }
            Ok(Ok(KCommand::Print { signals, verbose })) => {
                let t: Vec<String> = signals.iter().map(|f| coq::s(&f.value)).collect();
                (
                    format!("(Some (KOk (KPrint {} {})))", coq::list(&t), coq::b(*verbose)),
                    format!("Print v={} {:?}", verbose, signals.iter().map(|f| &f.value).collect::<Vec<_>>()),
                    "print",
                )
            }
            Ok(Err(e)) => {
                let t = match e {
                    KErr::UnknownOption(f) => format!("(KUnknownOption {})", coq::s(&f.value)),
                    KErr::ConflictingOptions { signal_arg, list_option_name, list_option_location } => format!(
                        "(KConflicting {} {} {})",
                        coq::s(&signal_arg.value),
                        coq::n(*list_option_name as u64),
                        coq::s(&loc_text(list_option_location))
                    ),
                    KErr::MissingSignal { signal_option_name, signal_option_location } => format!(
                        "(KMissingSignal {} {})",
                        coq::n(*signal_option_name as u64),
                        coq::s(&loc_text(signal_option_location))
                    ),
                    KErr::MultipleSignals(a, b) => format!("(KMultiple {} {})", coq::s(&a.value), coq::s(&b.value)),
                    KErr::InvalidSignal(f) => format!("(KInvalidSignal {})", coq::s(&f.value)),
                    KErr::MissingTarget => "KMissingTarget".to_string(),
                    other => panic!("kill: error outside the non-portable model: {other:?}"),
                };
                (format!("(Some (KErr {}))", t), format!("Err {e}"), "error")
            }
            Ok(Ok(other)) => panic!("kill: unknown command variant {other:?}"),
        };
        // the open finding F42: -SIGNAL whose lower-case name starts with l or v
        let known = args.first().is_some_and(|f| {
            let mut c = f.chars();
            c.next() == Some('-')
                && matches!(c.next(), Some('l' | 'v'))
                && !f[1..].chars().all(|x| x == 'l' || x == 'v')
                && parse_signal(&env.system, &f[1..], true).is_some()
        });
        w.count(&format!("4:{class}"));
        if known {
            w.count("4:known-lv-cluster");
        }
        let term_c = format!("(CKill {} {} {} {})", table, coq::z(term), args_coq(args), term_r);
        let json = format!(
            "{{\"stream\":{},\"builtin\":\"kill::syntax::parse\",\"args\":{},\"result\":{}}}",
            json_str(stream),
            json_str_list(args),
            json_str(&human)
        );
        let tags: &[&str] = if known { &["C20-kill-lv-cluster"] } else { &[] };
        let key = if args.len() >= 2 { Some(format!("kill|{args:?}")) } else { None };
        w.push(&term_c, &json, tags, key);
    };
    // corpus: the finding, its equivalents, and `--foo`
    for v in [
        vec!["-vtalrm", "1"],
        vec!["-VTALRM", "1"],
        vec!["-s", "vtalrm", "1"],
        vec!["-lost", "1"],
        vec!["--foo", "1"],
        vec!["-s", "TERM", "--", "-1"],
        vec!["-stop", "1"],
        vec!["-l", "-v", "--", "-9"],
        vec!["-lvls", "TERM"],
    ] {
        emit(w, &strings(&v), "4-corpus");
    }
    let mut idx: Vec<usize> = vec![];
    loop {
        let v: Vec<String> = idx.iter().map(|&i| KILL_TOKENS[i].to_string()).collect();
        emit(w, &v, "4-exhaustive");
        let mut k = idx.len();
        loop {
            if k == 0 {
                idx = vec![0; idx.len() + 1];
                break;
            }
            k -= 1;
            if idx[k] + 1 < KILL_TOKENS.len() {
                idx[k] += 1;
                for j in k + 1..idx.len() {
                    idx[j] = 0;
                }
                break;
            }
        }
        if idx.len() > exhaustive_len {
            break;
        }
    }
    for k in 0..random {
        let mut r = rng.fork(0x4000_0000 + k as u64);
        let n = 1 + r.below(5);
        let v: Vec<String> = (0..n).map(|_| r.pick(&KILL_TOKENS).to_string()).collect();
        emit(w, &v, "4-random");
    }
}

// ---------------------------------------------------------------------------
// stream 5: set's own parser, through yash_builtin::set::syntax::parse
// ---------------------------------------------------------------------------

const SET_LETTERS: [char; 14] = ['a', 'C', 'e', 'f', 'm', 'n', 'u', 'v', 'x', 'b', 'c', 'i', 's', 'Z'];
const SET_NAMES: [&str; 30] = [
    "errexit", "noerrexit", "nounset", "unset", "noglob", "glob", "xtrace", "verbose", "allexport",
    "noclobber", "clobber", "errex", "nounse", "notify", "monitor", "vi", "log", "nolog", "pipefail",
    "err-exit", "ERREXIT", "err_exit", "lo", "no", "nosuchoption", "cmdline", "interactive", "", "e",
    "noxtrace",
];

fn set_stream(w: &mut CasesWriter, rng: &mut Rng, n_spell: usize, n_raw: usize) {
    use yash_builtin::set::Command as SCommand;
    use yash_builtin::set::syntax::{Error as SErr, parse as set_parse};
    use yash_env::option::{FromStrError, Option as ShOpt, State, canonicalize, parse_long, parse_short};
    let on = |s: State| s == State::On;
    let optname = |o: ShOpt| format!("{o:?}");
    // the tables
    let sht: Vec<String> = SET_LETTERS
        .iter()
        .chain(['-', '+', 'o', '='].iter())
        .filter(|c| **c != 'o')
        .map(|&c| {
            let v = parse_short(c).map(|(o, st)| {
                format!("({}, {}, {})", coq::s(&optname(o)), coq::b(on(st)), coq::b(o.is_modifiable()))
            });
            format!("({}, {})", coq::n(c as u64), coq::opt(v))
        })
        .collect();
    let raw_tokens: Vec<&str> = vec![
        "-e", "+e", "-eu", "+eu", "-o", "+o", "-eo", "-oerrexit", "+onounset", "--errexit", "++errexit", "--",
        "-", "x", "-Z", "-eZ", "-c", "-i", "-s", "--lo", "--no", "--nosuchoption", "++", "--cmdline",
        "-ocmdline", "-+", "+-", "-e-", "+", "-ovi", "-oe",
    ];
    let mut all_names: Vec<&str> = SET_NAMES.to_vec();
    for t in &raw_tokens {
        if !all_names.contains(t) {
            all_names.push(t);
        }
    }
    let lt: Vec<String> = all_names
        .iter()
        .map(|n| {
            let r = match parse_long(&canonicalize(n)) {
                Ok((o, st)) => format!("(LOk {} {} {})", coq::s(&optname(o)), coq::b(on(st)), coq::b(o.is_modifiable())),
                Err(FromStrError::NoSuchOption) => "LNoSuch".to_string(),
                Err(FromStrError::Ambiguous) => "LAmbiguous".to_string(),
            };
            format!("({}, {})", coq::s(n), r)
        })
        .collect();
    let (sht, lt) = (coq::list(&sht), coq::list(&lt));
    let run = |args: &[String]| -> (Option<String>, String) {
        let fields: Vec<Field> = args.iter().map(|a| Field::dummy(a.clone())).collect();
        match catch_unwind(AssertUnwindSafe(|| set_parse(fields, State::Off))) {
            Err(_) => (None, "PANIC".into()),
            Ok(Ok(SCommand::PrintVariables)) => (Some("SPrintVariables".into()), "PrintVariables".into()),
            Ok(Ok(SCommand::PrintOptionsHumanReadable)) => (Some("SPrintHuman".into()), "PrintOptions".into()),
            Ok(Ok(SCommand::PrintOptionsMachineReadable)) => (Some("SPrintMachine".into()), "PrintOptions(+o)".into()),
            Ok(Ok(SCommand::Modify { options, positional_params })) => {
                let os: Vec<String> =
                    options.iter().map(|(o, st)| format!("({}, {})", coq::s(&optname(*o)), coq::b(on(*st)))).collect();
                let p = positional_params.as_ref().map(|v| {
                    let l: Vec<String> = v.iter().map(|f| coq::s(&f.value)).collect();
                    coq::list(&l)
                });
                (
                    Some(format!("(SModify {} {})", coq::list(&os), coq::opt(p))),
                    format!(
                        "Modify {:?} {:?}",
                        options,
                        positional_params.as_ref().map(|v| v.iter().map(|f| f.value.clone()).collect::<Vec<_>>())
                    ),
                )
            }
            Ok(Err(e)) => {
                let t = match &e {
                    SErr::UnknownShortOption(c, f) => format!("(SUnknownShort {} {})", coq::n(*c as u64), coq::s(&f.value)),
                    SErr::UnknownLongOption(f) => format!("(SUnknownLong {})", coq::s(&f.value)),
                    SErr::AmbiguousLongOption(f) => format!("(SAmbiguousLong {})", coq::s(&f.value)),
                    SErr::MissingOptionArgument(f) => format!("(SMissingArg {})", coq::s(&f.value)),
                    SErr::UnmodifiableShortOption(c, f) => format!("(SUnmodShort {} {})", coq::n(*c as u64), coq::s(&f.value)),
                    SErr::UnmodifiableLongOption(f) => format!("(SUnmodLong {})", coq::s(&f.value)),
                    other => panic!("set: error outside the non-portable model: {other:?}"),
                };
                (Some(format!("(SErr {})", t)), format!("Err {e}"))
            }
        }
    };
    // everything that denotes (option, new state): (sign, letter) and (sign, name)
    let mut shorts: Vec<(ShOpt, bool, bool, char)> = vec![]; // opt, new state, negate, letter
    for &c in &SET_LETTERS {
        if let Some((o, st)) = parse_short(c) {
            if o.is_modifiable() && o != ShOpt::Portable {
                shorts.push((o, on(st), false, c));
                shorts.push((o, !on(st), true, c));
            }
        }
    }
    let mut longs: Vec<(ShOpt, bool, bool, &str)> = vec![];
    for n in SET_NAMES {
        if let Ok((o, st)) = parse_long(&canonicalize(n)) {
            if o.is_modifiable() && o != ShOpt::Portable {
                longs.push((o, on(st), false, n));
                longs.push((o, !on(st), true, n));
            }
        }
    }
    for k in 0..n_spell {
        let mut r = rng.fork(0x5000_0000 + k as u64);
        let no = r.below(5);
        let os: Vec<(ShOpt, bool)> = (0..no)
            .map(|_| {
                if r.chance(1, 2) {
                    let x = r.pick(&shorts);
                    (x.0, x.1)
                } else {
                    let x = r.pick(&longs);
                    (x.0, x.1)
                }
            })
            .collect();
        let params: Option<Vec<String>> = match r.below(4) {
            0 => None,
            1 => Some(vec![]),
            _ => Some((0..1 + r.below(3)).map(|_| r.pick(&["x", "-y", "+z", "--", "-", "", "-o"]).to_string()).collect()),
        };
        if os.is_empty() && params.is_none() {
            continue;
        }
        let mut spellings: Vec<Vec<String>> = vec![];
        for _ in 0..16 {
            if spellings.len() >= 4 {
                break;
            }
            let mut v: Vec<String> = vec![];
            // (sign of the open group of letters, if the last field is one)
            let mut open: Option<bool> = None;
            for (o, st) in &os {
                let ss: Vec<&(ShOpt, bool, bool, char)> = shorts.iter().filter(|x| x.0 == *o && x.1 == *st).collect();
                let ls: Vec<&(ShOpt, bool, bool, &str)> =
                    longs.iter().filter(|x| x.0 == *o && x.1 == *st && !x.3.is_empty()).collect();
                let use_short = !ss.is_empty() && (ls.is_empty() || r.chance(1, 2));
                if use_short {
                    let x = r.pick(&ss);
                    let sign = if x.2 { '+' } else { '-' };
                    if open == Some(x.2) && r.chance(1, 2) {
                        v.last_mut().unwrap().push(x.3);
                    } else {
                        v.push(format!("{sign}{}", x.3));
                        open = Some(x.2);
                    }
                } else {
                    let x = r.pick(&ls);
                    let sign = if x.2 { '+' } else { '-' };
                    match r.below(4) {
                        0 => {
                            v.push(format!("{sign}{sign}{}", x.3));
                            open = None;
                        }
                        1 => {
                            if open == Some(x.2) && r.chance(1, 2) {
                                v.last_mut().unwrap().push_str(&format!("o{}", x.3));
                            } else {
                                v.push(format!("{sign}o{}", x.3));
                            }
                            open = None;
                        }
                        _ => {
                            if open == Some(x.2) && r.chance(1, 2) {
                                v.last_mut().unwrap().push('o');
                            } else {
                                v.push(format!("{sign}o"));
                            }
                            v.push(x.3.to_string());
                            open = None;
                        }
                    }
                }
            }
            if let Some(p) = &params {
                let first_needs = p.first().is_none_or(|f| {
                    f == "--" || f == "-" || ((f.starts_with('-') || f.starts_with('+')) && f.len() >= 2)
                });
                if first_needs || r.chance(1, 3) {
                    v.push(if r.chance(1, 2) { "--".into() } else { "-".into() });
                }
                v.extend(p.iter().cloned());
            }
            // `set -o` / `set +o` alone print the options instead
            if v.len() == 1 && (v[0] == "-o" || v[0] == "+o") {
                continue;
            }
            if !spellings.contains(&v) && !v.is_empty() {
                spellings.push(v);
            }
        }
        if spellings.is_empty() {
            continue;
        }
        let mut terms = vec![];
        let mut humans = vec![];
        let mut panicked = false;
        for v in &spellings {
            let (t, h) = run(v);
            match t {
                Some(t) => terms.push(coq::pair(&args_coq(v), &t)),
                None => panicked = true,
            }
            humans.push(format!("{:?} -> {}", v, h));
        }
        w.count(&format!("5:spellings{}", spellings.len()));
        let os_coq: Vec<String> =
            os.iter().map(|(o, st)| format!("({}, {})", coq::s(&optname(*o)), coq::b(*st))).collect();
        let p_coq = coq::opt(params.as_ref().map(|p| args_coq(p)));
        let term = if panicked {
            format!("(CSetRaw {} {} {} None)", sht, lt, args_coq(&spellings[0]))
        } else {
            format!("(CSetSpell {} {} {} {} {})", sht, lt, coq::list(&os_coq), p_coq, coq::list(&terms))
        };
        let json = format!(
            "{{\"stream\":\"5-spell\",\"builtin\":\"set::syntax::parse\",\"options\":{},\"params\":{},\"spellings\":{}}}",
            json_str(&format!("{os:?}")),
            json_str(&format!("{params:?}")),
            json_str_list(&humans)
        );
        let key = if spellings.len() >= 2 { Some(format!("set|{os:?}|{params:?}")) } else { None };
        w.push(&term, &json, &[], key);
    }
    // raw vectors (malformed ones included): lock-step with the model
    let tokens: Vec<String> = all_names.iter().map(|s| s.to_string()).collect();
    for k in 0..n_raw {
        let mut r = rng.fork(0x5100_0000 + k as u64);
        let n = r.below(5);
        let v: Vec<String> = (0..n).map(|_| r.pick(&tokens).clone()).collect();
        let (t, h) = run(&v);
        w.count(if h.starts_with("Err") { "5:raw-error" } else { "5:raw-ok" });
        let term = format!("(CSetRaw {} {} {} {})", sht, lt, args_coq(&v), coq::opt(t));
        let json = format!(
            "{{\"stream\":\"5-raw\",\"builtin\":\"set::syntax::parse\",\"args\":{},\"result\":{}}}",
            json_str_list(&v),
            json_str(&h)
        );
        let key = if v.len() >= 2 { Some(format!("setraw|{v:?}")) } else { None };
        w.push(&term, &json, &[], key);
    }
}

// ---------------------------------------------------------------------------
// stream 6: typeset's own long-option rule, through typeset::syntax::parse
// ---------------------------------------------------------------------------

fn typeset_stream(w: &mut CasesWriter, rng: &mut Rng, n: usize) {
    use yash_builtin::typeset::syntax::{ALL_OPTIONS, OptionSpec as TSpec, ParseError as TErr, parse as tparse};
    let run = |specs: &[TSpec<'_>], name: &str| -> String {
        let args = vec![Field::dummy(format!("--{name}"))];
        match tparse(specs, Mode::with_extensions(), args) {
            Ok((options, _)) if options.len() == 1 => {
                let i = specs.iter().position(|s| std::ptr::eq(s, options[0].spec)).unwrap();
                format!("(TFound {})", coq::nat(i))
            }
            Err(TErr::UnknownLongOption(_)) => "TUnknown".into(),
            Err(TErr::AmbiguousLongOption(_)) => "TAmbiguous".into(),
            other => panic!("typeset: unexpected result {other:?}"),
        }
    };
    let emit = |w: &mut CasesWriter, real: bool, specs: &[TSpec<'_>], name: &str| {
        let r = run(specs, name);
        let t: Vec<String> = specs.iter().map(|s| sp(None, Some(s.long), false, false).coq()).collect();
        let term = format!("(CTypesetLong {} {} {} {})", coq::b(real), coq::list(&t), coq::s(name), r);
        let longs: Vec<&str> = specs.iter().map(|s| s.long).collect();
        let json = format!(
            "{{\"stream\":\"6\",\"builtin\":\"typeset::syntax::parse\",\"real_table\":{},\"longs\":{},\"name\":{},\"result\":{}}}",
            real,
            json_str(&format!("{longs:?}")),
            json_str(name),
            json_str(&r)
        );
        w.count(if real { "6:real-table" } else { "6:synthetic-table" });
        w.push(&term, &json, &[], Some(format!("typeset|{real}|{longs:?}|{name}")));
    };
    // the real table: every prefix of every name, and some non-names
    for s in ALL_OPTIONS {
        let cs: Vec<char> = s.long.chars().collect();
        for k in 1..=cs.len() {
            let p: String = cs[..k].iter().collect();
            emit(w, true, ALL_OPTIONS, &p);
        }
    }
    for nme in ["x", "exports", "un", "printx", "re", "r"] {
        emit(w, true, ALL_OPTIONS, nme);
    }
    // synthetic tables where a name is a prefix of another
    let pool = ["print", "printx", "pri", "export", "ex", "unexport", "p", "global", "glob"];
    for k in 0..n {
        let mut r = rng.fork(0x6000_0000 + k as u64);
        let m = 1 + r.below(4);
        let specs: Vec<TSpec<'static>> = (0..m)
            .map(|i| TSpec { short: (b'a' + i as u8) as char, long: *r.pick(&pool), attr: None })
            .collect();
        let name = match r.below(3) {
            0 => r.pick(&pool).to_string(),
            1 => {
                let l = r.pick(&pool);
                l[..1 + r.below(l.len())].to_string()
            }
            _ => r.pick(&["x", "pr", "e", "g", "printxy"]).to_string(),
        };
        emit(w, false, &specs, &name);
    }
}

// ---------------------------------------------------------------------------
// generators
// ---------------------------------------------------------------------------

/// The token set named by the property.
const TOKENS: [&str; 11] =
    ["-", "--", "-a", "-ab", "-b", "-oX", "-o", "--long", "--lo", "--long=X", "X"];

/// More tokens for the random stream.
const MORE_TOKENS: [&str; 30] = [
    "-ba", "-abo", "-aoX", "-oa", "-o-", "-a-", "-x", "-ax", "--l", "--lot", "--lo=X", "--lot=",
    "--other", "--ot", "--o", "--long=", "--=X", "--=", "---", "--x", "--long=X=Y", "", "-é",
    "-aé", "-éa", "--lon", "Y", "-é-", "--lo=", "-oXY",
];

/// Tables the property's tokens are meaningful for.
fn table_family() -> Vec<Vec<Spec>> {
    let mut v = vec![];
    let a_variants = [
        Some(sp(Some('a'), None, false, false)),
        Some(sp(Some('a'), Some("long"), false, false)),
        Some(sp(Some('a'), Some("lo"), false, false)),
        Some(sp(Some('a'), Some("long"), true, false)),
        None,
    ];
    let b_variants = [
        Some(sp(Some('b'), None, false, false)),
        Some(sp(Some('b'), Some("lot"), false, false)),
        Some(sp(Some('b'), Some("long"), false, true)),
        Some(sp(Some('b'), None, true, false)),
        None,
    ];
    let o_variants = [
        Some(sp(Some('o'), None, true, false)),
        Some(sp(Some('o'), Some("long"), true, false)),
        Some(sp(Some('o'), Some("lo"), true, true)),
        Some(sp(Some('o'), None, false, false)),
        Some(sp(None, Some("long"), true, false)),
        None,
    ];
    for a in &a_variants {
        for b in &b_variants {
            for o in &o_variants {
                let t: Vec<Spec> = [a, b, o].iter().filter_map(|x| (*x).clone()).collect();
                v.push(t);
            }
        }
    }
    v
}

fn random_table(rng: &mut Rng) -> Vec<Spec> {
    let shorts = ['a', 'b', 'o', 'é', 'x', '-', '=', 'a'];
    let longs = ["long", "lo", "lot", "other", "o", "l", "long", "", "a=b", "lönger"];
    let n = rng.below(5);
    (0..n)
        .map(|_| {
            let short = if rng.chance(4, 5) { Some(*rng.pick(&shorts)) } else { None };
            let long = if rng.chance(3, 5) { Some(*rng.pick(&longs)) } else { None };
            sp(short, long, rng.chance(2, 5), rng.chance(1, 5))
        })
        .collect()
}

/// A table without repeated names and odd characters (for stream 1b).
fn clean_table(rng: &mut Rng) -> Vec<Spec> {
    let mut shorts = vec!['a', 'b', 'o', 'é', 'x', 'V'];
    let mut longs = vec!["long", "lo", "lot", "other", "o", "verbose-identify", "lönger", "x"];
    let n = 1 + rng.below(5);
    let mut v = vec![];
    for _ in 0..n {
        let short = if rng.chance(4, 5) && !shorts.is_empty() {
            Some(shorts.remove(rng.below(shorts.len())))
        } else {
            None
        };
        let long = if (short.is_none() || rng.chance(3, 5)) && !longs.is_empty() {
            Some(longs.remove(rng.below(longs.len())))
        } else {
            None
        };
        if short.is_none() && long.is_none() {
            continue;
        }
        v.push(sp(short, long, rng.chance(2, 5), rng.chance(1, 6)));
    }
    v
}

fn random_mode(rng: &mut Rng) -> M {
    match rng.below(10) {
        0..=5 => WITH_EXT,
        6 => PORTABLE,
        _ => M { long: rng.chance(1, 2), ext: rng.chance(1, 2), same: rng.chance(1, 2) },
    }
}

fn strings(v: &[&str]) -> Vec<String> {
    v.iter().map(|s| s.to_string()).collect()
}

fn corpus(w: &mut CasesWriter) {
    let t1 = vec![
        sp(Some('a'), None, false, false),
        sp(Some('b'), Some("bar"), false, false),
        sp(None, Some("baz"), true, false),
    ];
    // the example of the module documentation
    emit_parse(w, &t1, WITH_EXT, &strings(&["-ba", "--baz", "--", "--bar", "--", "-a", "foo"]), "corpus");
    let t2 = vec![
        sp(Some('a'), Some("long"), false, false),
        sp(Some('b'), Some("lot"), false, false),
        sp(Some('o'), Some("other"), true, false),
    ];
    for v in [
        vec!["-ab", "-oX", "X"],
        vec!["-a", "-b", "-o", "X", "X"],
        vec!["-abo", "X", "--", "X"],
        vec!["-aboX", "--", "X"],
        vec!["--long", "--lot", "--other=X", "X"],
        vec!["--lon", "--lot", "--ot", "X", "X"],
        vec!["--lo"],
        vec!["--l"],
        vec!["--o", "--"],
        vec!["--o"],
        vec!["-o"],
        vec!["-ao"],
        vec!["-x"],
        vec!["-ax"],
        vec!["--long=X"],
        vec!["--=X"],
        vec!["--="],
        vec!["---"],
        vec!["-", "-a"],
        vec!["--", "-a"],
        vec!["X", "-a"],
        vec!["-a", "", "-b"],
        vec!["-o", "--", "--", "-a"],
        vec!["-o", "-a", "-b"],
        vec!["--other", "--long", "--long"],
        vec!["-a-"],
        vec!["-o-"],
    ] {
        emit_parse(w, &t2, WITH_EXT, &strings(&v), "corpus");
        emit_parse(w, &t2, PORTABLE, &strings(&v), "corpus");
    }
    // repeated names, exact match after partial matches, empty long name
    let t3 = vec![
        sp(Some('a'), Some("many"), false, false),
        sp(Some('a'), Some("man"), true, false),
        sp(Some('m'), Some("manual"), false, true),
        sp(None, Some("man"), false, false),
        sp(None, Some(""), false, false),
    ];
    for v in [
        vec!["--man", "x"],
        vec!["--ma"],
        vec!["--many"],
        vec!["--manu"],
        vec!["-a", "x"],
        vec!["-m"],
        vec!["-am"],
        vec!["--=x"],
        vec!["--man=x", "--", "y"],
    ] {
        for m in [WITH_EXT, M { long: true, ext: false, same: true }, M { long: false, ext: true, same: false }] {
            emit_parse(w, &t3, m, &strings(&v), "corpus");
        }
    }
    // non-ASCII option letters: byte indices in `Short(index)`
    let t4 = vec![
        sp(Some('é'), None, false, false),
        sp(Some('a'), None, false, false),
        sp(Some('𝄞'), Some("lönger"), true, false),
    ];
    for v in [vec!["-éaé𝄞x"], vec!["-aé", "-𝄞", "ü"], vec!["--lö=é"], vec!["--lönger", "é"], vec!["-éx"]] {
        emit_parse(w, &t4, WITH_EXT, &strings(&v), "corpus");
    }
}

fn exhaustive(w: &mut CasesWriter, tables: &[Vec<Spec>], modes: &[M], max_len: usize) {
    for t in tables {
        for &m in modes {
            let mut idx: Vec<usize> = vec![];
            loop {
                let v: Vec<String> = idx.iter().map(|&i| TOKENS[i].to_string()).collect();
                emit_parse(w, t, m, &v, "1a-exhaustive");
                // next vector in length-lexicographic order
                let mut k = idx.len();
                loop {
                    if k == 0 {
                        idx = vec![0; idx.len() + 1];
                        break;
                    }
                    k -= 1;
                    if idx[k] + 1 < TOKENS.len() {
                        idx[k] += 1;
                        for j in k + 1..idx.len() {
                            idx[j] = 0;
                        }
                        break;
                    }
                }
                if idx.len() > max_len {
                    break;
                }
            }
        }
    }
}

/// Enumeration up to `max_len` with pruning: a vector is not extended once
/// the implementation returned, for it, operands or an error other than a
/// missing option-argument (every extension then only appends operands or
/// keeps the error).
fn exhaustive_pruned(w: &mut CasesWriter, t: &[Spec], m: M, max_len: usize) {
    let mut frontier: Vec<Vec<usize>> = vec![vec![]];
    for _len in 0..=max_len {
        let mut next = vec![];
        for idx in &frontier {
            let v: Vec<String> = idx.iter().map(|&i| TOKENS[i].to_string()).collect();
            let out = run_parser(t, m, &v);
            let live = match (&out.canon, out.class) {
                (Some((_, ops)), _) => ops.is_empty(),
                (None, "err:missing-argument") => true,
                _ => false,
            };
            emit_parse(w, t, m, &v, "1a-pruned");
            if live {
                for k in 0..TOKENS.len() {
                    let mut e = idx.clone();
                    e.push(k);
                    next.push(e);
                }
            }
        }
        frontier = next;
    }
}

fn random_vector(rng: &mut Rng, max: usize) -> Vec<String> {
    let n = rng.below(max + 1);
    (0..n)
        .map(|_| {
            if rng.chance(3, 5) {
                rng.pick(&TOKENS).to_string()
            } else {
                rng.pick(&MORE_TOKENS).to_string()
            }
        })
        .collect()
}

/// A vector made mostly of option fields that mean something for the table.
fn random_vector_for(rng: &mut Rng, specs: &[Spec], max: usize) -> Vec<String> {
    let n = rng.below(max + 1);
    let argvals = ["X", "", "-", "--", "-a", "a=b", "é"];
    let mut v: Vec<String> = vec![];
    while v.len() < n {
        if specs.is_empty() || rng.chance(1, 5) {
            v.push(if rng.chance(1, 2) { rng.pick(&TOKENS).to_string() } else { rng.pick(&MORE_TOKENS).to_string() });
            continue;
        }
        if rng.chance(1, 8) {
            // end of the options
            if rng.chance(1, 2) {
                v.push("--".into());
            }
            while v.len() < n {
                v.push(rng.pick(&["X", "-", "-a", "--", "--long", ""]).to_string());
            }
            break;
        }
        let s = rng.pick(specs).clone();
        let use_long = s.long.is_some() && (s.short.is_none() || rng.chance(2, 5));
        if use_long {
            let l: Vec<char> = s.long.as_ref().unwrap().chars().collect();
            let k = if rng.chance(1, 2) { l.len() } else { rng.below(l.len() + 1) };
            let name: String = l[..k].iter().collect();
            match (s.arg, rng.below(4)) {
                (true, 0) | (false, 0) => v.push(format!("--{name}={}", rng.pick(&argvals))),
                (true, 1) => v.push(format!("--{name}")), // possibly missing its argument
                (true, _) => {
                    v.push(format!("--{name}"));
                    v.push(rng.pick(&argvals).to_string());
                }
                (false, _) => v.push(format!("--{name}")),
            }
        } else if let Some(c) = s.short {
            let mut f = format!("-{c}");
            // group: prepend other flags
            for _ in 0..rng.below(3) {
                let o = rng.pick(specs);
                if let (Some(oc), false) = (o.short, o.arg) {
                    f.insert(1, oc);
                }
            }
            if s.arg {
                match rng.below(3) {
                    0 => f.push_str(rng.pick(&argvals)),
                    1 => {
                        v.push(f);
                        f = rng.pick(&argvals).to_string();
                    }
                    _ => {}
                }
            } else if rng.chance(1, 6) {
                f.push(*rng.pick(&['x', '-', '=', 'a']));
            }
            v.push(f);
        }
    }
    v
}

fn random_invocation(rng: &mut Rng, specs: &[Spec]) -> (Vec<(usize, Option<String>)>, Vec<String>) {
    let argvals = ["X", "", "-", "--", "-a", "a=b", "=", "--long", "é", "X Y"];
    let opvals = ["X", "-", "", "-a", "--", "--long", "Y", "-oX", "é"];
    let n = rng.below(6);
    let os = (0..n)
        .map(|_| {
            let i = rng.below(specs.len());
            let a = if specs[i].arg { Some(rng.pick(&argvals).to_string()) } else { None };
            (i, a)
        })
        .collect();
    let k = rng.below(4);
    let ops = (0..k).map(|_| rng.pick(&opvals).to_string()).collect();
    (os, ops)
}

fn main() {
    let args = Args::parse();
    if let Some(script) = args.opt("script") {
        let o = run_virtual(script);
        println!("status={} panicked={:?} deadlock={} timeout={}", o.status, o.panicked, o.deadlock, o.timeout);
        println!("--- stdout\n{}--- stderr\n{}--- trace\n{:?}", o.stdout, o.stderr, o.trace);
        return;
    }
    let mut rng = Rng::new(args.seed);
    let mut w = CasesWriter::new(&args, "Yv.C20.Run", args.scale(400, 2500));

    corpus(&mut w);

    let family = table_family();
    // the `search` tier (used by the driver when an obligation or the
    // correspondence broke) is a medium-sized run with another seed
    let search = args.tier == "search";
    if search {
        exhaustive(&mut w, &family, &[WITH_EXT], 2);
        let third: Vec<Vec<Spec>> = family.iter().step_by(3).cloned().collect();
        exhaustive(&mut w, &third, &[PORTABLE, M { long: true, ext: false, same: false }], 2);
        let sel: Vec<Vec<Spec>> = family.iter().skip(6).step_by(50).cloned().collect();
        exhaustive(&mut w, &sel, &[WITH_EXT], 3);
    } else if args.thorough() {
        // every table of the family, two modes, all vectors up to length 3;
        // selected tables, all modes, up to length 4
        // every table of the family: all vectors up to length 2; every second
        // table up to length 3 (every sixth also in the portable mode)
        exhaustive(&mut w, &family, &[WITH_EXT], 2);
        let half: Vec<Vec<Spec>> = family.iter().step_by(2).cloned().collect();
        exhaustive(&mut w, &half, &[WITH_EXT], 3);
        let sixth: Vec<Vec<Spec>> = family.iter().step_by(6).cloned().collect();
        exhaustive(&mut w, &sixth, &[PORTABLE], 3);
        // all eight modes up to length 2 on every third table
        let third: Vec<Vec<Spec>> = family.iter().step_by(3).cloned().collect();
        exhaustive(&mut w, &third, &M::all(), 2);
        // two tables: all vectors up to length 4
        let sel: Vec<Vec<Spec>> = family.iter().skip(6).step_by(97).cloned().collect();
        exhaustive(&mut w, &sel, &[WITH_EXT], 4);
        // the property's quantifier: every vector up to length 5 (pruned where
        // an extension cannot tell anything new), on six tables
        for (k, t) in family.iter().enumerate() {
            if k % 25 == 6 {
                exhaustive_pruned(&mut w, t, WITH_EXT, 5);
            }
            if k % 75 == 6 {
                exhaustive_pruned(&mut w, t, PORTABLE, 5);
                exhaustive_pruned(&mut w, t, M { long: true, ext: false, same: false }, 5);
            }
        }
    } else {
        let sel: Vec<Vec<Spec>> = family.iter().step_by(37).cloned().collect();
        exhaustive(&mut w, &sel, &[WITH_EXT], 2);
    }

    // 1a random
    let n = if search { 12000 } else { args.scale(1500, 30000) };
    for k in 0..n {
        let mut r = rng.fork(k as u64);
        let t = if r.chance(1, 2) { r.pick(&family).clone() } else { random_table(&mut r) };
        let m = random_mode(&mut r);
        let v = if r.chance(1, 3) { random_vector(&mut r, 6) } else { random_vector_for(&mut r, &t, 6) };
        emit_parse(&mut w, &t, m, &v, "1a-random");
    }

    // 1b spellings
    let n = if search { 4000 } else { args.scale(500, 10000) };
    for k in 0..n {
        let mut r = rng.fork(0x1b00_0000 + k as u64);
        let t = clean_table(&mut r);
        if t.is_empty() {
            continue;
        }
        let m = random_mode(&mut r);
        let (os, ops) = random_invocation(&mut r, &t);
        emit_spell(&mut w, &mut r, &t, m, &os, &ops, 4);
    }

    // 2: real built-ins
    {
        let mut r = rng.fork(0x2000_0000);
        shell_stream(&mut w, &mut r, args.scale(6, 24), WITH_EXT);
        shell_stream(&mut w, &mut r, args.scale(3, 6), PORTABLE);
        bespoke_stream(&mut w);
        cli_stream(&mut w);
        let mut r6 = rng.fork(0x6000_0000);
        typeset_stream(&mut w, &mut r6, args.scale(150, 1500));
        let mut r5 = rng.fork(0x5000_0000);
        if search {
            set_stream(&mut w, &mut r5, 1000, 2000);
        } else {
            set_stream(&mut w, &mut r5, args.scale(150, 4000), args.scale(250, 6000));
        }
        let mut r4 = rng.fork(0x4000_0000);
        if search {
            kill_stream(&mut w, &mut r4, 1, 3000);
        } else {
            kill_stream(&mut w, &mut r4, args.scale(1, 2), args.scale(300, 8000));
        }
        let mut r3 = rng.fork(0x3000_0000);
        getopts_stream(&mut w, &mut r3, if search { 1500 } else { args.scale(300, 3000) });
    }

    w.finish(
        "stream 1a: (table, mode, vector) -> parse_arguments; non-trivial = an option was parsed \
         or the vector has at least two fields; distinct by (table, mode, vector). \
         stream 1b: abstract invocation in up to 4 distinct spellings; non-trivial = at least two \
         distinct spellings; distinct by (table, mode, invocation)",
    );
}
