//! C11 — histories of trap-set operations on the real `yash_env::trap::TrapSet`
//! over the simulated OS, and whole scripts with signals delivered at chosen
//! points.
//!
//! Stream A (`CTrap`): every operation of a history is applied to the
//! `TrapSet` of a real `Env<Rc<Concurrent<VirtualSystem>>>` through a
//! `SignalSystem` wrapper that records each `set_disposition` call.  After
//! each operation the result, the `get_state` of every condition in play and
//! the disposition and blocking mask the simulated process really has are
//! written next to the operation.  Coq replays the history on the model
//! (`Yv.C11.Model`) and evaluates the oracle on the implementation's outputs.
//!
//! Stream B (`CScript`): see `script` below.

use std::cell::RefCell;
use std::collections::{BTreeSet, HashMap, VecDeque};
use std::future::Future;
use std::num::NonZero;
use std::ops::RangeInclusive;
use std::rc::Rc;
use yash_env::signal::Number;
use yash_env::source::Location;
use yash_env::system::r#virtual::VirtualSystem;
use yash_env::system::Sigset as _;
use yash_env::system::{Disposition, Errno, Signals};
use yash_env::trap::{Action, Condition, Origin, SetActionError, SignalSystem, TrapState};
use yv_harness::cli::Args;
use yv_harness::out::CasesWriter;
use yv_harness::rng::Rng;
use yv_harness::vsh::{self, State, Sys, VEnv};
use yv_harness::{coq, json_str};

// ---------------------------------------------------------------------------
// recording SignalSystem

#[derive(Clone)]
struct Rec {
    inner: Sys,
    log: Rc<RefCell<Vec<(i32, Disposition)>>>,
}

macro_rules! delegate_signals {
    ($($name:ident : $ty:ty),* $(,)?) => {
        impl Signals for Rec {
            $(const $name: $ty = <VirtualSystem as Signals>::$name;)*
            fn sigrt_range(&self) -> Option<RangeInclusive<Number>> {
                self.inner.sigrt_range()
            }
        }
    };
}
delegate_signals!(
    SIGABRT: Number, SIGALRM: Number, SIGBUS: Number, SIGCHLD: Number, SIGCLD: Option<Number>,
    SIGCONT: Number, SIGEMT: Option<Number>, SIGFPE: Number, SIGHUP: Number, SIGILL: Number,
    SIGINFO: Option<Number>, SIGINT: Number, SIGIO: Option<Number>, SIGIOT: Number,
    SIGKILL: Number, SIGLOST: Option<Number>, SIGPIPE: Number, SIGPOLL: Option<Number>,
    SIGPROF: Number, SIGPWR: Option<Number>, SIGQUIT: Number, SIGSEGV: Number,
    SIGSTKFLT: Option<Number>, SIGSTOP: Number, SIGSYS: Number, SIGTERM: Number,
    SIGTHR: Option<Number>, SIGTRAP: Number, SIGTSTP: Number, SIGTTIN: Number, SIGTTOU: Number,
    SIGURG: Number, SIGUSR1: Number, SIGUSR2: Number, SIGVTALRM: Number, SIGWINCH: Number,
    SIGXCPU: Number, SIGXFSZ: Number,
);

impl SignalSystem for Rec {
    fn get_disposition(&self, signal: Number) -> Result<Disposition, Errno> {
        self.inner.get_disposition(signal)
    }
    fn set_disposition(
        &self,
        signal: Number,
        disposition: Disposition,
    ) -> impl Future<Output = Result<Disposition, Errno>> + use<> {
        self.log.borrow_mut().push((signal.as_raw(), disposition));
        self.inner.set_disposition(signal, disposition)
    }
}

// ---------------------------------------------------------------------------
// operations

#[derive(Clone, Copy, Debug, PartialEq, Eq, Hash)]
enum Act {
    Default,
    Ignore,
    Command(u32),
}

#[derive(Clone, Debug, PartialEq, Eq, Hash)]
enum Op {
    SetAction(i32, Act, u32, bool),
    Peek(i32),
    EnterSubshell(bool, bool),
    Deliver(i32),
    TakeSig(i32),
    EnableChld,
    EnableTerm,
    EnableStop,
    DisableTerm,
    DisableStop,
    DisableAll,
    TakeAny,
}

const SIGINT: i32 = 2;
const SIGQUIT: i32 = 3;
const SIGKILL: i32 = 9;
const SIGTERM: i32 = 15;
const SIGCHLD: i32 = 102;
const SIGSTOP: i32 = 116;
const SIGTSTP: i32 = 120;
const SIGTTIN: i32 = 121;
const SIGTTOU: i32 = 122;
const SIGHUP: i32 = 1;
const SIGUSR1: i32 = 124;
const SIGUSR2: i32 = 125;

fn d_coq(d: Disposition) -> &'static str {
    match d {
        Disposition::Default => "Default",
        Disposition::Ignore => "Ignore",
        Disposition::Catch => "Catch",
    }
}
fn d_show(d: Disposition) -> &'static str {
    match d {
        Disposition::Default => "D",
        Disposition::Ignore => "I",
        Disposition::Catch => "C",
    }
}

impl Act {
    fn coq(self) -> String {
        match self {
            Act::Default => "ADefault".into(),
            Act::Ignore => "AIgnore".into(),
            Act::Command(i) => format!("(ACommand {})", coq::n(i as u64)),
        }
    }
    fn show(self) -> String {
        match self {
            Act::Default => "-".into(),
            Act::Ignore => "''".into(),
            Act::Command(i) => format!("cmd{i}"),
        }
    }
    fn real(self) -> Action {
        match self {
            Act::Default => Action::Default,
            Act::Ignore => Action::Ignore,
            Act::Command(i) => Action::Command(i.to_string().into()),
        }
    }
    fn of_real(a: &Action) -> Act {
        match a {
            Action::Default => Act::Default,
            Action::Ignore => Act::Ignore,
            // stream A: the command is its id; stream C: `hit ID`
            Action::Command(s) => {
                Act::Command(s.strip_prefix("hit ").unwrap_or(s).parse().expect("command id"))
            }
        }
    }
}

fn sig_name(c: i32) -> String {
    match c {
        0 => "EXIT".into(),
        1 => "HUP".into(),
        2 => "INT".into(),
        3 => "QUIT".into(),
        9 => "KILL".into(),
        15 => "TERM".into(),
        102 => "CHLD".into(),
        116 => "STOP".into(),
        120 => "TSTP".into(),
        121 => "TTIN".into(),
        122 => "TTOU".into(),
        124 => "USR1".into(),
        125 => "USR2".into(),
        n => format!("SIG{n}"),
    }
}

impl Op {
    fn coq(&self) -> String {
        let n = |c: &i32| coq::n(*c as u64);
        match self {
            Op::SetAction(c, a, tag, ovr) => format!(
                "(GOp (OSetAction {} {} {} {}))",
                n(c),
                a.coq(),
                coq::n(*tag as u64),
                coq::b(*ovr)
            ),
            Op::Peek(c) => format!("(GOp (OPeek {}))", n(c)),
            Op::EnterSubshell(i, k) => {
                format!("(GOp (OEnterSubshell {} {}))", coq::b(*i), coq::b(*k))
            }
            Op::Deliver(c) => format!("(GOp (ODeliver {}))", n(c)),
            Op::TakeSig(c) => format!("(GOp (OTakeSig {}))", n(c)),
            Op::EnableChld => "GEnableChld".into(),
            Op::EnableTerm => "GEnableTerm".into(),
            Op::EnableStop => "GEnableStop".into(),
            Op::DisableTerm => "GDisableTerm".into(),
            Op::DisableStop => "GDisableStop".into(),
            Op::DisableAll => "GDisableAll".into(),
            Op::TakeAny => "GTakeAny".into(),
        }
    }
    fn show(&self) -> String {
        match self {
            Op::SetAction(c, a, _, ovr) => {
                format!("trap{} {} {}", if *ovr { "[interactive]" } else { "" }, a.show(), sig_name(*c))
            }
            Op::Peek(c) => format!("peek {}", sig_name(*c)),
            Op::EnterSubshell(i, k) => format!("enter_subshell(ign_int_quit={i},keep_stoppers={k})"),
            Op::Deliver(c) => format!("deliver {}", sig_name(*c)),
            Op::TakeSig(c) => format!("take {}", sig_name(*c)),
            Op::EnableChld => "enable_chld".into(),
            Op::EnableTerm => "enable_terminators".into(),
            Op::EnableStop => "enable_stoppers".into(),
            Op::DisableTerm => "disable_terminators".into(),
            Op::DisableStop => "disable_stoppers".into(),
            Op::DisableAll => "disable_all".into(),
            Op::TakeAny => "take_any".into(),
        }
    }
    fn kind(&self) -> &'static str {
        match self {
            Op::SetAction(_, Act::Default, _, _) => "op:trap-default",
            Op::SetAction(_, Act::Ignore, _, _) => "op:trap-ignore",
            Op::SetAction(_, Act::Command(_), _, _) => "op:trap-command",
            Op::Peek(_) => "op:peek_state",
            Op::EnterSubshell(..) => "op:enter_subshell",
            Op::Deliver(_) => "op:deliver",
            Op::TakeSig(_) => "op:take_signal_if_caught",
            Op::TakeAny => "op:take_caught_signal",
            Op::EnableChld | Op::EnableTerm | Op::EnableStop => "op:enable_internal",
            Op::DisableTerm | Op::DisableStop | Op::DisableAll => "op:disable_internal",
        }
    }
    /// signals the operation may touch besides its explicit target
    fn needs(&self) -> Vec<i32> {
        match self {
            Op::SetAction(c, ..) | Op::Peek(c) | Op::Deliver(c) | Op::TakeSig(c) => vec![*c],
            Op::EnterSubshell(true, _) => vec![SIGINT, SIGQUIT],
            Op::EnterSubshell(false, _) | Op::TakeAny => vec![],
            Op::EnableChld => vec![SIGCHLD],
            Op::EnableTerm | Op::DisableTerm => vec![SIGINT, SIGTERM, SIGQUIT],
            Op::EnableStop | Op::DisableStop => vec![SIGTSTP, SIGTTIN, SIGTTOU],
            Op::DisableAll => vec![SIGCHLD, SIGINT, SIGTERM, SIGQUIT, SIGTSTP, SIGTTIN, SIGTTOU],
        }
    }
}

fn number(c: i32) -> Number {
    Number::from_raw_unchecked(NonZero::new(c).expect("signal"))
}

fn tstate_coq(t: &TrapState) -> String {
    let origin = match &t.origin {
        Origin::Inherited => "Inherited".to_string(),
        Origin::Subshell => "Subshell".to_string(),
        Origin::User(loc) => {
            // histories of stream A give each trap command a numeric tag as its
            // location; real locations (stream C) count as tag 0
            let tag: u64 = loc.code.value.borrow().parse().unwrap_or(0);
            format!("(User {})", coq::n(tag))
        }
    };
    format!("(mkT {} {} {})", Act::of_real(&t.action).coq(), origin, coq::b(t.pending))
}
fn tstate_show(t: &TrapState) -> String {
    let origin = match &t.origin {
        Origin::Inherited => "inh",
        Origin::Subshell => "sub",
        Origin::User(_) => "usr",
    };
    format!("{}/{}{}", Act::of_real(&t.action).show(), origin, if t.pending { "/pending" } else { "" })
}

/// What the implementation did in one step.
struct StepOut {
    term: String,
    human: String,
}

/// Tag of the known finding F21: a signal that has a user command trap is
/// caught, and before its action ran (i.e. from inside another trap action, or
/// at TrapSet level between delivery and take) a new command is set for the
/// same signal.  yash-rs forgets the delivery (GrandState::set_action resets
/// the pending flag); the strict oracle rejects that.  Exactly the cases in
/// which this happens carry the tag, so that the driver reports KNOWN-FINDING
/// for them and VIOLATION for any other failure.
const RETRAP_TAG: &str = "C11-retrap-pending";

thread_local! {
    /// operations applied so far in the current replay (to describe a panic)
    static OPLOG: RefCell<Vec<String>> = const { RefCell::new(Vec::new()) };
}

/// Result of replaying a history.
struct Replay {
    steps: Vec<StepOut>,
    /// identifies the state of the implementation after the history
    key: String,
    /// per condition: disposition installed at the end
    disps: HashMap<i32, Disposition>,
    max_pending: usize,
    saw_parent: bool,
    saw_refusal: bool,
    /// a trap was replaced by a command while the caught flag of its signal was set
    retrap: bool,
    panicked: bool,
}

fn observe(env: &VEnv, state: &State, univ: &[(i32, Disposition)]) -> (String, String, Vec<Disposition>, usize, bool) {
    let st = state.borrow();
    let proc = &st.processes[&env.main_pid];
    let mut terms = vec![];
    let mut shown = vec![];
    let mut disps = vec![];
    let mut npending = 0;
    let mut parent_seen = false;
    for (c, _) in univ {
        let (cur, parent) = env.traps.get_state(Condition::from(*c));
        let (d, blocked) = if *c == 0 {
            (Disposition::Default, false)
        } else {
            (proc.disposition(number(*c)), proc.blocked_signals().contains(number(*c)) == Ok(true))
        };
        if cur.is_some_and(|t| t.pending) {
            npending += 1;
        }
        parent_seen |= parent.is_some();
        terms.push(format!(
            "({}, mkO {} {} {} {})",
            coq::n(*c as u64),
            coq::opt(cur.map(tstate_coq)),
            coq::opt(parent.map(tstate_coq)),
            d_coq(d),
            coq::b(blocked)
        ));
        shown.push(format!(
            "{}:{}{}:{}{}",
            sig_name(*c),
            cur.map_or("vacant".to_string(), tstate_show),
            parent.map_or(String::new(), |p| format!("(parent {})", tstate_show(p))),
            d_show(d),
            if blocked { "b" } else { "" }
        ));
        disps.push(d);
    }
    (coq::list(&terms), shown.join(" "), disps, npending, parent_seen)
}

async fn apply(env: &mut VEnv, state: &State, rec: &Rec, op: &Op) -> (String, String) {
    let ok = ("ROk".to_string(), "ok".to_string());
    match op {
        Op::SetAction(c, a, tag, ovr) => {
            let r = env
                .traps
                .set_action(rec, Condition::from(*c), a.real(), Location::dummy(tag.to_string()), *ovr)
                .await;
            match r {
                Ok(()) => ok,
                Err(SetActionError::InitiallyIgnored) => ("RErrIgnored".into(), "refused:ignored".into()),
                Err(SetActionError::SIGKILL) => ("RErrKill".into(), "refused:KILL".into()),
                Err(SetActionError::SIGSTOP) => ("RErrStop".into(), "refused:STOP".into()),
                Err(SetActionError::SystemError(e)) => panic!("system error {e:?}"),
            }
        }
        Op::Peek(c) => {
            let t = env.traps.peek_state(rec, Condition::from(*c)).expect("peek_state");
            (format!("(RState {})", tstate_coq(t)), format!("state {}", tstate_show(t)))
        }
        Op::EnterSubshell(i, k) => {
            env.traps.enter_subshell(rec, *i, *k).await;
            ok
        }
        Op::Deliver(c) => {
            {
                let mut st = state.borrow_mut();
                let proc = st.processes.get_mut(&env.main_pid).unwrap();
                let r = proc.raise_signal(number(*c));
                assert!(!r.process_state_changed, "generator delivered a fatal signal");
            }
            env.poll_signals();
            ok
        }
        Op::TakeSig(c) => match env.traps.take_signal_if_caught(number(*c)) {
            Some(t) => (
                format!("(RTaken {} {})", coq::n(*c as u64), tstate_coq(t)),
                format!("taken {}", tstate_show(t)),
            ),
            None => ("RNone".into(), "none".into()),
        },
        Op::TakeAny => match env.traps.take_caught_signal() {
            Some((s, t)) => (
                format!("(RTaken {} {})", coq::n(s.as_raw() as u64), tstate_coq(t)),
                format!("taken {} {}", sig_name(s.as_raw()), tstate_show(t)),
            ),
            None => ("RNone".into(), "none".into()),
        },
        Op::EnableChld => {
            env.traps.enable_internal_disposition_for_sigchld(rec).await.unwrap();
            ok
        }
        Op::EnableTerm => {
            env.traps.enable_internal_dispositions_for_terminators(rec).await.unwrap();
            ok
        }
        Op::EnableStop => {
            env.traps.enable_internal_dispositions_for_stoppers(rec).await.unwrap();
            ok
        }
        Op::DisableTerm => {
            env.traps.disable_internal_dispositions_for_terminators(rec).await.unwrap();
            ok
        }
        Op::DisableStop => {
            env.traps.disable_internal_dispositions_for_stoppers(rec).await.unwrap();
            ok
        }
        Op::DisableAll => {
            env.traps.disable_internal_dispositions(rec).await.unwrap();
            ok
        }
    }
}

/// Runs a history on a fresh environment.  `choose` is asked for the next
/// operation (given the dispositions currently installed) until it returns
/// `None`; this lets the random generator respect the domain of the model.
fn replay<F>(univ: &[(i32, Disposition)], mut choose: F) -> (Replay, Vec<Op>)
where
    F: FnMut(usize, &[Disposition], &[bool]) -> Option<Op> + 'static,
{
    let univ: Vec<(i32, Disposition)> = univ.to_vec();
    let r = std::panic::catch_unwind(std::panic::AssertUnwindSafe(move || {
        let (res, _deadlock, _timeout, _state) = vsh::drive(
            move |mut env: VEnv, state: State| async move {
                {
                    let mut st = state.borrow_mut();
                    let proc = st.processes.get_mut(&env.main_pid).unwrap();
                    for (c, d) in &univ {
                        if *c != 0 && *d != Disposition::Default {
                            proc.set_disposition(number(*c), *d);
                        }
                    }
                }
                let rec = Rec { inner: Rc::clone(&env.system), log: Rc::new(RefCell::new(vec![])) };
                let mut out = Replay {
                    steps: vec![],
                    key: String::new(),
                    disps: HashMap::new(),
                    max_pending: 0,
                    saw_parent: false,
                    saw_refusal: false,
                    retrap: false,
                    panicked: false,
                };
                let mut ops = vec![];
                let mut disps: Vec<Disposition> = univ.iter().map(|(_, d)| *d).collect();
                let mut pendings: Vec<bool> = univ.iter().map(|_| false).collect();
                let mut k = 0;
                OPLOG.with(|l| l.borrow_mut().clear());
                while let Some(op) = choose(k, &disps, &pendings) {
                    k += 1;
                    let mut in_class = false;
                    if let Op::SetAction(c, Act::Command(_), _, _) = &op {
                        if let Some(i) = univ.iter().position(|(x, _)| x == c) {
                            in_class = pendings[i];
                        }
                    }
                    OPLOG.with(|l| l.borrow_mut().push(op.show()));
                    rec.log.borrow_mut().clear();
                    let (rterm, rshow) = apply(&mut env, &state, &rec, &op).await;
                    out.saw_refusal |= rterm == "RErrIgnored";
                    out.retrap |= in_class && rterm == "ROk";
                    let (oterm, oshow, d, npend, parent) = observe(&env, &state, &univ);
                    disps = d;
                    pendings = univ
                        .iter()
                        .map(|(c, _)| {
                            env.traps
                                .get_state(Condition::from(*c))
                                .0
                                .is_some_and(|t| t.pending && matches!(t.action, Action::Command(_)))
                        })
                        .collect();
                    out.max_pending = out.max_pending.max(npend);
                    out.saw_parent |= parent;
                    let log: Vec<String> = rec
                        .log
                        .borrow()
                        .iter()
                        .map(|(s, d)| format!("({}, {})", coq::n(*s as u64), d_coq(*d)))
                        .collect();
                    let logshow: Vec<String> = rec
                        .log
                        .borrow()
                        .iter()
                        .map(|(s, d)| format!("{}<-{}", sig_name(*s), d_show(*d)))
                        .collect();
                    out.steps.push(StepOut {
                        term: format!("({}, {}, {}, {})", op.coq(), rterm, oterm, coq::list(&log)),
                        human: format!("{} => {} [{}] sys[{}]", op.show(), rshow, oshow, logshow.join(",")),
                    });
                    ops.push(op);
                }
                for ((c, _), d) in univ.iter().zip(&disps) {
                    out.disps.insert(*c, *d);
                }
                // identity of the implementation state: the Debug form of the
                // trap set shows the (private) internal dispositions as well
                let st = state.borrow();
                let proc = &st.processes[&env.main_pid];
                let sys: Vec<String> = univ
                    .iter()
                    .filter(|(c, _)| *c != 0)
                    .map(|(c, _)| {
                        format!(
                            "{}{}{}",
                            d_show(proc.disposition(number(*c))),
                            proc.blocked_signals().contains(number(*c)) == Ok(true),
                            proc.pending_signals().contains(number(*c)) == Ok(true)
                        )
                    })
                    .collect();
                out.key = format!("{:?} {}", env.traps, sys.join(","));
                (out, ops)
            },
            1000,
        );
        res.expect("history did not complete")
    }));
    match r {
        Ok(x) => x,
        Err(_) => (
            Replay {
                steps: vec![],
                key: "panic".into(),
                disps: HashMap::new(),
                max_pending: 0,
                saw_parent: false,
                saw_refusal: false,
                retrap: false,
                panicked: true,
            },
            vec![],
        ),
    }
}

fn univ_coq(univ: &[(i32, Disposition)]) -> String {
    let v: Vec<String> =
        univ.iter().map(|(c, d)| format!("({}, {})", coq::n(*c as u64), d_coq(*d))).collect();
    coq::list(&v)
}

fn emit(w: &mut CasesWriter, stream: &str, univ: &[(i32, Disposition)], rep: &Replay, ops: &[Op]) {
    w.count(&format!("stream:{stream}"));
    for op in ops {
        w.count(op.kind());
    }
    w.count(&format!("len:{}", match ops.len() { 0..=2 => "1-2", 3..=6 => "3-6", 7..=15 => "7-15", _ => "16+" }));
    if univ.iter().any(|(c, d)| *c != 0 && *d == Disposition::Ignore) {
        w.count("init:some-ignored");
    }
    if rep.saw_refusal {
        w.count("saw:refused-initially-ignored");
    }
    if rep.saw_parent {
        w.count("saw:parent-state");
    }
    if rep.max_pending > 0 {
        w.count("saw:pending");
    }
    if rep.panicked {
        let init: Vec<String> =
            univ.iter().map(|(c, d)| format!("{}:{}", sig_name(*c), d_show(*d))).collect();
        let ops = OPLOG.with(|l| l.borrow().clone());
        let json = format!(
            "{{\"stream\":{},\"initial\":{},\"panicked_after\":[{}]}}",
            json_str(stream),
            json_str(&init.join(" ")),
            ops.iter().map(|o| json_str(o)).collect::<Vec<_>>().join(",")
        );
        w.push("(CPanic 0)", &json, &["panic"], None);
        return;
    }
    let steps: Vec<&str> = rep.steps.iter().map(|s| s.term.as_str()).collect();
    let term = format!("(CTrap {} {})", univ_coq(univ), coq::list(&steps));
    let hist: Vec<String> = rep.steps.iter().map(|s| json_str(&s.human)).collect();
    let init: Vec<String> =
        univ.iter().map(|(c, d)| format!("{}:{}", sig_name(*c), d_show(*d))).collect();
    let json = format!(
        "{{\"stream\":{},\"initial\":{},\"history\":[{}]}}",
        json_str(stream),
        json_str(&init.join(" ")),
        hist.join(",")
    );
    // non-trivial: some disposition was changed by the history, or a trap
    // command was refused, or a signal was caught
    let changed = univ.iter().any(|(c, d)| rep.disps.get(c).is_some_and(|e| e != d));
    let key = if changed || rep.saw_refusal || rep.max_pending > 0 {
        Some(format!("{}|{}", init.join(" "), ops.iter().map(|o| o.show()).collect::<Vec<_>>().join(";")))
    } else {
        None
    };
    let tags: Vec<&str> = if rep.retrap { vec![RETRAP_TAG] } else { vec![] };
    if rep.retrap {
        w.count("class:retrap-while-pending");
    }
    w.push(&term, &json, &tags, key);
}

fn run_fixed(w: &mut CasesWriter, stream: &str, univ: &[(i32, Disposition)], ops: &[Op]) {
    let v = ops.to_vec();
    let (rep, done) = replay(univ, move |k, _, _| v.get(k).cloned());
    emit(w, stream, univ, &rep, &done);
}

const ALL_CONDS: [i32; 13] =
    [0, SIGHUP, SIGINT, SIGQUIT, SIGKILL, SIGTERM, SIGCHLD, SIGSTOP, SIGTSTP, SIGTTIN, SIGTTOU, SIGUSR1, SIGUSR2];

fn deliverable(c: i32, d: Disposition) -> bool {
    c != 0 && c != SIGKILL && c != SIGSTOP && (d != Disposition::Default || c == SIGCHLD)
}

/// The operations possible over a universe (with command ids `cmds`, the
/// given override flags), delivery not yet filtered by the current state.
fn alphabet(univ: &[(i32, Disposition)], cmds: &[u32], ovrs: &[bool]) -> Vec<Op> {
    let has = |c: i32| univ.iter().any(|(x, _)| *x == c);
    let mut v = vec![];
    for (c, _) in univ {
        for ovr in ovrs {
            v.push(Op::SetAction(*c, Act::Default, 0, *ovr));
            v.push(Op::SetAction(*c, Act::Ignore, 0, *ovr));
            for id in cmds {
                v.push(Op::SetAction(*c, Act::Command(*id), 0, *ovr));
            }
        }
        v.push(Op::Peek(*c));
        if *c != 0 {
            v.push(Op::Deliver(*c));
            v.push(Op::TakeSig(*c));
        }
    }
    v.push(Op::TakeAny);
    for op in [
        Op::EnterSubshell(false, false),
        Op::EnterSubshell(false, true),
        Op::EnterSubshell(true, false),
        Op::EnterSubshell(true, true),
        Op::EnableChld,
        Op::EnableTerm,
        Op::EnableStop,
        Op::DisableTerm,
        Op::DisableStop,
        Op::DisableAll,
    ] {
        if op.needs().iter().all(|c| has(*c)) {
            v.push(op);
        }
    }
    v
}

fn random_history(w: &mut CasesWriter, r: &mut Rng, thorough: bool) {
    // universe
    let full = r.chance(1, 2);
    let mut conds: Vec<i32> = if full {
        ALL_CONDS.to_vec()
    } else {
        let mut v: Vec<i32> = vec![];
        let n = 1 + r.below(4);
        while v.len() < n {
            let c = *r.pick(&ALL_CONDS);
            if !v.contains(&c) {
                v.push(c);
            }
        }
        v
    };
    conds.sort();
    let interactive = r.chance(1, 4);
    let univ: Vec<(i32, Disposition)> = conds
        .iter()
        .map(|c| (*c, if *c != 0 && r.chance(1, 3) { Disposition::Ignore } else { Disposition::Default }))
        .collect();
    let len = 1 + r.below(if thorough { 40 } else { 24 });
    let mut rr = r.fork(17);
    let u = univ.clone();
    let has = move |c: i32| u.iter().any(|(x, _)| *x == c);
    let u2 = univ.clone();
    let mut tag = 0;
    let (rep, done) = replay(&univ, move |k, disps, _| {
        if k >= len {
            return None;
        }
        let r = &mut rr;
        loop {
            let (c, _) = *r.pick(&u2);
            let ci = u2.iter().position(|(x, _)| *x == c).unwrap();
            let op = match r.below(100) {
                0..=34 => {
                    tag += 1;
                    let a = match r.below(5) {
                        0 => Act::Default,
                        1 => Act::Ignore,
                        _ => Act::Command(1 + r.below(3) as u32),
                    };
                    // a shell is interactive or not for its whole life; mix rarely
                    let ovr = if r.chance(1, 12) { !interactive } else { interactive };
                    Op::SetAction(c, a, tag, ovr)
                }
                35..=39 => Op::Peek(c),
                40..=57 => {
                    // prefer signals that are caught right now
                    let caught: Vec<usize> = (0..u2.len())
                        .filter(|i| disps[*i] == Disposition::Catch)
                        .collect();
                    let i = if !caught.is_empty() && r.chance(3, 4) { *r.pick(&caught) } else { ci };
                    if !deliverable(u2[i].0, disps[i]) {
                        continue;
                    }
                    Op::Deliver(u2[i].0)
                }
                58..=63 => {
                    if c == 0 {
                        continue;
                    }
                    Op::TakeSig(c)
                }
                64..=73 => Op::TakeAny,
                74..=81 => Op::EnterSubshell(r.chance(1, 2), r.chance(1, 2)),
                82..=85 => Op::EnableChld,
                86..=89 => Op::EnableTerm,
                90..=93 => Op::EnableStop,
                94..=95 => Op::DisableTerm,
                96..=97 => Op::DisableStop,
                _ => Op::DisableAll,
            };
            if op.needs().iter().all(|c| has(*c)) {
                return Some(op);
            }
        }
    });
    emit(w, if full { "random-full" } else { "random-small" }, &univ, &rep, &done);
}

fn corpus(w: &mut CasesWriter) {
    use Disposition::{Default as D, Ignore as I};
    let c1 = Act::Command(1);
    let c2 = Act::Command(2);
    // trap set, delivered, taken once
    run_fixed(
        w,
        "corpus",
        &[(SIGUSR1, D)],
        &[Op::SetAction(SIGUSR1, c1, 1, false), Op::Deliver(SIGUSR1), Op::Deliver(SIGUSR1), Op::TakeAny, Op::TakeAny],
    );
    // ignored on entry: neither trapped nor reset; interactive shell may
    run_fixed(
        w,
        "corpus",
        &[(SIGINT, I), (SIGUSR1, I)],
        &[
            Op::SetAction(SIGUSR1, c1, 1, false),
            Op::SetAction(SIGUSR1, Act::Default, 2, false),
            Op::Peek(SIGINT),
            Op::SetAction(SIGINT, c1, 3, false),
            Op::SetAction(SIGINT, c1, 4, true),
            Op::SetAction(SIGINT, Act::Default, 5, false),
        ],
    );
    // KILL and STOP
    run_fixed(
        w,
        "corpus",
        &[(SIGKILL, D), (SIGSTOP, D)],
        &[
            Op::SetAction(SIGKILL, c1, 1, false),
            Op::SetAction(SIGSTOP, Act::Ignore, 2, true),
            Op::Peek(SIGKILL),
            Op::EnterSubshell(false, true),
            Op::SetAction(SIGKILL, Act::Default, 3, true),
        ],
    );
    // internal dispositions merged with user traps
    run_fixed(
        w,
        "corpus",
        &ALL_CONDS.map(|c| (c, D)),
        &[
            Op::EnableChld,
            Op::EnableTerm,
            Op::EnableStop,
            Op::SetAction(SIGCHLD, Act::Ignore, 1, true),
            Op::SetAction(SIGINT, Act::Ignore, 2, true),
            Op::SetAction(SIGTERM, c1, 3, true),
            Op::SetAction(SIGTSTP, c2, 4, true),
            Op::SetAction(SIGTERM, Act::Default, 5, true),
            Op::DisableTerm,
            Op::Deliver(SIGCHLD),
            Op::EnterSubshell(false, true),
            Op::TakeAny,
            Op::DisableAll,
        ],
    );
    // subshell: command traps reset and remembered, then forgotten
    run_fixed(
        w,
        "corpus",
        &[(0, D), (SIGINT, D), (SIGQUIT, I), (SIGUSR1, D), (SIGUSR2, D)],
        &[
            Op::SetAction(0, c1, 1, false),
            Op::SetAction(SIGUSR1, c1, 2, false),
            Op::SetAction(SIGUSR2, Act::Ignore, 3, false),
            Op::Deliver(SIGUSR1),
            Op::EnterSubshell(true, false),
            Op::Peek(SIGUSR1),
            Op::TakeAny,
            Op::SetAction(SIGINT, c2, 4, false),
            Op::SetAction(SIGQUIT, c2, 5, false),
            Op::SetAction(SIGUSR2, Act::Default, 6, false),
        ],
    );
    // internal disposition first, async subshell afterwards: the entry keeps
    // its origin
    run_fixed(
        w,
        "corpus",
        &[(SIGINT, D), (SIGQUIT, D), (SIGTERM, D)],
        &[Op::EnableTerm, Op::EnterSubshell(true, false), Op::SetAction(SIGINT, c1, 1, false), Op::SetAction(SIGINT, c1, 2, true)],
    );
    // replay of the defect repaired by /repo b8d5cfe: a read-only look at the
    // trap, then an asynchronous subshell: its trap command must be accepted
    run_fixed(
        w,
        "corpus",
        &[(SIGINT, D), (SIGQUIT, D)],
        &[Op::Peek(SIGINT), Op::EnterSubshell(true, false), Op::SetAction(SIGINT, c1, 1, false), Op::SetAction(SIGQUIT, c1, 2, false)],
    );
    // trap replaced while a delivery is waiting
    // (known finding F21: the minimal replay, kept so that every run reports it)
    run_fixed(
        w,
        "corpus",
        &[(SIGUSR1, D)],
        &[Op::SetAction(SIGUSR1, c1, 1, false), Op::Deliver(SIGUSR1), Op::SetAction(SIGUSR1, c2, 2, false), Op::TakeAny],
    );
    // ... by a non-command: the delivery is dropped
    run_fixed(
        w,
        "corpus",
        &[(SIGUSR1, D)],
        &[Op::SetAction(SIGUSR1, c1, 1, false), Op::Deliver(SIGUSR1), Op::SetAction(SIGUSR1, Act::Ignore, 2, false), Op::TakeAny],
    );
}


// ---------------------------------------------------------------------------
// Stream B: whole scripts with signals delivered at chosen points.
//
// The scripts are made of three instrumented built-ins (registered below):
//   p KEY ST       records (KEY, $?, pid), returns ST
//   raise SIG ST   records, sends SIG to the process itself, returns ST
//   mark SIG ACT   records the trap change that the following real `trap`
//                  command makes (ACT = `-`, `ign` or the id of the action)
// and of { }, ( ), if.  Coq gets the script, the table of trap actions and the
// recorded trace: the monitor (Yv.C11.ScriptSpec) judges the trace alone, the
// model (Yv.C11.ScriptModel) must reproduce it.
mod script {
    use super::*;
    use yash_env::builtin::{Builtin, Type};
    use yash_env::semantics::{ExitStatus, Field};
    use yash_env::system::{GetPid as _, SendSignal as _};
    use yv_harness::vsh::{BuiltinFuture, RunOpts, TraceItem, run_shell, trace_push};

    pub const SIGS: [(i32, &str); 4] = [(1, "HUP"), (15, "TERM"), (124, "USR1"), (125, "USR2")];

    pub fn name_of(sg: i32) -> &'static str {
        if sg == SIGCHLD {
            return "CHLD";
        }
        SIGS.iter().find(|(n, _)| *n == sg).map(|(_, s)| *s).expect("signal")
    }
    /// any condition name of stream C
    pub fn number_of_any(name: &str) -> i32 {
        match name {
            "EXIT" => 0,
            "INT" => SIGINT,
            "QUIT" => SIGQUIT,
            "KILL" => SIGKILL,
            "STOP" => SIGSTOP,
            "TSTP" => SIGTSTP,
            "TTIN" => SIGTTIN,
            "TTOU" => SIGTTOU,
            n => number_of(n),
        }
    }
    pub fn number_of(name: &str) -> i32 {
        if name == "CHLD" {
            return SIGCHLD;
        }
        SIGS.iter().find(|(_, s)| *s == name).map(|(n, _)| *n).unwrap_or_else(|| panic!("signal name {name:?}"))
    }

    #[derive(Clone, Copy, Debug, PartialEq, Eq)]
    pub enum Tact {
        Default,
        Ignore,
        Body(u32),
    }
    #[derive(Clone, Debug)]
    pub enum B {
        Probe(u32, u32),
        Raise(i32, u32),
        Trap(i32, Tact),
    }
    #[derive(Clone, Debug)]
    pub enum C {
        B(B),
        Brace(Vec<C>),
        Sub(Vec<C>),
        If(Vec<C>, Vec<C>, Vec<C>),
    }

    impl Tact {
        pub fn coq(self) -> String {
            match self {
                Tact::Default => "TDefault".into(),
                Tact::Ignore => "TIgnore".into(),
                Tact::Body(i) => format!("(TBody {})", coq::n(i as u64)),
            }
        }
        pub fn mark(self) -> String {
            match self {
                Tact::Default => "-".into(),
                Tact::Ignore => "ign".into(),
                Tact::Body(i) => i.to_string(),
            }
        }
    }
    impl B {
        fn coq(&self) -> String {
            match self {
                B::Probe(k, st) => format!("(BProbe {} {})", coq::n(*k as u64), coq::n(*st as u64)),
                B::Raise(sg, st) => format!("(BRaise {} {})", coq::n(*sg as u64), coq::n(*st as u64)),
                B::Trap(sg, a) => format!("(BTrap {} {})", coq::n(*sg as u64), a.coq()),
            }
        }
        /// Shell text; `top` = not inside a quoted trap action.
        fn text(&self, tbl: &[(u32, Vec<B>)], top: bool) -> String {
            match self {
                B::Probe(k, st) => format!("p {k} {st}"),
                B::Raise(sg, st) => format!("raise {} {st}", name_of(*sg)),
                B::Trap(sg, a) => {
                    let n = name_of(*sg);
                    let arg = match a {
                        Tact::Default => "-".to_string(),
                        Tact::Ignore => "\"\"".to_string(),
                        Tact::Body(id) if top => {
                            let body = &tbl.iter().find(|(i, _)| i == id).expect("body").1;
                            format!("'{}'", body_text(body, tbl))
                        }
                        // inside an action the new action is named by its function
                        Tact::Body(id) => format!("f_{id}"),
                    };
                    format!("mark {n} {}; trap {arg} {n}", a.mark())
                }
            }
        }
    }
    pub fn body_text(body: &[B], tbl: &[(u32, Vec<B>)]) -> String {
        body.iter().map(|b| b.text(tbl, false)).collect::<Vec<_>>().join("; ")
    }
    impl C {
        fn coq(&self) -> String {
            let l = |v: &Vec<C>| coq::list(&v.iter().map(|c| c.coq()).collect::<Vec<_>>());
            match self {
                C::B(b) => format!("(CB {})", b.coq()),
                C::Brace(v) => format!("(CBrace {})", l(v)),
                C::Sub(v) => format!("(CSub {})", l(v)),
                C::If(c, t, e) => format!("(CIf {} {} {})", l(c), l(t), l(e)),
            }
        }
        fn text(&self, tbl: &[(u32, Vec<B>)]) -> String {
            let l = |v: &Vec<C>| v.iter().map(|c| c.text(tbl)).collect::<Vec<_>>().join("; ");
            match self {
                C::B(b) => b.text(tbl, true),
                C::Brace(v) => format!("{{ {}; }}", l(v)),
                C::Sub(v) => format!("( {} )", l(v)),
                C::If(c, t, e) => format!("if {}; then {}; else {}; fi", l(c), l(t), l(e)),
            }
        }
    }

    fn record(env: &VEnv, kind: &str, args: &[Field]) {
        let mut a: Vec<String> = args.iter().map(|f| f.value.clone()).collect();
        a.push(env.system.getpid().0.to_string());
        trace_push(TraceItem {
            kind: kind.to_string(),
            status: env.exit_status.0,
            args: a,
            in_main: env.system.getpid() == env.main_pid,
        });
    }
    fn status_arg(args: &[Field], i: usize) -> ExitStatus {
        ExitStatus(args.get(i).and_then(|f| f.value.parse::<i32>().ok()).unwrap_or(0))
    }
    pub fn p_main(env: &mut VEnv, args: Vec<Field>) -> BuiltinFuture<'_> {
        Box::pin(async move {
            record(env, "p", &args);
            status_arg(&args, 1).into()
        })
    }
    pub fn raise_main(env: &mut VEnv, args: Vec<Field>) -> BuiltinFuture<'_> {
        Box::pin(async move {
            record(env, "raise", &args);
            let sg = number_of(&args[0].value);
            let pid = env.system.getpid();
            // does not return if the signal terminates the process
            env.system.kill(pid, Some(number(sg))).await.ok();
            status_arg(&args, 1).into()
        })
    }
    pub fn mark_main(env: &mut VEnv, args: Vec<Field>) -> BuiltinFuture<'_> {
        Box::pin(async move {
            record(env, "mark", &args);
            ExitStatus::SUCCESS.into()
        })
    }

    pub struct Run {
        pub text: String,
        pub trace_coq: Vec<String>,
        pub trace_show: Vec<String>,
        pub dead: bool,
        pub bad: Option<String>,
        pub trap_runs: usize,
        pub procs: usize,
        /// a trap was replaced by a command while a delivery of its signal was outstanding
        pub retrap: bool,
    }

    pub fn script_text(tbl: &[(u32, Vec<B>)], main: &[C], newline: bool) -> String {
        let mut text = String::new();
        // every action is also available as a function, for `trap f_ID SIG`
        // commands inside other actions
        for (id, body) in tbl {
            text.push_str(&format!("f_{id}() {{ {}; }}\n", body_text(body, tbl)));
        }
        let sep = if newline { "\n" } else { "; " };
        text.push_str(&main.iter().map(|c| c.text(tbl)).collect::<Vec<_>>().join(sep));
        text.push('\n');
        text
    }

    /// Runs `f`; if it does not return within `secs` seconds (the shell loops
    /// inside one scheduler step, which the round budget of `vsh` cannot see),
    /// reports the script on stderr and ends the harness with status 4, which
    /// the driver turns into a broken obligation.
    pub fn with_watchdog<T>(text: &str, secs: u64, f: impl FnOnce() -> T) -> T {
        let (tx, rx) = std::sync::mpsc::channel::<()>();
        let script = text.to_string();
        let h = std::thread::spawn(move || {
            if rx.recv_timeout(std::time::Duration::from_secs(secs)).is_err() {
                eprintln!("C11 harness: the shell did not finish this script within {secs} s (hang):\n{script}");
                std::process::exit(4);
            }
        });
        let r = f();
        tx.send(()).ok();
        h.join().ok();
        r
    }

    pub fn run(text: &str) -> Run {
        let (o, _) = with_watchdog(text, 60, || run_shell_script(text));
        finish_run(text, o)
    }

    fn run_shell_script(text: &str) -> (yv_harness::vsh::Outcome, Option<State>) {
        run_shell(
            RunOpts { argv: vec!["-c".into(), text.to_string()], ..Default::default() },
            |env, _| {
                env.builtins.insert("p", Builtin::new(Type::Mandatory, p_main));
                env.builtins.insert("raise", Builtin::new(Type::Mandatory, raise_main));
                env.builtins.insert("mark", Builtin::new(Type::Mandatory, mark_main));
            },
        )
    }

    fn finish_run(text: &str, o: yv_harness::vsh::Outcome) -> Run {
        let mut pids: Vec<String> = vec![];
        let mut trace_coq = vec![];
        let mut trace_show = vec![];
        let mut trap_runs = 0;
        // per process: current action of each signal, signals with a delivery outstanding
        let mut cur: HashMap<usize, HashMap<i32, Tact>> = HashMap::new();
        let mut owed: HashMap<usize, Vec<i32>> = HashMap::new();
        let mut retrap = false;
        for it in &o.trace {
            let pid = it.args.last().cloned().unwrap_or_default();
            let idx = if it.in_main {
                0
            } else {
                match pids.iter().position(|p| *p == pid) {
                    Some(i) => i + 1,
                    None => {
                        pids.push(pid);
                        pids.len()
                    }
                }
            };
            let before = it.status as u64;
            let a = |i: usize| it.args.get(i).cloned().unwrap_or_default();
            if idx != 0 && !cur.contains_key(&idx) {
                // a subshell starts with the command traps reset
                let mut t = cur.get(&0).cloned().unwrap_or_default();
                for v in t.values_mut() {
                    if matches!(v, Tact::Body(_)) {
                        *v = Tact::Default;
                    }
                }
                cur.insert(idx, t);
            }
            let pcur = cur.entry(idx).or_default();
            let powed = owed.entry(idx).or_default();
            let (ev, show) = match it.kind.as_str() {
                "p" => {
                    let k: u64 = a(0).parse().unwrap_or(0);
                    if k >= 1000 {
                        trap_runs += 1;
                        let id = (k - 1000) as u32;
                        if let Some(pos) = powed.iter().position(|sg| pcur.get(sg) == Some(&Tact::Body(id))) {
                            powed.remove(pos);
                        }
                    }
                    (
                        format!("(EProbe {} {} {})", coq::n(k), coq::n(before), coq::n(a(1).parse().unwrap_or(0))),
                        format!("p{k}[$?={before}]->{}", a(1)),
                    )
                }
                "raise" => {
                    let sg = number_of(&a(0));
                    if matches!(pcur.get(&sg), Some(Tact::Body(_))) && !powed.contains(&sg) {
                        powed.push(sg);
                    }
                    (
                    format!(
                        "(ERaise {} {} {})",
                        coq::n(number_of(&a(0)) as u64),
                        coq::n(before),
                        coq::n(a(1).parse().unwrap_or(0))
                    ),
                    format!("raise {}[$?={before}]->{}", a(0), a(1)),
                )
                }
                "mark" => {
                    let act = match a(1).as_str() {
                        "-" => Tact::Default,
                        "ign" => Tact::Ignore,
                        id => Tact::Body(id.parse().unwrap_or(0)),
                    };
                    let sg = number_of(&a(0));
                    if let Some(pos) = powed.iter().position(|x| *x == sg) {
                        if matches!(act, Tact::Body(_)) {
                            retrap = true;
                        } else {
                            powed.remove(pos);
                        }
                    }
                    pcur.insert(sg, act);
                    (
                        format!("(EMark {} {} {})", coq::n(number_of(&a(0)) as u64), act.coq(), coq::n(before)),
                        format!("trap {} {}[$?={before}]", a(1), a(0)),
                    )
                }
                other => (format!("(EProbe 0 0 0) (* {other} *)"), other.to_string()),
            };
            trace_coq.push(format!("({}, {})", coq::n(idx as u64), ev));
            trace_show.push(if idx == 0 { show } else { format!("<{idx}>{show}") });
        }
        let bad = if let Some(m) = &o.panicked {
            Some(format!("panic: {m}"))
        } else if o.timeout {
            Some("timeout".to_string())
        } else {
            None
        };
        Run {
            text: text.to_string(),
            trace_coq,
            trace_show,
            dead: o.status == -1 && o.panicked.is_none() && !o.timeout,
            bad,
            trap_runs,
            procs: pids.len(),
            retrap,
        }
    }

    pub fn emit(w: &mut CasesWriter, stream: &str, tbl: &[(u32, Vec<B>)], main: &[C], newline: bool) {
        let text = script_text(tbl, main, newline);
        let r = run(&text);
        w.count(&format!("stream:{stream}"));
        w.count(&format!("script:trap-runs:{}", match r.trap_runs { 0 => "0", 1 => "1", 2..=3 => "2-3", _ => "4+" }));
        w.count(&format!("script:processes:{}", r.procs + 1));
        if r.dead {
            w.count("script:main-shell-killed");
        }
        let tblc: Vec<String> = tbl
            .iter()
            .map(|(id, b)| {
                format!("({}, {})", coq::n(*id as u64), coq::list(&b.iter().map(|x| x.coq()).collect::<Vec<_>>()))
            })
            .collect();
        let mainc: Vec<String> = main.iter().map(|c| c.coq()).collect();
        let term = if r.bad.is_some() {
            "(CPanic 1)".to_string()
        } else {
            format!(
                "(CScript {} {} {} {})",
                coq::list(&tblc),
                coq::list(&mainc),
                coq::list(&r.trace_coq),
                coq::b(r.dead)
            )
        };
        let json = format!(
            "{{\"stream\":{},\"script\":{},\"trace\":{},\"main_shell_killed\":{}{}}}",
            json_str(stream),
            json_str(&r.text),
            json_str(&r.trace_show.join(" ")),
            r.dead,
            r.bad.as_ref().map_or(String::new(), |b| format!(",\"abnormal\":{}", json_str(b)))
        );
        let key = if r.trap_runs > 0 { Some(r.text.clone()) } else { None };
        let mut tags: Vec<&str> = if r.bad.is_some() { vec!["abnormal"] } else { vec![] };
        if r.retrap {
            tags.push(RETRAP_TAG);
            w.count("class:retrap-while-pending");
        }
        w.push(&term, &json, &tags, key);
    }

    /// A hand-written script outside the command language of the model: only
    /// the monitor judges its trace.  `tbl` lists the events each trap action
    /// records.
    pub fn emit_monitor_only(w: &mut CasesWriter, tbl: &[(u32, Vec<B>)], text: &str) {
        let r = run(text);
        w.count("stream:script-monitor-only");
        let tblc: Vec<String> = tbl
            .iter()
            .map(|(id, b)| {
                format!("({}, {})", coq::n(*id as u64), coq::list(&b.iter().map(|x| x.coq()).collect::<Vec<_>>()))
            })
            .collect();
        let term = if r.bad.is_some() {
            "(CPanic 1)".to_string()
        } else {
            format!("(CMonitor {} {} {})", coq::list(&tblc), coq::list(&r.trace_coq), coq::b(r.dead))
        };
        let json = format!(
            "{{\"stream\":\"script-monitor-only\",\"script\":{},\"trace\":{},\"main_shell_killed\":{}}}",
            json_str(text),
            json_str(&r.trace_show.join(" ")),
            r.dead
        );
        w.push(&term, &json, &[], Some(text.to_string()));
    }

    pub fn corpus_monitor_only(w: &mut CasesWriter) {
        use B::*;
        // A SIGCHLD caught only for the shell's own needs (the subshell of the
        // running USR1 action) owes no run of an action set for CHLD afterwards.
        let tbl = vec![(1, vec![Probe(1001, 0), Trap(SIGCHLD, Tact::Body(2))]), (2, vec![Probe(1002, 0)])];
        emit_monitor_only(
            w,
            &tbl,
            "mark USR1 1; trap '(:); p 1001 0; (:); mark CHLD 2; trap \"p 1002 0\" CHLD' USR1\nraise USR1 0\np 1 0\n",
        );
        // ... while a child that ends after CHLD was trapped does
    }

    // ---- generator ---------------------------------------------------------

    /// What the generator believes about a signal's trap (only used to steer
    /// the distribution; the model decides what really happens).
    #[derive(Clone, Copy, PartialEq)]
    enum Belief {
        Default,
        Ignore,
        Body,
        Unknown,
    }

    struct Gen<'a> {
        r: &'a mut Rng,
        tbl: Vec<(u32, Vec<B>)>,
        /// signal each action is written for
        for_sig: Vec<(u32, i32)>,
        next_key: u32,
    }

    fn sig_rank(sg: i32) -> usize {
        SIGS.iter().position(|(n, _)| *n == sg).unwrap()
    }

    impl Gen<'_> {
        fn key(&mut self) -> u32 {
            self.next_key += 1;
            self.next_key
        }
        fn status(&mut self) -> u32 {
            *self.r.pick(&[0, 0, 1, 2, 7, 42])
        }
        fn bodies_for(&self, sg: i32) -> Vec<u32> {
            self.for_sig.iter().filter(|(_, s)| *s == sg).map(|(i, _)| *i).collect()
        }
        /// Actions: a marker probe, then probes, deliveries of *higher* signals
        /// only (so that the trap loop always ends), and trap changes.
        fn make_table(&mut self) {
            let n = 2 + self.r.below(4);
            for i in 0..n {
                let id = (i + 1) as u32;
                let sg = SIGS[self.r.below(SIGS.len())].0;
                self.for_sig.push((id, sg));
            }
            for (id, sg) in self.for_sig.clone() {
                let mut body = vec![B::Probe(1000 + id, self.status())];
                let len = self.r.below(4);
                for _ in 0..len {
                    let higher: Vec<i32> =
                        SIGS.iter().map(|(n, _)| *n).filter(|n| sig_rank(*n) > sig_rank(sg)).collect();
                    let b = match self.r.below(10) {
                        0..=3 => B::Probe(self.key(), self.status()),
                        4..=7 if !higher.is_empty() => B::Raise(*self.r.pick(&higher), self.status()),
                        8 => {
                            // change a trap from inside an action
                            let t = SIGS[self.r.below(SIGS.len())].0;
                            let cands = self.bodies_for(t);
                            // (a command installed from inside an action may replace a
                            // trap whose delivery is outstanding: known finding F21)
                            let a = match self.r.below(3) {
                                0 => Tact::Default,
                                1 => Tact::Ignore,
                                _ if !cands.is_empty() => Tact::Body(*self.r.pick(&cands)),
                                _ => Tact::Ignore,
                            };
                            B::Trap(t, a)
                        }
                        _ => B::Probe(self.key(), self.status()),
                    };
                    body.push(b);
                }
                self.tbl.push((id, body));
            }
        }
        fn leaf(&mut self, bel: &mut [Belief; 4]) -> C {
            loop {
                match self.r.below(100) {
                    0..=29 => return C::B(B::Probe(self.key(), self.status())),
                    30..=64 => {
                        let i = self.r.below(SIGS.len());
                        let sg = SIGS[i].0;
                        // mostly deliver signals believed to be trapped or ignored
                        let ok = match bel[i] {
                            Belief::Body => true,
                            Belief::Ignore => self.r.chance(1, 3),
                            Belief::Unknown => self.r.chance(1, 6),
                            Belief::Default => self.r.chance(1, 25),
                        };
                        if !ok {
                            continue;
                        }
                        return C::B(B::Raise(sg, self.status()));
                    }
                    _ => {
                        let i = self.r.below(SIGS.len());
                        let sg = SIGS[i].0;
                        let cands = self.bodies_for(sg);
                        let a = match self.r.below(8) {
                            0 => Tact::Default,
                            1 => Tact::Ignore,
                            _ if !cands.is_empty() => Tact::Body(*self.r.pick(&cands)),
                            _ => Tact::Ignore,
                        };
                        bel[i] = match a {
                            Tact::Default => Belief::Default,
                            Tact::Ignore => Belief::Ignore,
                            Tact::Body(_) => Belief::Body,
                        };
                        return C::B(B::Trap(sg, a));
                    }
                }
            }
        }
        fn list(&mut self, bel: &mut [Belief; 4], depth: usize, in_sub: bool, len: usize) -> Vec<C> {
            let mut v = vec![];
            for _ in 0..len {
                let c = if depth == 0 || self.r.chance(3, 4) {
                    self.leaf(bel)
                } else {
                    let n = 1 + self.r.below(3);
                    match self.r.below(if in_sub { 2 } else { 3 }) {
                        0 => C::Brace(self.list(bel, depth - 1, in_sub, n)),
                        1 => {
                            let nc = 1 + self.r.below(2);
                            let c = self.list(bel, depth - 1, in_sub, nc);
                            let mut b1 = *bel;
                            let mut b2 = *bel;
                            let t = self.list(&mut b1, depth - 1, in_sub, n);
                            let n2 = 1 + self.r.below(2);
                            let e = self.list(&mut b2, depth - 1, in_sub, n2);
                            for i in 0..4 {
                                bel[i] = if b1[i] == b2[i] { b1[i] } else { Belief::Unknown };
                            }
                            C::If(c, t, e)
                        }
                        _ => {
                            // command traps are reset in the subshell
                            let mut b = *bel;
                            for x in b.iter_mut() {
                                if *x == Belief::Body || *x == Belief::Unknown {
                                    *x = Belief::Default;
                                }
                            }
                            C::Sub(self.list(&mut b, depth - 1, true, n))
                        }
                    }
                };
                v.push(c);
            }
            v
        }
    }

    pub fn random(w: &mut CasesWriter, r: &mut Rng) {
        let mut g = Gen { r, tbl: vec![], for_sig: vec![], next_key: 0 };
        g.make_table();
        let mut bel = [Belief::Default; 4];
        let len = 3 + g.r.below(8);
        let main = g.list(&mut bel, 2, false, len);
        let newline = g.r.chance(1, 2);
        let tbl = g.tbl.clone();
        emit(w, "script-random", &tbl, &main, newline);
    }

    pub fn corpus(w: &mut CasesWriter) {
        use B::*;
        let p = |k, st| C::B(Probe(k, st));
        let raise = |sg, st| C::B(Raise(sg, st));
        let trap = |sg, a| C::B(Trap(sg, a));
        let (hup, term, usr1, usr2) = (1, 15, 124, 125);
        // delivery between two commands: runs once, $? preserved
        let tbl = vec![(1, vec![Probe(1001, 5), Probe(10, 6)])];
        emit(w, "script-corpus", &tbl, &[trap(usr1, Tact::Body(1)), p(1, 7), raise(usr1, 3), p(2, 0)], false);
        // two deliveries before the boundary are one; delivery inside an
        // action is deferred until the action ends; lowest signal first
        let tbl = vec![
            (1, vec![Probe(1001, 1), Raise(usr2, 2), Raise(usr2, 3), Probe(11, 4)]),
            (2, vec![Probe(1002, 9)]),
            (3, vec![Probe(1003, 8), Raise(usr1, 1)]),
        ];
        emit(
            w,
            "script-corpus",
            &tbl,
            &[
                trap(usr1, Tact::Body(1)),
                trap(usr2, Tact::Body(2)),
                trap(hup, Tact::Body(3)),
                raise(usr1, 42),
                p(1, 0),
                raise(hup, 7),
                p(2, 0),
            ],
            true,
        );
        // delivery in the condition of an if, in a brace group, as last command
        let tbl = vec![(1, vec![Probe(1001, 0)]), (2, vec![Probe(1002, 1)])];
        emit(
            w,
            "script-corpus",
            &tbl,
            &[
                trap(term, Tact::Body(1)),
                trap(usr2, Tact::Body(2)),
                C::If(vec![raise(term, 1)], vec![p(1, 0)], vec![p(2, 3)]),
                C::Brace(vec![raise(usr2, 0), raise(term, 5)]),
                p(3, 0),
                raise(usr2, 9),
            ],
            false,
        );
        // subshell: command traps reset (default action kills it), ignored stay
        let tbl = vec![(1, vec![Probe(1001, 0)])];
        emit(
            w,
            "script-corpus",
            &tbl,
            &[
                trap(usr1, Tact::Body(1)),
                trap(usr2, Tact::Ignore),
                C::Sub(vec![p(1, 2), raise(usr2, 4), p(2, 6)]),
                p(3, 0),
                C::Sub(vec![p(4, 0), raise(usr1, 0), p(5, 0)]),
                p(6, 0),
                C::Sub(vec![trap(usr1, Tact::Body(1)), raise(usr1, 3), p(7, 1)]),
                raise(usr1, 1),
            ],
            true,
        );
        // the trap is replaced inside another action while a delivery is waiting
        // (known finding F21: the minimal replay, kept so that every run reports it)
        let tbl = vec![
            (1, vec![Probe(1001, 0), Raise(usr2, 1), Trap(usr2, Tact::Body(3)), Probe(12, 2)]),
            (2, vec![Probe(1002, 0)]),
            (3, vec![Probe(1003, 0)]),
        ];
        emit(
            w,
            "script-corpus",
            &tbl,
            &[trap(usr1, Tact::Body(1)), trap(usr2, Tact::Body(2)), raise(usr1, 4), p(1, 0), raise(usr2, 0), p(2, 0)],
            false,
        );
        // ... removed inside another action: the delivery is dropped
        let tbl = vec![
            (1, vec![Probe(1001, 0), Raise(usr2, 1), Trap(usr2, Tact::Default), Probe(12, 2)]),
            (2, vec![Probe(1002, 0)]),
        ];
        emit(
            w,
            "script-corpus",
            &tbl,
            &[trap(usr1, Tact::Body(1)), trap(usr2, Tact::Body(2)), raise(usr1, 4), p(1, 0)],
            false,
        );
        // untrapped signal: the shell dies
        let tbl = vec![(1, vec![Probe(1001, 0), Trap(usr1, Tact::Default)])];
        emit(
            w,
            "script-corpus",
            &tbl,
            &[trap(usr1, Tact::Body(1)), raise(usr1, 0), p(1, 0), raise(usr1, 0), p(2, 0)],
            false,
        );
    }
}

// ---------------------------------------------------------------------------
// Stream C: the `trap` built-in (yash-builtin/src/trap.rs) with several
// conditions in one command, in a non-interactive shell entered with some
// signals ignored.  After every command the built-in `obs` records
// TrapSet::get_state and the real disposition and mask of every condition in
// play; `raise_safe SIG` sends SIG to the shell itself unless that would kill
// it; trap actions are `hit ID`.
mod builtin_stream {
    use super::*;
    use yash_env::builtin::{Builtin, Type};
    use yash_env::semantics::{ExitStatus, Field};
    use yash_env::system::{GetPid as _, SendSignal as _};
    use yv_harness::vsh::BuiltinFuture;

    #[derive(Default)]
    struct Ctx {
        state: Option<State>,
        univ: Vec<(i32, Disposition)>,
        /// per `obs`: (exit status of the command before, hits since the last obs, Coq term, shown)
        obs: Vec<(i32, Vec<u32>, String, String)>,
        hits: Vec<u32>,
        /// per `raise_safe`: was the signal sent?
        sent: Vec<bool>,
        interactive: bool,
    }
    thread_local! {
        static CTX: RefCell<Ctx> = RefCell::new(Ctx::default());
    }

    fn hit_main(_env: &mut VEnv, args: Vec<Field>) -> BuiltinFuture<'_> {
        Box::pin(async move {
            let id = args.first().and_then(|f| f.value.parse().ok()).unwrap_or(0);
            CTX.with(|c| c.borrow_mut().hits.push(id));
            ExitStatus::SUCCESS.into()
        })
    }
    fn obs_main(env: &mut VEnv, _args: Vec<Field>) -> BuiltinFuture<'_> {
        Box::pin(async move {
            let status = env.exit_status;
            CTX.with(|c| {
                let mut c = c.borrow_mut();
                let state = c.state.clone().expect("state");
                let (term, shown, _, _, _) = observe(env, &state, &c.univ);
                let hits = std::mem::take(&mut c.hits);
                c.obs.push((status.0, hits, term, shown));
            });
            status.into()
        })
    }
    fn raise_safe_main(env: &mut VEnv, args: Vec<Field>) -> BuiltinFuture<'_> {
        Box::pin(async move {
            let sg = script::number_of_any(&args[0].value);
            let safe = {
                let state = CTX.with(|c| c.borrow().state.clone().expect("state"));
                let st = state.borrow();
                st.processes[&env.main_pid].disposition(number(sg)) != Disposition::Default
            } && sg != SIGKILL
                && sg != SIGSTOP
                // an interactive shell turns SIGINT into an interrupt of the command
                && !(sg == SIGINT && CTX.with(|c| c.borrow().interactive));
            CTX.with(|c| c.borrow_mut().sent.push(safe));
            if safe {
                let pid = env.system.getpid();
                env.system.kill(pid, Some(number(sg))).await.ok();
            }
            ExitStatus::SUCCESS.into()
        })
    }

    #[derive(Clone, Debug)]
    pub enum Step {
        /// conditions as (number, spelling), action, an invalid operand at this position
        Trap(Vec<(i32, String)>, Act, Option<usize>),
        Deliver(i32),
        /// `command trap WORD...`: the operands as the built-in's lexical tests see them
        Words(Vec<Wd>),
    }

    /// One operand of the `trap` built-in (Coq: `TrapCmd.word`).
    #[derive(Clone, Debug)]
    pub enum Wd {
        Num(i32),
        Name(i32),
        /// a word that names no condition for yash-rs: unknown name, SIG prefix, lower case
        Other(&'static str),
        Dash,
        Empty,
        Cmd(u32),
    }
    impl Wd {
        fn text(&self) -> String {
            match self {
                Wd::Num(n) => n.to_string(),
                Wd::Name(c) => NAMES.iter().find(|(n, _)| n == c).expect("condition").1.to_string(),
                Wd::Other(s) => s.to_string(),
                Wd::Dash => "-".to_string(),
                Wd::Empty => "''".to_string(),
                Wd::Cmd(id) => format!("'hit {id}'"),
            }
        }
        fn coq(&self) -> String {
            match self {
                Wd::Num(n) => format!("(WNum {})", coq::n(*n as u64)),
                Wd::Name(c) => format!("(WName {})", coq::n(*c as u64)),
                Wd::Other(_) => "WOther".to_string(),
                Wd::Dash => "WDash".to_string(),
                Wd::Empty => "WEmpty".to_string(),
                Wd::Cmd(id) => format!("(WCmd {})", coq::n(*id as u64)),
            }
        }
    }

    const NAMES: [(i32, &str); 12] = [
        (120, "TSTP"),
        (121, "TTIN"),
        (122, "TTOU"),
        (0, "EXIT"),
        (1, "HUP"),
        (2, "INT"),
        (3, "QUIT"),
        (9, "KILL"),
        (15, "TERM"),
        (116, "STOP"),
        (124, "USR1"),
        (125, "USR2"),
    ];
    pub fn cond(c: i32, numeric: bool) -> (i32, String) {
        let name = NAMES.iter().find(|(n, _)| *n == c).expect("condition").1;
        (c, if numeric { c.to_string() } else { name.to_string() })
    }

    fn step_text(s: &Step) -> String {
        match s {
            Step::Trap(conds, a, bogus) => {
                let mut ops: Vec<String> = conds.iter().map(|(_, n)| n.clone()).collect();
                if let Some(i) = bogus {
                    ops.insert((*i).min(ops.len()), "BOGUS".to_string());
                }
                let act = match a {
                    Act::Default => "-".to_string(),
                    Act::Ignore => "''".to_string(),
                    Act::Command(id) => format!("'hit {id}'"),
                };
                // naming KILL or STOP is an error of a special built-in, which ends a
                // non-interactive shell: `command` keeps it alive to be observed
                let hard = conds.iter().any(|(c, _)| *c == SIGKILL || *c == SIGSTOP);
                format!("{}trap {act} {}", if hard { "command " } else { "" }, ops.join(" "))
            }
            Step::Deliver(c) => format!("raise_safe {}", NAMES.iter().find(|(n, _)| n == c).unwrap().1),
            // `command` keeps a non-interactive shell alive after an error of the special built-in
            Step::Words(ws) => {
                let mut t = "command trap".to_string();
                for w in ws {
                    t.push(' ');
                    t.push_str(&w.text());
                }
                t
            }
        }
    }

    /// `vsh::run_shell` with the initial dispositions installed on the process
    /// before `configure_environment` (an interactive shell sets its internal
    /// dispositions there).
    fn run_shell_with_initial(
        argv: Vec<String>,
        univ: Vec<(i32, Disposition)>,
    ) -> yv_harness::vsh::Outcome {
        use std::ops::ControlFlow::{Break, Continue};
        use yash_env::semantics::Divert;
        yv_harness::vsh::trace_take();
        let r = std::panic::catch_unwind(std::panic::AssertUnwindSafe(move || {
            let (res, deadlock, timeout, _state) = vsh::drive(
                move |mut env: VEnv, state: State| async move {
                    {
                        let mut st = state.borrow_mut();
                        let proc = st.processes.get_mut(&env.main_pid).unwrap();
                        for (c, d) in &univ {
                            if *c != 0 && *d != Disposition::Default {
                                proc.set_disposition(number(*c), *d);
                            }
                        }
                    }
                    CTX.with(|c| c.borrow_mut().state = Some(Rc::clone(&state)));
                    let mut args = vec!["yash".to_string()];
                    args.extend(argv);
                    let run = match yash_cli::startup::args::parse(args) {
                        Ok(yash_cli::startup::args::Parse::Run(run)) => run,
                        _ => return 2,
                    };
                    let work = yash_cli::startup::configure_environment(&mut env, run).await;
                    vsh::install_probes(&mut env);
                    env.builtins.insert("hit", Builtin::new(Type::Mandatory, hit_main));
                    env.builtins.insert("obs", Builtin::new(Type::Mandatory, obs_main));
                    env.builtins.insert("raise_safe", Builtin::new(Type::Mandatory, raise_safe_main));
                    let ref_env = RefCell::new(&mut env);
                    let lexer = match yash_cli::startup::input::prepare_input(&ref_env, &work.source).await {
                        Ok(lexer) => lexer,
                        Err(_) => return 127,
                    };
                    let result = yash_semantics::read_eval_loop(&ref_env, &mut { lexer }).await;
                    let env = ref_env.into_inner();
                    env.apply_result(result);
                    match result {
                        Continue(())
                        | Break(Divert::Continue { .. })
                        | Break(Divert::Break { .. })
                        | Break(Divert::Return(_))
                        | Break(Divert::Interrupt(_))
                        | Break(Divert::Exit(_)) => yash_semantics::trap::run_exit_trap(env).await,
                        Break(Divert::Abort(_)) => (),
                    }
                    env.exit_status.0
                },
                100_000,
            );
            (res, deadlock, timeout)
        }));
        match r {
            Ok((res, deadlock, timeout)) => yv_harness::vsh::Outcome {
                status: res.unwrap_or(-1),
                deadlock,
                timeout,
                ..Default::default()
            },
            Err(_) => yv_harness::vsh::Outcome {
                panicked: Some("panic".into()),
                status: -2,
                ..Default::default()
            },
        }
    }

    pub fn emit(w: &mut CasesWriter, stream: &str, interactive: bool, univ: &[(i32, Disposition)], steps: &[Step]) {
        let text: String = steps.iter().map(|s| format!("{}; obs\n", step_text(s))).collect();
        CTX.with(|c| {
            *c.borrow_mut() = Ctx { univ: univ.to_vec(), ..Default::default() };
        });
        CTX.with(|c| c.borrow_mut().interactive = interactive);
        let u = univ.to_vec();
        let mut argv: Vec<String> = vec![];
        if interactive {
            argv.push("-i".into());
        }
        argv.push("-c".into());
        argv.push(text.clone());
        let o = script::with_watchdog(&text, 60, || run_shell_with_initial(argv, u));
        let ctx = CTX.with(|c| std::mem::take(&mut *c.borrow_mut()));
        w.count(&format!("stream:{stream}"));
        let mut terms = vec![];
        let mut shown = vec![];
        let mut sent = ctx.sent.iter();
        let mut complete = ctx.obs.len() == steps.len();
        for (s, (status, hits, oterm, oshow)) in steps.iter().zip(&ctx.obs) {
            match s {
                Step::Trap(conds, a, bogus) => {
                    let cs: Vec<String> = conds.iter().map(|(c, _)| coq::n(*c as u64)).collect();
                    terms.push(format!(
                        "(BTrapCmd {} {} {} {} {})",
                        coq::list(&cs),
                        a.coq(),
                        coq::b(bogus.is_none()),
                        coq::b(*status == 0),
                        oterm
                    ));
                    w.count(&format!("builtin:trap-conditions:{}", conds.len().min(4)));
                    shown.push(format!("{} => status {} [{}]", step_text(s), status, oshow));
                }
                Step::Words(ws) => {
                    terms.push(format!(
                        "(BTrapWords {} {} {})",
                        coq::list(&ws.iter().map(|x| x.coq()).collect::<Vec<_>>()),
                        coq::n((*status).max(0) as u64),
                        oterm
                    ));
                    w.count("builtin:trap-by-words");
                    w.count(&format!("builtin:trap-by-words:status:{status}"));
                    shown.push(format!("{} => status {} [{}]", step_text(s), status, oshow));
                }
                Step::Deliver(c) => {
                    if sent.next() == Some(&true) {
                        let hs: Vec<String> = hits.iter().map(|h| coq::n(*h as u64)).collect();
                        terms.push(format!("(BDeliver {} {} {})", coq::n(*c as u64), coq::list(&hs), oterm));
                        w.count("builtin:deliver");
                        shown.push(format!("{} => ran {:?} [{}]", step_text(s), hits, oshow));
                    } else {
                        shown.push(format!("{} => not sent (would kill the shell)", step_text(s)));
                    }
                }
            }
        }
        if o.panicked.is_some() || o.timeout {
            complete = false;
        }
        let term = format!(
            "(CBuiltin {} {} {} {})",
            coq::b(interactive),
            univ_coq(univ),
            coq::list(&terms),
            coq::b(complete)
        );
        w.count(if interactive { "builtin:interactive" } else { "builtin:non-interactive" });
        let init: Vec<String> = univ.iter().map(|(c, d)| format!("{}:{}", sig_name(*c), d_show(*d))).collect();
        let json = format!(
            "{{\"stream\":{},\"interactive\":{},\"initial\":{},\"script\":{},\"steps\":[{}],\"complete\":{}}}",
            json_str(stream),
            interactive,
            json_str(&init.join(" ")),
            json_str(&text),
            shown.iter().map(|x| json_str(x)).collect::<Vec<_>>().join(","),
            complete
        );
        let multi = steps.iter().any(|s| matches!(s, Step::Trap(c, ..) if c.len() >= 2) || matches!(s, Step::Words(c) if c.len() >= 3));
        w.push(&term, &json, &[], if multi { Some(format!("{}|{}", init.join(" "), text)) } else { None });
    }

    pub fn corpus(w: &mut CasesWriter) {
        use Disposition::{Default as D, Ignore as I};
        let c1 = Act::Command(1);
        let n = |c| cond(c, false);
        // entered with INT ignored: the refusal for INT is silent, TERM and QUIT
        // still get the action
        let univ = [(2, I), (3, D), (15, D)];
        emit(
            w,
            "builtin-corpus",
            false,
            &univ,
            &[
                Step::Trap(vec![n(2), n(15), n(3)], c1, None),
                Step::Deliver(15),
                Step::Deliver(3),
                Step::Deliver(2),
                Step::Trap(vec![n(2), n(15)], Act::Default, None),
                Step::Trap(vec![n(2), n(3)], Act::Ignore, None),
                Step::Deliver(3),
            ],
        );
        // KILL in the middle: an error, the others are still set
        let univ = [(0, D), (1, D), (9, D), (124, I), (125, D)];
        emit(
            w,
            "builtin-corpus",
            false,
            &univ,
            &[
                Step::Trap(vec![n(1), n(9), n(125), n(0)], c1, None),
                Step::Deliver(125),
                Step::Trap(vec![n(124), n(1)], Act::Command(2), None),
                Step::Deliver(1),
                // an operand that names no condition: nothing is touched
                Step::Trap(vec![n(1), n(125)], Act::Default, Some(1)),
                Step::Deliver(1),
            ],
        );
    }

    /// the operand forms of the built-in (stream C by words)
    pub fn corpus_words(w: &mut CasesWriter) {
        use Disposition::{Default as D, Ignore as I};
        use Wd::*;
        let univ = [(0, D), (1, D), (2, I), (9, D), (15, D), (116, D), (124, D)];
        emit(
            w,
            "builtin-corpus",
            false,
            &univ,
            &[
                // names and numbers mixed, INT ignored on entry (silent), KILL in the middle (status 1), the rest still set
                Step::Words(vec![Cmd(1), Name(2), Num(9), Name(15), Num(0), Num(124)]),
                Step::Deliver(15),
                Step::Deliver(124),
                // a numeric first operand is a condition: everything named is reset
                Step::Words(vec![Num(15), Name(124)]),
                Step::Words(vec![Cmd(2), Name(1), Name(15)]),
                // SIG prefix and lower case name no condition in yash-rs: nothing is touched, status 1
                Step::Words(vec![Dash, Name(1), Other("SIGTERM")]),
                Step::Words(vec![Dash, Other("term"), Name(1)]),
                Step::Words(vec![Empty, Name(1), Num(9999)]),
                Step::Deliver(1),
                Step::Deliver(15),
                // `-` and '' as condition operands are unknown conditions
                Step::Words(vec![Cmd(3), Name(1), Dash]),
                // an action without condition: status 2
                Step::Words(vec![Cmd(3)]),
                // STOP first, then valid ones
                Step::Words(vec![Empty, Name(116), Name(1), Num(15)]),
                Step::Deliver(1),
                Step::Words(vec![Dash, Num(1)]),
                Step::Words(vec![Num(0), Num(15)]),
            ],
        );
        let univ = [(2, I), (3, D), (15, I), (120, D), (121, D), (122, D), (124, I)];
        emit(
            w,
            "builtin-corpus",
            true,
            &univ,
            &[
                Step::Words(vec![Cmd(1), Name(15), Num(124), Name(120)]),
                Step::Deliver(15),
                Step::Deliver(124),
                Step::Words(vec![Num(15), Num(124)]),
                Step::Words(vec![Empty, Name(3), Other("SIGQUIT")]),
            ],
        );
    }

    /// an interactive shell entered with INT and TSTP ignored traps them all the same
    pub fn corpus_interactive(w: &mut CasesWriter) {
        use Disposition::{Default as D, Ignore as I};
        let n = |c| cond(c, false);
        let univ = [(2, I), (3, D), (15, D), (120, I), (121, D), (122, D), (124, I)];
        emit(
            w,
            "builtin-corpus",
            true,
            &univ,
            &[
                Step::Trap(vec![n(2), n(15), n(124)], Act::Command(1), None),
                Step::Deliver(15),
                Step::Deliver(124),
                Step::Trap(vec![n(120), n(3)], Act::Command(2), None),
                Step::Deliver(120),
                Step::Trap(vec![n(2), n(15), n(120)], Act::Default, None),
                Step::Deliver(15),
                Step::Trap(vec![n(3), n(124)], Act::Ignore, None),
            ],
        );
    }

    pub fn random(w: &mut CasesWriter, r: &mut Rng) {
        let interactive = r.chance(1, 3);
        let pool = [0, 1, 2, 3, 9, 15, 116, 124, 125];
        let mut conds: Vec<i32> = if interactive { vec![2, 3, 15, 120, 121, 122] } else { vec![] };
        let n = conds.len() + 2 + r.below(4);
        while conds.len() < n {
            let c = *r.pick(&pool);
            if !conds.contains(&c) {
                conds.push(c);
            }
        }
        conds.sort();
        let univ: Vec<(i32, Disposition)> = conds
            .iter()
            .map(|c| (*c, if *c != 0 && r.chance(2, 5) { Disposition::Ignore } else { Disposition::Default }))
            .collect();
        let mut steps = vec![];
        let len = 2 + r.below(6);
        for _ in 0..len {
            if r.chance(1, 4) {
                // by words: action word or none, conditions by name or number, now and then an operand that is none
                let mut ws: Vec<Wd> = vec![];
                let with_action = r.chance(3, 4);
                if with_action {
                    ws.push(match r.below(6) {
                        0 => Wd::Dash,
                        1 => Wd::Empty,
                        _ => Wd::Cmd(1 + r.below(3) as u32),
                    });
                }
                // (no operand at all prints the traps, which also reads every condition's state: not generated)
                let k = if with_action && r.chance(1, 15) { 0 } else { 1 + r.below(4) };
                for i in 0..k {
                    let c = *r.pick(&conds);
                    let numeric = (i == 0 && !with_action) || r.chance(1, 3);
                    ws.push(if numeric { Wd::Num(c) } else { Wd::Name(c) });
                }
                if k > 0 && r.chance(1, 8) {
                    let bad = match r.below(7) {
                        0 => Wd::Other("BOGUS"),
                        1 => Wd::Other("SIGINT"),
                        2 => Wd::Other("int"),
                        3 => Wd::Other("sigterm"),
                        4 => Wd::Num(9999),
                        5 => Wd::Dash,
                        _ => Wd::Empty,
                    };
                    // never first when there is no action word (it would be the action)
                    let lo = if with_action { 1 } else { 1 };
                    let at = lo + r.below(ws.len() - lo + 1);
                    ws.insert(at, bad);
                }
                steps.push(Step::Words(ws));
            } else if r.chance(3, 5) {
                let k = 1 + r.below(4);
                let cs: Vec<(i32, String)> = (0..k).map(|_| cond(*r.pick(&conds), r.chance(1, 4))).collect();
                let a = match r.below(6) {
                    0 => Act::Default,
                    1 => Act::Ignore,
                    _ => Act::Command(1 + r.below(3) as u32),
                };
                let bogus = if r.chance(1, 12) { Some(r.below(k + 1)) } else { None };
                steps.push(Step::Trap(cs, a, bogus));
            } else {
                let c = *r.pick(&conds);
                if c != 0 {
                    steps.push(Step::Deliver(c));
                }
            }
        }
        emit(w, "builtin-random", interactive, &univ, &steps);
    }
}


// ---------------------------------------------------------------------------
// Stream D (`CWait`): the `wait` built-in interrupted by trapped signals.
//
// All children are started before the first `wait`; each child is a list of
// steps at distinct instants of virtual time: `nap D; tell J SIG...` (a batch
// of signals sent to the main shell) and finally `nap D; bye J ST; exit ST`.
// The main shell's own commands take no virtual time, so every event reaches
// it while it is blocked in `wait`.  Coq gets the script, the events in the
// order of virtual time, and the trace recorded by p / mark / tell / bye.
mod wait_stream {
    use super::script::{Tact, name_of, number_of};
    use super::*;
    use yash_env::builtin::{Builtin, Type};
    use yash_env::semantics::{ExitStatus, Field};
    use yash_env::system::concurrency::Sleep as _;
    use yash_env::system::{GetPid as _, SendSignal as _};
    use yv_harness::vsh::{BuiltinFuture, RunOpts, TraceItem, run_shell, trace_push};

    #[derive(Clone, Debug)]
    pub enum WCmd {
        P(u32, u32),
        Trap(i32, Tact),
        Spawn(u32),
        /// None = `wait`, Some(j) = `wait $pJ`
        Wait(Option<u32>),
    }
    #[derive(Clone, Debug)]
    pub enum WEv {
        Sigs(u32, Vec<i32>),
        Child(u32, u32),
    }

    fn rec(env: &VEnv, kind: &str, args: &[Field]) {
        trace_push(TraceItem {
            kind: kind.to_string(),
            status: env.exit_status.0,
            args: args.iter().map(|f| f.value.clone()).collect(),
            in_main: env.system.getpid() == env.main_pid,
        });
    }
    fn nap_main(env: &mut VEnv, args: Vec<Field>) -> BuiltinFuture<'_> {
        Box::pin(async move {
            let n = args.first().and_then(|f| f.value.parse::<u64>().ok()).unwrap_or(1);
            env.system.sleep(std::time::Duration::from_millis(n)).await;
            ExitStatus::SUCCESS.into()
        })
    }
    fn tell_main(env: &mut VEnv, args: Vec<Field>) -> BuiltinFuture<'_> {
        Box::pin(async move {
            rec(env, "tell", &args);
            let sg = number_of(&args[1].value);
            let pid = env.main_pid;
            env.system.kill(pid, Some(number(sg))).await.ok();
            ExitStatus::SUCCESS.into()
        })
    }
    fn bye_main(env: &mut VEnv, args: Vec<Field>) -> BuiltinFuture<'_> {
        Box::pin(async move {
            rec(env, "bye", &args);
            ExitStatus::SUCCESS.into()
        })
    }

    /// (time, event) sorted by time -> per-child shell text
    fn child_text(j: u32, evs: &[(u32, WEv)]) -> String {
        let mut t = 0;
        let mut parts = vec![];
        for (at, e) in evs {
            match e {
                WEv::Sigs(c, l) if *c == j => {
                    parts.push(format!("nap {}", at - t));
                    t = *at;
                    for sg in l {
                        parts.push(format!("tell {j} {}", name_of(*sg)));
                    }
                }
                WEv::Child(c, st) if *c == j => {
                    parts.push(format!("nap {}", at - t));
                    t = *at;
                    parts.push(format!("bye {j} {st}"));
                    parts.push(format!("exit {st}"));
                }
                _ => {}
            }
        }
        format!("{{ {}; }} &\np{j}=$!", parts.join("; "))
    }

    pub fn script_text(atbl: &[(u32, u32)], cs: &[WCmd], evs: &[(u32, WEv)]) -> String {
        let mut out = String::new();
        for c in cs {
            let line = match c {
                WCmd::P(k, st) => format!("p {k} {st}"),
                WCmd::Trap(sg, a) => {
                    let n = name_of(*sg);
                    let arg = match a {
                        Tact::Default => "-".to_string(),
                        Tact::Ignore => "''".to_string(),
                        Tact::Body(id) => {
                            let arg = atbl.iter().find(|(i, _)| i == id).map(|x| x.1).unwrap_or(0);
                            format!("'p {} {arg}'", 1000 + id)
                        }
                    };
                    format!("mark {n} {}; trap {arg} {n}", a.mark())
                }
                WCmd::Spawn(j) => child_text(*j, evs),
                WCmd::Wait(None) => "wait".to_string(),
                WCmd::Wait(Some(j)) if cs.iter().any(|c| matches!(c, WCmd::Spawn(i) if i == j)) => format!("wait $p{j}"),
                // a job that was never started: a process id nobody has
                WCmd::Wait(Some(_)) => "wait 9999".to_string(),
            };
            out.push_str(&line);
            out.push('\n');
        }
        out
    }

    fn cmd_coq(c: &WCmd) -> String {
        match c {
            WCmd::P(k, st) => format!("(WcP {} {})", coq::n(*k as u64), coq::n(*st as u64)),
            WCmd::Trap(sg, a) => format!("(WcTrap {} {})", coq::n(*sg as u64), a.coq()),
            WCmd::Spawn(j) => format!("(WcSpawn {})", coq::n(*j as u64)),
            WCmd::Wait(None) => "(WcWait WAll)".to_string(),
            WCmd::Wait(Some(j)) => format!("(WcWait (WJob {}))", coq::n(*j as u64)),
        }
    }
    fn ev_coq(e: &WEv) -> String {
        match e {
            WEv::Sigs(j, l) => format!(
                "(WSigs {} {})",
                coq::n(*j as u64),
                coq::list(&l.iter().map(|s| coq::n(*s as u64)).collect::<Vec<_>>())
            ),
            WEv::Child(j, st) => format!("(WChild {} {})", coq::n(*j as u64), coq::n(*st as u64)),
        }
    }

    pub fn emit(w: &mut CasesWriter, stream: &str, atbl: &[(u32, u32)], cs: &[WCmd], evs: &[(u32, WEv)]) {
        let text = script_text(atbl, cs, evs);
        let (o, _) = script::with_watchdog(&text, 60, || {
            run_shell(RunOpts { argv: vec!["-c".into(), text.clone()], ..Default::default() }, |env, state| {
                if state.borrow().now.is_none() {
                    state.borrow_mut().now = Some(std::time::Instant::now());
                }
                env.builtins.insert("p", Builtin::new(Type::Mandatory, script::p_main));
                env.builtins.insert("mark", Builtin::new(Type::Mandatory, script::mark_main));
                env.builtins.insert("nap", Builtin::new(Type::Mandatory, nap_main));
                env.builtins.insert("tell", Builtin::new(Type::Mandatory, tell_main));
                env.builtins.insert("bye", Builtin::new(Type::Mandatory, bye_main));
            })
        });
        let mut trace_coq = vec![];
        let mut show = vec![];
        let mut actions = 0usize;
        let mut interrupted = 0usize;
        let mut foreign = false;
        for it in &o.trace {
            let a = |i: usize| it.args.get(i).cloned().unwrap_or_default();
            let num = |i: usize| a(i).parse::<u64>().unwrap_or(0);
            let before = it.status as u64;
            match it.kind.as_str() {
                "p" => {
                    if !it.in_main {
                        foreign = true;
                    }
                    if num(0) >= 1000 {
                        actions += 1;
                    }
                    if before > 384 {
                        interrupted += 1;
                    }
                    trace_coq.push(format!("(TP {} {} {})", coq::n(num(0)), coq::n(before), coq::n(num(1))));
                    show.push(format!("p{}[$?={before}]->{}", num(0), num(1)));
                }
                "mark" => {
                    let act = match a(1).as_str() {
                        "-" => Tact::Default,
                        "ign" => Tact::Ignore,
                        id => Tact::Body(id.parse().unwrap_or(0)),
                    };
                    trace_coq.push(format!(
                        "(TMark {} {} {})",
                        coq::n(number_of(&a(0)) as u64),
                        act.coq(),
                        coq::n(before)
                    ));
                    show.push(format!("trap {} {}[$?={before}]", a(1), a(0)));
                }
                "tell" => {
                    trace_coq.push(format!("(TTell {} {})", coq::n(num(0)), coq::n(number_of(&a(1)) as u64)));
                    show.push(format!("<{}>tell {}", num(0), a(1)));
                }
                "bye" => {
                    trace_coq.push(format!("(TBye {} {})", coq::n(num(0)), coq::n(num(1))));
                    show.push(format!("<{}>bye {}", num(0), num(1)));
                }
                other => {
                    foreign = true;
                    show.push(other.to_string());
                }
            }
        }
        let dead = o.status == -1 && o.panicked.is_none() && !o.timeout;
        let bad = if let Some(m) = &o.panicked {
            Some(format!("panic: {m}"))
        } else if o.timeout {
            Some("timeout".to_string())
        } else if foreign {
            Some("a record from an unexpected process".to_string())
        } else {
            None
        };
        w.count(&format!("stream:{stream}"));
        w.count(&format!("wait:actions-run:{}", match actions { 0 => "0", 1 => "1", 2..=3 => "2-3", _ => "4+" }));
        w.count(&format!("wait:commands-seeing-status>384:{}", match interrupted { 0 => "0", 1 => "1", _ => "2+" }));
        if dead {
            w.count("wait:main-shell-killed");
        }
        let atblc: Vec<String> =
            atbl.iter().map(|(i, a)| format!("({}, {})", coq::n(*i as u64), coq::n(*a as u64))).collect();
        let term = if bad.is_some() {
            "(CPanic 3)".to_string()
        } else {
            format!(
                "(CWait {} {} {} {} {})",
                coq::list(&atblc),
                coq::list(&cs.iter().map(cmd_coq).collect::<Vec<_>>()),
                coq::list(&evs.iter().map(|(_, e)| ev_coq(e)).collect::<Vec<_>>()),
                coq::list(&trace_coq),
                coq::b(dead)
            )
        };
        let json = format!(
            "{{\"stream\":{},\"script\":{},\"trace\":{},\"main_shell_killed\":{}{}}}",
            json_str(stream),
            json_str(&text),
            json_str(&show.join(" ")),
            dead,
            bad.as_ref().map_or(String::new(), |b| format!(",\"abnormal\":{}", json_str(b)))
        );
        let key = if interrupted > 0 || actions > 0 { Some(text.clone()) } else { None };
        let tags: Vec<&str> = if bad.is_some() { vec!["abnormal"] } else { vec![] };
        w.push(&term, &json, &tags, key);
    }

    const HUP: i32 = 1;
    const TERM: i32 = 15;
    const USR1: i32 = 124;
    const USR2: i32 = 125;

    pub fn corpus(w: &mut CasesWriter) {
        use WCmd::*;
        let atbl = [(1, 0), (2, 5), (3, 0), (4, 9)];
        let b = Tact::Body;
        // the plain case: one child, one trapped signal, wait interrupted, second wait completes
        emit(
            w,
            "wait-corpus",
            &atbl,
            &[Trap(USR1, b(1)), Spawn(0), P(1, 7), Wait(None), P(2, 0), Wait(Some(0)), P(3, 0)],
            &[(2, WEv::Sigs(0, vec![USR1])), (5, WEv::Child(0, 3))],
        );
        // ignored signal and a signal without trap command do not interrupt; the job's status is returned
        emit(
            w,
            "wait-corpus",
            &atbl,
            &[Trap(USR1, Tact::Ignore), Spawn(0), P(1, 7), Wait(Some(0)), P(2, 0)],
            &[(2, WEv::Sigs(0, vec![USR1, USR1])), (5, WEv::Child(0, 42))],
        );
        // a batch: the first trapped signal in order of arrival interrupts, the others run after the built-in, lowest first
        emit(
            w,
            "wait-corpus",
            &atbl,
            &[
                Trap(USR2, b(1)),
                Trap(HUP, b(2)),
                Trap(TERM, b(3)),
                Trap(USR1, Tact::Ignore),
                Spawn(0),
                P(1, 7),
                Wait(None),
                P(2, 0),
                Wait(None),
                P(3, 0),
            ],
            &[(1, WEv::Sigs(0, vec![USR1, USR2, TERM, HUP, USR2])), (4, WEv::Child(0, 0))],
        );
        // SIGCHLD trapped: the child's end itself interrupts the wait
        emit(
            w,
            "wait-corpus",
            &atbl,
            &[Trap(SIGCHLD, b(4)), Spawn(0), Spawn(1), P(1, 2), Wait(Some(1)), P(2, 0), Wait(Some(1)), P(3, 0), Wait(Some(0)), P(4, 0), Wait(Some(0)), P(5, 0)],
            &[(3, WEv::Child(1, 8)), (6, WEv::Child(0, 9))],
        );
        // `wait` for all: the finished job before the first running one is forgotten when the wait is interrupted
        emit(
            w,
            "wait-corpus",
            &atbl,
            &[Trap(USR1, b(1)), Spawn(0), Spawn(1), Wait(None), P(1, 0), Wait(Some(0)), P(2, 0), Wait(Some(1)), P(3, 0)],
            &[(1, WEv::Child(0, 4)), (2, WEv::Sigs(1, vec![USR1])), (3, WEv::Child(1, 6))],
        );
        // two children, signals from both, job done before the signal
        emit(
            w,
            "wait-corpus",
            &atbl,
            &[Trap(USR1, b(1)), Trap(USR2, b(2)), Spawn(0), Spawn(1), P(1, 3), Wait(Some(0)), P(2, 0), Wait(None), P(3, 0), Wait(None), P(4, 0)],
            &[(1, WEv::Child(0, 4)), (2, WEv::Sigs(1, vec![USR2, USR1])), (3, WEv::Child(1, 6))],
        );
        // a signal with the default action kills the waiting shell
        emit(
            w,
            "wait-corpus",
            &atbl,
            &[Trap(USR1, b(1)), Spawn(0), Spawn(1), P(1, 3), Wait(None), P(2, 0)],
            &[(1, WEv::Sigs(0, vec![USR1, TERM])), (2, WEv::Sigs(1, vec![USR1])), (3, WEv::Child(0, 0)), (4, WEv::Child(1, 1))],
        );
        // trap changed between two waits
        emit(
            w,
            "wait-corpus",
            &atbl,
            &[Trap(USR1, b(1)), Spawn(0), Wait(None), P(1, 0), Trap(USR1, Tact::Ignore), Wait(None), P(2, 0), Wait(Some(0)), P(3, 0)],
            &[(1, WEv::Sigs(0, vec![USR1])), (2, WEv::Sigs(0, vec![USR1])), (3, WEv::Child(0, 5))],
        );
    }

    pub fn random(w: &mut CasesWriter, r: &mut Rng) {
        let sigs = [HUP, TERM, USR1, USR2];
        let nact = 2 + r.below(4) as u32;
        let atbl: Vec<(u32, u32)> = (1..=nact).map(|i| (i, *r.pick(&[0u32, 0, 1, 5, 9]))).collect();
        let nchild = 1 + r.below(3) as u32;
        // what the generator believes about each signal (to steer the events)
        let mut belief: HashMap<i32, Tact> = HashMap::new();
        let mut cs: Vec<WCmd> = vec![];
        let mut key = 0u32;
        let mut p = |cs: &mut Vec<WCmd>, r: &mut Rng| {
            key += 1;
            cs.push(WCmd::P(key, *r.pick(&[0u32, 0, 1, 2, 7, 42])));
        };
        let trap_cmd = |r: &mut Rng, belief: &mut HashMap<i32, Tact>, nact: u32| -> WCmd {
            let sg = if r.chance(1, 6) { SIGCHLD } else { *r.pick(&sigs) };
            let a = match r.below(10) {
                0 => Tact::Default,
                1..=2 => Tact::Ignore,
                _ => Tact::Body(1 + r.below(nact as usize) as u32),
            };
            belief.insert(sg, a);
            WCmd::Trap(sg, a)
        };
        for _ in 0..(1 + r.below(4)) {
            let c = trap_cmd(r, &mut belief, nact);
            cs.push(c);
        }
        for j in 0..nchild {
            if r.chance(1, 3) {
                p(&mut cs, r);
            }
            cs.push(WCmd::Spawn(j));
        }
        if r.chance(1, 2) {
            p(&mut cs, r);
        }
        // the events: per child 0-3 batches, then the end; a random interleaving
        let mut per: Vec<Vec<WEv>> = vec![];
        for j in 0..nchild {
            let mut v = vec![];
            for _ in 0..r.below(4) {
                let n = 1 + r.below(3);
                let mut l = vec![];
                for _ in 0..n {
                    // mostly signals that do not kill the shell
                    let safe: Vec<i32> = sigs.iter().copied().filter(|s| belief.contains_key(s) && belief[s] != Tact::Default).collect();
                    let sg = if !safe.is_empty() && !r.chance(1, 30) { *r.pick(&safe) } else { *r.pick(&sigs) };
                    l.push(sg);
                }
                v.push(WEv::Sigs(j, l));
            }
            v.push(WEv::Child(j, *r.pick(&[0u32, 0, 1, 3, 9, 42])));
            per.push(v);
        }
        let mut evs: Vec<(u32, WEv)> = vec![];
        let mut idx = vec![0usize; nchild as usize];
        let mut t = 0u32;
        loop {
            let live: Vec<usize> = (0..nchild as usize).filter(|j| idx[*j] < per[*j].len()).collect();
            if live.is_empty() {
                break;
            }
            let j = *r.pick(&live);
            t += 1 + r.below(3) as u32;
            evs.push((t, per[j][idx[j]].clone()));
            idx[j] += 1;
        }
        // waits, probes and trap changes
        let nw = 1 + r.below(2 + evs.len());
        for _ in 0..nw {
            let extra = if r.chance(1, 10) { 1 } else { 0 };
            let tgt = if r.chance(1, 2) { None } else { Some(r.below(nchild as usize + extra) as u32) };
            cs.push(WCmd::Wait(tgt));
            if r.chance(4, 5) {
                p(&mut cs, r);
            }
            if r.chance(1, 5) {
                let c = trap_cmd(r, &mut belief, nact);
                cs.push(c);
            }
        }
        w.count(&format!("wait:children:{nchild}"));
        emit(w, "wait-random", &atbl, &cs, &evs);
    }
}

fn main() {
    let args = Args::parse();
    let mut rng = Rng::new(args.seed);
    let mut w = CasesWriter::new(&args, "Yv.C11.Run", 150);
    use Disposition::{Default as D, Ignore as I};

    corpus(&mut w);

    // exhaustive exploration of single-signal universes (one per signal class)
    let classes: &[i32] = if args.thorough() {
        &[SIGUSR1, SIGINT, SIGQUIT, SIGTERM, SIGCHLD, SIGTSTP, SIGKILL, SIGSTOP, 0]
    } else {
        &[SIGUSR1, SIGKILL, SIGCHLD, SIGTERM]
    };
    for c in classes {
        for init in [D, I] {
            if *c == 0 && init == I {
                continue;
            }
            let mut univ = vec![(*c, init)];
            // the groups of internal dispositions need their members in play
            let group: &[i32] = match *c {
                SIGINT | SIGQUIT | SIGTERM => &[SIGINT, SIGQUIT, SIGTERM],
                SIGTSTP => &[SIGTSTP, SIGTTIN, SIGTTOU],
                _ => &[],
            };
            for g in group {
                if g != c {
                    univ.push((*g, D));
                }
            }
            univ.sort();
            // explore the states of `c` only: operations aimed at c + global ones
            let cmds: &[u32] = if args.thorough() { &[1, 2] } else { &[1] };
            let alpha = alphabet_for(&univ, *c, cmds);
            bfs(&mut w, &format!("bfs:{}:{}", sig_name(*c), d_show(init)), &univ, &alpha, args.scale(400, 100_000));
        }
    }
    if args.thorough() {
        let univ = [(SIGUSR1, D), (SIGUSR2, D)];
        bfs(&mut w, "bfs2:USR1+USR2", &univ, &alphabet(&univ, &[1], &[false]), 3000);
    }

    let n = args.scale(500, 10000);
    for k in 0..n {
        let mut r = rng.fork(k as u64);
        random_history(&mut w, &mut r, args.thorough());
    }

    // stream C: the trap built-in with several conditions
    builtin_stream::corpus(&mut w);
    builtin_stream::corpus_interactive(&mut w);
    builtin_stream::corpus_words(&mut w);
    let n = args.scale(300, 4000);
    for k in 0..n {
        let mut r = rng.fork(2_000_000 + k as u64);
        builtin_stream::random(&mut w, &mut r);
    }

    // stream D: the wait built-in interrupted by trapped signals
    wait_stream::corpus(&mut w);
    let n = args.scale(400, 6000);
    for k in 0..n {
        let mut r = rng.fork(3_000_000 + k as u64);
        wait_stream::random(&mut w, &mut r);
    }

    // stream B: scripts
    script::corpus(&mut w);
    script::corpus_monitor_only(&mut w);
    let n = args.scale(500, 10000);
    for k in 0..n {
        let mut r = rng.fork(1_000_000 + k as u64);
        script::random(&mut w, &mut r);
    }
    w.finish(
        "histories of TrapSet operations on the simulated OS: corpus, breadth-first exploration of \
         all reachable states of single-signal universes (one case per state and operation), random \
         histories over 1-13 conditions; non-trivial = a disposition changed, a trap command was \
         refused, or a signal was caught; distinct = by initial dispositions and operation sequence",
    );
}

/// Breadth-first exploration of the implementation's reachable states over a
/// small universe with the given alphabet: one case per (reachable state,
/// operation); the case is the shortest history leading to the state, then the
/// operation.
fn bfs(w: &mut CasesWriter, stream: &str, univ: &[(i32, Disposition)], alpha: &[Op], max_states: usize) {
    let mut seen: BTreeSet<String> = BTreeSet::new();
    let mut queue: VecDeque<Vec<Op>> = VecDeque::new();
    let (rep0, _) = replay(univ, |_, _, _| None);
    seen.insert(rep0.key.clone());
    queue.push_back(vec![]);
    let mut states = 0;
    while let Some(path) = queue.pop_front() {
        states += 1;
        for op in alpha {
            let mut ops = path.clone();
            ops.push(op.clone());
            let v = ops.clone();
            let u = univ.to_vec();
            let (rep, done) = replay(univ, move |k, disps, _| {
                let op = v.get(k)?;
                if let Op::Deliver(c) = op {
                    let i = u.iter().position(|(x, _)| x == c).unwrap();
                    if !deliverable(*c, disps[i]) {
                        return None;
                    }
                }
                Some(op.clone())
            });
            if done.len() != ops.len() {
                continue; // delivery outside the domain
            }
            emit(w, stream, univ, &rep, &done);
            if seen.len() < max_states && seen.insert(rep.key.clone()) {
                queue.push_back(ops);
            }
        }
    }
    w.count(&format!("bfs-states:{stream}:{states}"));
}

/// The alphabet restricted to operations aimed at `c` and the global ones.
fn alphabet_for(univ: &[(i32, Disposition)], c: i32, cmds: &[u32]) -> Vec<Op> {
    alphabet(univ, cmds, &[false, true])
        .into_iter()
        .filter(|op| match op {
            Op::SetAction(x, ..) | Op::Peek(x) | Op::Deliver(x) | Op::TakeSig(x) => *x == c,
            _ => true,
        })
        .collect()
}
