//! C04 — pattern matching: the real `yash_fnmatch` API and the shell's `case`
//! and `${v#p}` family against the Coq model and oracle.
//!
//! Stream 1 (`CPat`): a pattern string is turned into pattern characters by
//! `with_escape` / `without_escape`, parsed by `Ast::new`, converted by
//! `Ast::to_regex`, compiled by `Pattern::parse_with_config` under several
//! configurations and run (`is_match`, `find`, `rfind`) on a set of texts.
//! Everything observed is written next to the input.
//!
//! Stream 2 (`CCase`, `CTrim`): whole scripts on the virtual shell with mixed
//! quoting; the bodies that ran / the four trimmed values are observed.

use std::panic::{AssertUnwindSafe, catch_unwind};
use yash_fnmatch::ast::{Ast, Atom, Bracket, BracketAtom, BracketItem};
use yash_fnmatch::{Config, Error, Pattern, PatternChar, with_escape, without_escape};
use yv_harness::cli::Args;
use yv_harness::out::CasesWriter;
use yv_harness::rng::Rng;
use yv_harness::vsh::run_script;
use yv_harness::{coq, json_str};

// ---------------------------------------------------------------- Coq printers

fn pc_coq(pc: &PatternChar) -> String {
    match pc {
        PatternChar::Normal(c) => format!("(Normal {})", coq::n(*c as u64)),
        PatternChar::Literal(c) => format!("(Literal {})", coq::n(*c as u64)),
    }
}

fn batom_coq(a: &BracketAtom) -> String {
    match a {
        BracketAtom::Char(c) => format!("(BChar {})", coq::n(*c as u64)),
        BracketAtom::CollatingSymbol(s) => format!("(BColl {})", coq::s(s)),
        BracketAtom::EquivalenceClass(s) => format!("(BEquiv {})", coq::s(s)),
        BracketAtom::CharClass(s) => format!("(BClass {})", coq::s(s)),
    }
}

fn bitem_coq(i: &BracketItem) -> String {
    match i {
        BracketItem::Atom(a) => format!("(IAtom {})", batom_coq(a)),
        BracketItem::Range(r) => format!("(IRange {} {})", batom_coq(r.start()), batom_coq(r.end())),
    }
}

fn bracket_coq(b: &Bracket) -> String {
    let items: Vec<String> = b.items.iter().map(bitem_coq).collect();
    format!("(mkBracket {} {})", coq::b(b.complement), coq::list(&items))
}

fn ast_coq(a: &Ast) -> String {
    let atoms: Vec<String> = a
        .atoms
        .iter()
        .map(|a| match a {
            Atom::Char(c) => format!("(AChar {})", coq::n(*c as u64)),
            Atom::AnyChar => "AAnyChar".to_string(),
            Atom::AnyString => "AAnyString".to_string(),
            Atom::Bracket(b) => format!("(ABracket {})", bracket_coq(b)),
        })
        .collect();
    coq::list(&atoms)
}

fn err_code(e: &Error) -> u32 {
    match e {
        Error::EmptyBracket => 1,
        Error::EmptyCollatingSymbol => 2,
        Error::UndefinedCharClass(_) => 3,
        Error::CharClassInRange(_) => 4,
        Error::RegexError(_) => 5,
        _ => 8,
    }
}

fn err_coq(code: u32) -> &'static str {
    match code {
        1 => "EEmptyBracket",
        2 => "EEmptyColl",
        3 => "EUndefClass",
        4 => "EClassInRange",
        _ => "ERegex",
    }
}

// ---------------------------------------------------------------- the open finding F31

/// F31 (open known finding): a non-complemented bracket expression with a
/// collating symbol / equivalence class of two or more characters
/// (`[[.ch.]c]h`) becomes a regex alternation that is tried in order, so the
/// prefix forms `#` / `##` need not remove the shortest / longest prefix.
///
/// A case is tagged `F31` exactly when its pattern is in that class AND the
/// prefix answer the implementation gave is not the extremal matching prefix,
/// where "matching prefix" is decided with the implementation's own fully
/// anchored `is_match` (which the order of the alternation cannot influence).
/// Any other deviation on such a pattern stays untagged (a VIOLATION).
#[derive(Clone, Copy, Debug, Default)]
struct Known {
    /// the pattern is in the F31 class
    f31: bool,
}

fn classify(ast: &Ast) -> Known {
    let mut k = Known::default();
    for a in ast.atoms.iter() {
        if let Atom::Bracket(b) = a {
            for it in &b.items {
                let multi = match it {
                    BracketItem::Atom(BracketAtom::CollatingSymbol(v))
                    | BracketItem::Atom(BracketAtom::EquivalenceClass(v)) => v.chars().count() > 1,
                    _ => false,
                };
                if multi && !b.complement {
                    k.f31 = true;
                }
            }
        }
    }
    k
}

/// Lengths (in characters) of the prefixes of `text` the pattern matches as a
/// whole, by the fully anchored `is_match`.
fn matching_prefixes(pcs: &[PatternChar], text: &str) -> Option<Vec<usize>> {
    let mut c = Config::default();
    c.anchor_begin = true;
    c.anchor_end = true;
    let p = Pattern::parse_with_config(pcs.to_vec(), c).ok()?;
    let chars: Vec<char> = text.chars().collect();
    Some((0..=chars.len()).filter(|n| p.is_match(&chars[..*n].iter().collect::<String>())).collect())
}

/// Is `end` (None = no match) the shortest / longest matching prefix?
fn prefix_is_extremal(pcs: &[PatternChar], text: &str, shortest: bool, end: Option<usize>) -> bool {
    match matching_prefixes(pcs, text) {
        None => true,
        Some(l) => end == if shortest { l.first().copied() } else { l.last().copied() },
    }
}

// ---------------------------------------------------------------- stream 1

#[derive(Clone, Copy, Debug)]
struct Cfg {
    ab: bool,
    ae: bool,
    lp: bool,
    sm: bool,
}

impl Cfg {
    fn real(self) -> Config {
        let mut c = Config::default();
        c.anchor_begin = self.ab;
        c.anchor_end = self.ae;
        c.literal_period = self.lp;
        c.shortest_match = self.sm;
        c
    }
    fn coq(self) -> String {
        format!(
            "(mkConfig {} {} {} {})",
            coq::b(self.ab),
            coq::b(self.ae),
            coq::b(self.lp),
            coq::b(self.sm)
        )
    }
    fn show(self) -> String {
        format!(
            "{}{}{}{}",
            if self.ab { "A" } else { "-" },
            if self.ae { "Z" } else { "-" },
            if self.lp { "P" } else { "-" },
            if self.sm { "S" } else { "-" }
        )
    }
}

const fn cfg(ab: bool, ae: bool, lp: bool, sm: bool) -> Cfg {
    Cfg { ab, ae, lp, sm }
}

/// The configurations the shell uses (four trims, case) first.
const CONFIGS: [Cfg; 8] = [
    cfg(true, false, false, true),  // ${v#p}
    cfg(true, false, false, false), // ${v##p}
    cfg(false, true, false, true),  // ${v%p}
    cfg(false, true, false, false), // ${v%%p}
    cfg(true, true, false, false),  // case
    cfg(false, false, false, false),
    cfg(true, true, true, false), // pathname expansion
    cfg(false, false, true, true),
];

#[derive(Clone, Debug)]
enum Texts {
    Enum(Vec<char>, usize),
    List(Vec<String>),
}

fn strings_of_len(alpha: &[char], n: usize) -> Vec<String> {
    if n == 0 {
        return vec![String::new()];
    }
    let shorter = strings_of_len(alpha, n - 1);
    let mut out = vec![];
    for c in alpha {
        for s in &shorter {
            let mut t = String::new();
            t.push(*c);
            t.push_str(s);
            out.push(t);
        }
    }
    out
}

impl Texts {
    fn all(&self) -> Vec<String> {
        match self {
            Texts::Enum(alpha, maxlen) => (0..=*maxlen).flat_map(|n| strings_of_len(alpha, n)).collect(),
            Texts::List(l) => l.clone(),
        }
    }
    fn coq(&self) -> String {
        match self {
            Texts::Enum(alpha, maxlen) => {
                let a: Vec<String> = alpha.iter().map(|c| coq::n(*c as u64)).collect();
                format!("(TEnum {} {})", coq::list(&a), coq::nat(*maxlen))
            }
            Texts::List(l) => {
                let v: Vec<String> = l.iter().map(|s| coq::s(s)).collect();
                format!("(TList {})", coq::list(&v))
            }
        }
    }
    fn show(&self) -> String {
        match self {
            Texts::Enum(alpha, maxlen) => {
                format!("all strings over {:?} up to length {}", alpha.iter().collect::<String>(), maxlen)
            }
            Texts::List(l) => format!("{:?}", l),
        }
    }
}

fn char_range(text: &str, r: std::ops::Range<usize>) -> (usize, usize) {
    (text[..r.start].chars().count(), text[..r.end].chars().count())
}

struct PatStats {
    any_match: bool,
    any_nonmatch: bool,
    errs: u32,
    oks: u32,
}

/// Runs one pattern through the real API and writes the case(s).  For a
/// pattern in the F31 class the configurations with only the start anchored
/// go into a case of their own, tagged iff a prefix answer is not extremal.
fn emit_pat(w: &mut CasesWriter, _args: &Args, src: &str, esc: bool, texts: &Texts, configs: &[Cfg], stream: &str) {
    let pcs: Vec<PatternChar> = if esc { with_escape(src).collect() } else { without_escape(src).collect() };
    let k = classify(&Ast::new(pcs.clone()));
    if k.f31 {
        let (prefix, rest): (Vec<Cfg>, Vec<Cfg>) = configs.iter().partition(|c| c.ab && !c.ae);
        emit_pat_tagged(w, src, esc, texts, &rest, &[], stream);
        let mut deviates = false;
        for c in &prefix {
            if let Ok(p) = Pattern::parse_with_config(pcs.clone(), c.real()) {
                for t in texts.all() {
                    for r in [p.find(&t), p.rfind(&t)] {
                        let end = r.map(|r| char_range(&t, r).1);
                        deviates |= !prefix_is_extremal(&pcs, &t, c.sm, end);
                    }
                }
            }
        }
        w.count(if deviates { "F31:prefix-answer-not-extremal" } else { "F31:class-but-extremal" });
        emit_pat_tagged(w, src, esc, texts, &prefix, if deviates { &["F31"] } else { &[] }, stream);
        return;
    }
    emit_pat_tagged(w, src, esc, texts, configs, &[], stream);
}

fn emit_pat_tagged(w: &mut CasesWriter, src: &str, esc: bool, texts: &Texts, configs: &[Cfg], tags: &[&str], stream: &str) {
    let pcs: Vec<PatternChar> = if esc { with_escape(src).collect() } else { without_escape(src).collect() };
    let ast = Ast::new(pcs.clone());
    let rx = ast.to_regex(&Config::default());
    let all = texts.all();
    let mut runs = vec![];
    let mut shown = vec![];
    let mut st = PatStats { any_match: false, any_nonmatch: false, errs: 0, oks: 0 };
    type R = Option<(usize, usize)>;
    for c in configs {
        let pcs2 = pcs.clone();
        let cfg_real = c.real();
        let all2 = &all;
        let r = catch_unwind(AssertUnwindSafe(move || match Pattern::parse_with_config(pcs2, cfg_real) {
            Err(e) => Err(err_code(&e)),
            Ok(p) => {
                let mut res: Vec<(bool, R, R)> = vec![];
                for t in all2 {
                    let conv = |r: Option<std::ops::Range<usize>>| r.map(|r| char_range(t, r));
                    res.push((p.is_match(t), conv(p.find(t)), conv(p.rfind(t))));
                }
                Ok(res)
            }
        }));
        let (code, res) = match r {
            Ok(Ok(res)) => (0, res),
            Ok(Err(code)) => (code, vec![]),
            Err(_) => (9, vec![]),
        };
        if code == 0 {
            st.oks += 1;
            st.any_match |= res.iter().any(|x| x.0);
            st.any_nonmatch |= res.iter().any(|x| !x.0);
        } else {
            st.errs += 1;
        }
        let mut f = vec![];
        let mut rf = vec![];
        let mut m = vec![];
        for (i, (im, fr, rr)) in res.iter().enumerate() {
            if let Some((a, b)) = fr {
                f.push(format!("({}, {}, {})", i, a, b));
            }
            if rr != fr {
                rf.push(format!("({}, {})", i, match rr {
                    Some((a, b)) => format!("Some ({}, {})", a, b),
                    None => "None".to_string(),
                }));
            }
            if *im != fr.is_some() {
                m.push(format!("{}", i));
            }
        }
        let nl = |v: &Vec<String>| if v.is_empty() { "nil".to_string() } else { format!("[{}]%N", v.join("; ")) };
        runs.push(format!("(mkRun {} {} {} {} {})", c.coq(), coq::n(code as u64), nl(&f), nl(&rf), nl(&m)));
        let nm = res.iter().filter(|x| x.0).count();
        shown.push(format!(
            "{}:{}",
            c.show(),
            if code == 0 { format!("{}/{} match", nm, all.len()) } else { format!("err{}", code) }
        ));
    }
    let pcl: Vec<String> = pcs.iter().map(pc_coq).collect();
    let rx_term = match &rx {
        Ok(s) => format!("(EOk {})", coq::s(s)),
        Err(e) => format!("(EErr {})", err_coq(err_code(e))),
    };
    let term = format!(
        "(CPat {} {} {} {} {} {} {})",
        coq::s(src),
        coq::b(esc),
        coq::list(&pcl),
        ast_coq(&ast),
        rx_term,
        texts.coq(),
        coq::list(&runs)
    );
    let json = format!(
        "{{\"stream\":{},\"pattern\":{},\"escapes\":{},\"regex\":{},\"texts\":{},\"results\":{}}}",
        json_str(stream),
        json_str(src),
        esc,
        json_str(&match &rx {
            Ok(s) => s.clone(),
            Err(e) => format!("error: {e}"),
        }),
        json_str(&texts.show()),
        json_str(&shown.join(" "))
    );
    // histogram
    w.count(&format!("stream:{stream}"));
    let has_bracket = ast.atoms.iter().any(|a| matches!(a, Atom::Bracket(_)));
    let has_star = ast.atoms.iter().any(|a| matches!(a, Atom::AnyString));
    w.count(if ast.is_literal() {
        "shape:literal"
    } else if has_bracket && has_star {
        "shape:bracket+star"
    } else if has_bracket {
        "shape:bracket"
    } else if has_star {
        "shape:star"
    } else {
        "shape:anychar"
    });
    if st.errs > 0 {
        w.count("outcome:pattern-error");
    }
    // non-trivial: not literal, compiled, and both matched and rejected some text
    let key = if !ast.is_literal() && st.oks > 0 && st.any_match && st.any_nonmatch {
        Some(format!("{}|{}", src, esc))
    } else {
        None
    };
    w.push(&term, &json, tags, key);
}

/// Alphabet for enumerated texts: the characters of the pattern first (at
/// most `max` of them), then fillers that do not occur in it.
fn text_alphabet(src: &str, max: usize, fillers: &[char]) -> Vec<char> {
    let mut alpha: Vec<char> = vec![];
    // non-meta characters first: they are the ones the pattern can match literally
    for pass in 0..2 {
        for c in src.chars() {
            let meta = "*?[]!^\\:=".contains(c);
            if (pass == 0) == meta {
                continue;
            }
            if !alpha.contains(&c) && alpha.len() < max {
                alpha.push(c);
            }
        }
    }
    for f in fillers {
        if !alpha.contains(f) {
            alpha.push(*f);
            break;
        }
    }
    alpha
}

const CLASS_NAMES: [&str; 16] = [
    "alnum", "alpha", "ascii", "blank", "cntrl", "digit", "graph", "lower", "print", "punct", "space", "upper",
    "word", "xdigit", "foo", "",
];

/// Characters used by the random generators: letters, pattern syntax, every
/// character special in the regex syntax, blanks, non-ASCII.
const LITS: [char; 40] = [
    'a', 'b', 'c', 'x', 'A', 'Z', '0', '9', '_', '.', '-', '+', '(', ')', '|', '{', '}', '^', '$', '&', '~', '#',
    '\\', '/', ' ', '\t', '\n', ':', '=', '!', ',', '@', '%', '<', '>', '"', '\'', 'é', 'あ', '😀',
];

fn random_bracket(r: &mut Rng) -> String {
    let mut s = String::from("[");
    if r.chance(1, 4) {
        s.push(if r.chance(1, 2) { '!' } else { '^' });
    }
    if r.chance(1, 8) {
        s.push(']');
    }
    let n = 1 + r.below(4);
    for _ in 0..n {
        match r.below(12) {
            0..=4 => s.push(*r.pick(&LITS)),
            5..=6 => {
                // range
                let a = *r.pick(&['a', 'b', 'A', '0', '-', '.', '+', ' ', 'x', '!', 'é']);
                let b = *r.pick(&['c', 'z', 'Z', '9', '-', '~', 'a', 'あ', ']']);
                s.push(a);
                s.push('-');
                s.push(b);
            }
            7..=8 => {
                s.push_str("[:");
                s.push_str(r.pick(&CLASS_NAMES));
                s.push_str(":]");
            }
            9 => {
                s.push_str("[.");
                s.push(*r.pick(&LITS));
                if r.chance(1, 5) {
                    // a multi-character collating symbol (F31 class unless complemented)
                    s.push(*r.pick(&['a', 'b', 'h', '.', 'é']));
                }
                s.push_str(".]");
            }
            10 => {
                s.push_str("[=");
                s.push(*r.pick(&LITS));
                s.push_str("=]");
            }
            _ => s.push(*r.pick(&['-', ']', '[', '!', '^', '\\', '.', ':', '='])),
        }
    }
    if !r.chance(1, 12) {
        s.push(']');
    }
    s
}

fn random_pattern(r: &mut Rng) -> String {
    let mut s = String::new();
    let n = 1 + r.below(6);
    for _ in 0..n {
        match r.below(14) {
            0..=3 => s.push(*r.pick(&LITS)),
            4..=5 => s.push('*'),
            6 => s.push('?'),
            7..=9 => s.push_str(&random_bracket(r)),
            10 => {
                s.push('\\');
                s.push(*r.pick(&['*', '?', '[', ']', '-', '\\', '!', 'a', '.']));
            }
            _ => s.push(*r.pick(&['a', 'b', '.', '-'])),
        }
    }
    s
}

/// Random texts biased towards what the pattern mentions.
fn random_texts(r: &mut Rng, src: &str, n: usize) -> Vec<String> {
    let mut pool: Vec<char> = src.chars().filter(|c| !"*?[]\\".contains(*c)).collect();
    pool.extend(['a', 'b', 'c', '.', '-', ']', '[', '*', '\\', 'é', 'z', '\n']);
    let mut out = vec![String::new()];
    for _ in 0..n {
        let len = r.below(7);
        let mut t = String::new();
        for _ in 0..len {
            if r.chance(1, 10) {
                t.push(*r.pick(&LITS));
            } else {
                t.push(*r.pick(&pool));
            }
        }
        out.push(t);
    }
    out
}

// ---------------------------------------------------------------- stream 3: the regex crate itself

/// A raw regex string through the real `regex` crate with the settings of
/// yash-fnmatch's lib.rs (`dot_matches_new_line(true)`, `swap_greed`), versus
/// the model's `parse_rx` + `bt`: validates the assumed external semantics
/// directly.
fn emit_rx(w: &mut CasesWriter, src: &str, lazy: bool, texts: &Texts, stream: &str) {
    let built = regex::RegexBuilder::new(src).dot_matches_new_line(true).swap_greed(lazy).build();
    let all = texts.all();
    let mut f0 = vec![];
    let mut f1 = vec![];
    if let Ok(re) = &built {
        for (i, t) in all.iter().enumerate() {
            if let Some(m) = re.find_at(t, 0) {
                let (a, b) = char_range(t, m.range());
                f0.push(format!("({}, {}, {})", i, a, b));
            }
            if let Some(c) = t.chars().next() {
                if let Some(m) = re.find_at(t, c.len_utf8()) {
                    let (a, b) = char_range(t, m.range());
                    f1.push(format!("({}, {}, {})", i, a, b));
                }
            }
        }
    }
    let nl = |v: &Vec<String>| if v.is_empty() { "nil".to_string() } else { format!("[{}]%N", v.join("; ")) };
    let term = format!(
        "(CRx {} {} {} {} {} {})",
        coq::s(src),
        coq::b(lazy),
        coq::b(built.is_ok()),
        texts.coq(),
        nl(&f0),
        nl(&f1)
    );
    let json = format!(
        "{{\"stream\":{},\"regex\":{},\"swap_greed\":{},\"compiled\":{},\"texts\":{},\"matches\":\"{}/{}\"}}",
        json_str(stream),
        json_str(src),
        lazy,
        built.is_ok(),
        json_str(&texts.show()),
        f0.len(),
        all.len()
    );
    w.count(&format!("stream:{stream}"));
    w.count(if built.is_ok() { "regex:compiled" } else { "regex:rejected" });
    let key = if built.is_ok() && !f0.is_empty() && f0.len() < all.len() { Some(format!("rx|{src}|{lazy}")) } else { None };
    w.push(&term, &json, &[], key);
}

/// One member of a regex class, inside the modelled subset (never two of
/// `- & ~` in a row, which would be a set operator).
fn random_class(r: &mut Rng, depth: usize) -> String {
    let plain = ['a', 'b', 'c', 'x', '0', '9', 'Z', '.', '*', '+', '?', '(', ')', '|', '{', '}', '$', ':', '=', '!', '#', ' ', 'é', 'あ'];
    let escd = ['\\', ']', '[', '^', '-', '&', '~', '.', '*'];
    let mut s = String::from("[");
    if r.chance(1, 3) {
        s.push('^');
    }
    match r.below(8) {
        0 => s.push(']'),
        1 => s.push('-'),
        _ => {}
    }
    let n = r.below(4) + if s.ends_with('[') || s.ends_with('^') { 1 } else { 0 };
    let prim = |r: &mut Rng| -> String {
        if r.chance(1, 4) { format!("\\{}", r.pick(&escd)) } else { r.pick(&plain).to_string() }
    };
    for _ in 0..n {
        match r.below(12) {
            0..=4 => s.push_str(&prim(r)),
            5..=6 => {
                let a = *r.pick(&['a', '0', 'A', ' ', 'x', 'é', 'z']);
                let b = *r.pick(&['c', '9', 'Z', '~', 'z', 'あ', 'a']);
                s.push_str(&format!("{a}-{b}"));
            }
            7 => s.push_str(&format!("[:{}:]", r.pick(&CLASS_NAMES))),
            8 => s.push_str(&format!("[:^{}:]", r.pick(&["alpha", "digit", "space", "punct", "zzz"]))),
            9 if depth < 2 => s.push_str(&random_class(r, depth + 1)),
            10 => s.push(*r.pick(&['&', '~', '^'])),
            _ => s.push_str(&prim(r)),
        }
        // keep a following single - & ~ from pairing with this one
        if s.ends_with('&') || s.ends_with('~') || (s.ends_with('-') && !s.ends_with("\\-")) {
            s.push('a');
        }
    }
    if r.chance(1, 10) {
        s.push('-');
    }
    if !r.chance(1, 15) {
        s.push(']');
    } else if s.ends_with(']') {
        // left unclosed: do not look closed to the caller
        s.push('a');
    }
    s
}

/// A regex string of the syntax subset the translation can emit (plus
/// malformed variants the crate must reject).
fn random_regex(r: &mut Rng) -> String {
    let plain = ['a', 'b', 'c', 'x', '0', '-', '&', '~', '#', ':', '=', '!', ' ', ',', 'é', 'あ', '\n'];
    let escd = ['\\', '.', '+', '*', '?', '(', ')', '|', '[', ']', '{', '}', '^', '$', '-', '&', '~', '#', '!', ':'];
    let mut s = String::new();
    if r.chance(1, 3) {
        s.push_str("\\A");
    }
    let n = r.below(6);
    for _ in 0..n {
        let mut starable = true;
        match r.below(14) {
            0..=3 => s.push(*r.pick(&plain)),
            4..=5 => s.push_str(&format!("\\{}", r.pick(&escd))),
            6..=7 => s.push('.'),
            8..=10 => {
                s.push_str(&random_class(r, 0));
                if !s.ends_with(']') {
                    // an unclosed class swallows whatever follows: stop here
                    return s;
                }
            }
            11 => {
                starable = false;
                s.push_str("(?:");
                let k = 1 + r.below(3);
                for j in 0..k {
                    if j > 0 {
                        s.push('|');
                    }
                    for _ in 0..r.below(3) {
                        match r.below(5) {
                            0 => s.push_str(&format!("\\{}", r.pick(&escd))),
                            1 => {
                                s.push_str(&random_class(r, 1));
                                if !s.ends_with(']') {
                                    return s;
                                }
                            }
                            2 => s.push('.'),
                            _ => s.push(*r.pick(&plain)),
                        }
                    }
                }
                if !r.chance(1, 12) {
                    s.push(')');
                } else {
                    // an unclosed group swallows whatever follows: stop here
                    return s;
                }
            }
            12 => {
                starable = false;
                s.push_str(if r.chance(1, 2) { "\\z" } else { "\\A" });
            }
            _ => s.push_str(".*"),
        }
        if starable && !s.ends_with('*') && r.chance(1, 3) {
            s.push('*');
        }
    }
    if r.chance(1, 3) {
        s.push_str("\\z");
    }
    if r.chance(1, 40) {
        s.insert(0, '*');
    }
    s
}

/// Alphabet for the texts of a regex: what it mentions, plus a filler.
fn regex_alphabet(src: &str) -> Vec<char> {
    let mut alpha: Vec<char> = vec![];
    for c in src.chars() {
        if !"\\[]()?:|*^.Az".contains(c) && !alpha.contains(&c) && alpha.len() < 3 {
            alpha.push(c);
        }
    }
    for f in ['a', 'b', 'z', '.'] {
        if !alpha.contains(&f) && alpha.len() < 4 {
            alpha.push(f);
        }
    }
    alpha
}

// ---------------------------------------------------------------- stream 2

#[derive(Clone, Copy, Debug, PartialEq)]
enum Q {
    None,
    Backslash,
    Single,
    Double,
}

#[derive(Clone, Debug)]
enum Part {
    /// one character written with a quoting style
    Seg(char, Q),
    /// `$pN` (unquoted) or `"$pN"`, the variable holding the raw string
    Var(String, bool),
}

const UNQUOTED_OK: &str = "abcxyzABZ019*?[]!^-.:=,+@_/";

fn q_allowed(c: char, q: Q) -> bool {
    match q {
        Q::None => UNQUOTED_OK.contains(c) || !c.is_ascii(),
        Q::Backslash => c != '\n',
        Q::Single => c != '\'',
        Q::Double => !"\"$`\\".contains(c),
    }
}

/// (shell text, achar list as a Coq term) of a pattern word; variables are
/// numbered from `*nvar` and their assignments appended to `setup`.
fn render_word(parts: &[Part], setup: &mut String, nvar: &mut usize) -> (String, Vec<String>) {
    let mut text = String::new();
    let mut ac = vec![];
    let a = |c: char, quoted: bool, quoting: bool| {
        format!("(mkAchar {} {} {})", coq::n(c as u64), coq::b(quoted), coq::b(quoting))
    };
    for p in parts {
        match p {
            Part::Seg(c, q) => match q {
                Q::None => {
                    text.push(*c);
                    ac.push(a(*c, false, false));
                }
                Q::Backslash => {
                    text.push('\\');
                    text.push(*c);
                    ac.push(a('\\', false, true));
                    ac.push(a(*c, true, false));
                }
                Q::Single => {
                    text.push('\'');
                    text.push(*c);
                    text.push('\'');
                    ac.push(a('\'', false, true));
                    ac.push(a(*c, true, false));
                    ac.push(a('\'', false, true));
                }
                Q::Double => {
                    text.push('"');
                    text.push(*c);
                    text.push('"');
                    ac.push(a('"', false, true));
                    ac.push(a(*c, true, false));
                    ac.push(a('"', false, true));
                }
            },
            Part::Var(raw, quoted) => {
                let name = format!("p{}", *nvar);
                *nvar += 1;
                setup.push_str(&format!("{}={}; ", name, sq(raw)));
                if *quoted {
                    text.push_str(&format!("\"${}\"", name));
                    ac.push(a('"', false, true));
                    for c in raw.chars() {
                        ac.push(a(c, true, false));
                    }
                    ac.push(a('"', false, true));
                } else {
                    text.push_str(&format!("${{{}}}", name));
                    for c in raw.chars() {
                        ac.push(a(c, false, false));
                    }
                }
            }
        }
    }
    (text, ac)
}

/// single-quoted shell word
fn sq(s: &str) -> String {
    format!("'{}'", s.replace('\'', "'\\''"))
}

fn random_parts(r: &mut Rng) -> Vec<Part> {
    let mut parts = vec![];
    let n = 1 + r.below(5);
    for _ in 0..n {
        match r.below(20) {
            0..=1 => {
                // a raw string through a variable
                let raw = random_pattern(r);
                parts.push(Part::Var(raw, r.chance(1, 3)));
            }
            2..=6 => {
                // a bracket expression, each character with its own quoting
                let b = random_bracket(r);
                for c in b.chars() {
                    let q = if r.chance(3, 4) && q_allowed(c, Q::None) {
                        Q::None
                    } else {
                        *r.pick(&[Q::Backslash, Q::Single, Q::Double])
                    };
                    let q = if q_allowed(c, q) { q } else if c == '\n' { Q::Single } else { Q::Backslash };
                    parts.push(Part::Seg(c, q));
                }
            }
            7..=9 => parts.push(Part::Seg('*', if r.chance(1, 4) { Q::Backslash } else { Q::None })),
            10 => parts.push(Part::Seg('?', if r.chance(1, 4) { Q::Single } else { Q::None })),
            _ => {
                let c = *r.pick(&LITS);
                let q = *r.pick(&[Q::None, Q::None, Q::Backslash, Q::Single, Q::Double]);
                let q = if q_allowed(c, q) { q } else if c == '\n' || c == '\\' { Q::Single } else { Q::Backslash };
                let q = if q_allowed(c, q) { q } else { Q::Double };
                parts.push(Part::Seg(c, q));
            }
        }
    }
    parts
}

/// What the pattern word means to the matcher (for classification only).
fn parts_chars(parts: &[Part]) -> Vec<PatternChar> {
    let mut pcs = vec![];
    for p in parts {
        match p {
            Part::Seg(c, Q::None) => pcs.push(PatternChar::Normal(*c)),
            Part::Seg(c, _) => pcs.push(PatternChar::Literal(*c)),
            Part::Var(raw, false) => pcs.extend(with_escape(raw)),
            Part::Var(raw, true) => pcs.extend(raw.chars().map(PatternChar::Literal)),
        }
    }
    pcs
}

fn parts_show(parts: &[Part]) -> String {
    let mut setup = String::new();
    let mut n = 0;
    render_word(parts, &mut setup, &mut n).0
}

/// A string the pattern word probably matches (wildcards and bracket
/// expressions are filled in roughly), so that trims remove something and
/// case items run.
fn instantiate(r: &mut Rng, parts: &[Part]) -> String {
    let mut flat: Vec<(char, bool)> = vec![];
    for p in parts {
        match p {
            Part::Seg(c, q) => flat.push((*c, *q != Q::None)),
            Part::Var(raw, true) => flat.extend(raw.chars().map(|c| (c, true))),
            Part::Var(raw, false) => {
                let mut it = raw.chars();
                while let Some(c) = it.next() {
                    if c == '\\' {
                        if let Some(d) = it.next() {
                            flat.push((d, true));
                        }
                    } else {
                        flat.push((c, false));
                    }
                }
            }
        }
    }
    let fill = ['a', 'b', 'x', '.', '-', 'z', '0'];
    let mut out = String::new();
    let mut i = 0;
    while i < flat.len() {
        let (c, quoted) = flat[i];
        if quoted {
            out.push(c);
        } else if c == '*' {
            for _ in 0..r.below(3) {
                out.push(*r.pick(&fill));
            }
        } else if c == '?' {
            out.push(*r.pick(&fill));
        } else if c == '[' {
            // look for the closing bracket; pick one of the characters in between
            let mut j = i + 1;
            let complement = j < flat.len() && !flat[j].1 && (flat[j].0 == '!' || flat[j].0 == '^');
            if complement {
                j += 1;
            }
            let start = j;
            let mut close = None;
            while j < flat.len() {
                if flat[j] == (']', false) && j > start {
                    close = Some(j);
                    break;
                }
                j += 1;
            }
            match close {
                Some(k) => {
                    let inside: Vec<char> = flat[start..k].iter().map(|x| x.0).filter(|c| c.is_alphanumeric()).collect();
                    if complement || inside.is_empty() {
                        out.push(*r.pick(&fill));
                    } else {
                        out.push(*r.pick(&inside));
                    }
                    i = k;
                }
                None => out.push('['),
            }
        } else {
            out.push(c);
        }
        i += 1;
    }
    out
}

fn subject_for(r: &mut Rng, parts: &[Part]) -> String {
    let mut pool: Vec<char> = vec!['a', 'b', '.', '-', 'x'];
    for p in parts {
        match p {
            Part::Seg(c, _) => pool.push(*c),
            Part::Var(raw, _) => pool.extend(raw.chars()),
        }
    }
    let len = r.below(5);
    (0..len).map(|_| *r.pick(&pool)).collect()
}

fn emit_case(w: &mut CasesWriter, args: &Args, subject: &str, items: &[(Vec<Vec<Part>>, u8)]) {
    let words: Vec<&[Part]> = items.iter().flat_map(|(pats, _)| pats.iter().map(|p| p.as_slice())).collect();
    let _ = (args, &words);
    let tags: &[&str] = &[];
    let mut setup = String::new();
    let mut nvar = 0;
    let mut body = String::new();
    let mut items_coq = vec![];
    for (k, (pats, cont)) in items.iter().enumerate() {
        let mut texts = vec![];
        let mut pats_coq = vec![];
        for p in pats {
            let (t, ac) = render_word(p, &mut setup, &mut nvar);
            texts.push(t);
            pats_coq.push(coq::list(&ac));
        }
        let (sep, cname) = match cont {
            0 => (";;", "CBreak"),
            1 => (";&", "CFallThrough"),
            _ => (";;&", "CContinue"),
        };
        body.push_str(&format!("({}) probe {} {}\n", texts.join("|"), k, sep));
        items_coq.push(format!("({}, {})", coq::list(&pats_coq), cname));
    }
    let script = format!("{}v={}; case \"$v\" in\n{}esac", setup, sq(subject), body);
    let o = run_script(&script);
    let executed: Vec<String> = o
        .trace
        .iter()
        .filter(|t| t.kind == "probe")
        .map(|t| coq::nat(t.args.first().and_then(|s| s.parse().ok()).unwrap_or(999)))
        .collect();
    let bad = o.panicked.is_some() || o.deadlock || o.timeout || !o.stderr.is_empty();
    let executed = if bad { vec![coq::nat(999)] } else { executed };
    let term = format!("(CCase {} {} {})", coq::s(subject), coq::list(&items_coq), coq::list(&executed));
    let json = format!(
        "{{\"stream\":\"case\",\"script\":{},\"executed\":{},\"stderr\":{}}}",
        json_str(&script),
        json_str(&format!("{:?}", o.trace.iter().map(|t| t.args.first().cloned().unwrap_or_default()).collect::<Vec<_>>())),
        json_str(&o.stderr)
    );
    w.count("stream:case");
    w.count(if o.trace.is_empty() { "case:no-item-ran" } else { "case:item-ran" });
    let key = if !o.trace.is_empty() { Some(script.clone()) } else { None };
    w.push(&term, &json, tags, key);
}

fn emit_trim(w: &mut CasesWriter, args: &Args, value: &str, parts: &[Part]) {
    let _ = args;
    let mut setup = String::new();
    let mut nvar = 0;
    let (pt, ac) = render_word(parts, &mut setup, &mut nvar);
    let script = format!(
        "{}v={}; r1=${{v#{p}}}; r2=${{v##{p}}}; r3=${{v%{p}}}; r4=${{v%%{p}}}; args \"$r1\" \"$r2\" \"$r3\" \"$r4\"",
        setup,
        sq(value),
        p = pt
    );
    let o = run_script(&script);
    let outs: Vec<String> = match o.trace.iter().find(|t| t.kind == "args") {
        Some(t) if t.args.len() == 4 && o.panicked.is_none() && o.stderr.is_empty() => {
            t.args.iter().map(|s| coq::s(s)).collect()
        }
        _ => vec![],
    };
    let term = format!("(CTrim {} {} {})", coq::s(value), coq::list(&ac), coq::list(&outs));
    let got: Vec<String> =
        o.trace.iter().find(|t| t.kind == "args").map(|t| t.args.clone()).unwrap_or_default();
    let json = format!(
        "{{\"stream\":\"trim\",\"script\":{},\"results\":{},\"stderr\":{}}}",
        json_str(&script),
        json_str(&format!("{:?}", got)),
        json_str(&o.stderr)
    );
    w.count("stream:trim");
    let changed = got.iter().filter(|g| g.as_str() != value).count();
    w.count(&format!("trim:forms-that-removed-something:{changed}"));
    let key = if changed > 0 { Some(script.clone()) } else { None };
    // F31: in the class, and # or ## did not remove the extremal matching prefix
    let pcs = parts_chars(parts);
    let mut tags: Vec<&str> = vec![];
    if classify(&Ast::new(pcs.clone())).f31 && got.len() == 4 {
        let total = value.chars().count();
        let removed = |out: &str| -> Option<usize> {
            // the prefix forms return a suffix of the value
            let n = out.chars().count();
            if n <= total && value.chars().skip(total - n).collect::<String>() == out { Some(total - n) } else { None }
        };
        let mut deviates = false;
        for (k, shortest) in [(0usize, true), (1usize, false)] {
            if let Some(l) = matching_prefixes(&pcs, value) {
                let want = if shortest { l.first().copied() } else { l.last().copied() }.unwrap_or(0);
                deviates |= removed(&got[k]) != Some(want);
            }
        }
        w.count(if deviates { "F31:prefix-answer-not-extremal" } else { "F31:class-but-extremal" });
        if deviates {
            tags.push("F31");
        }
    }
    w.push(&term, &json, &tags, key);
}

fn seg_str(s: &str) -> Vec<Part> {
    s.chars().map(|c| Part::Seg(c, Q::None)).collect()
}

// ---------------------------------------------------------------- main

fn main() {
    let args = Args::parse();
    let mut rng = Rng::new(args.seed);
    let mut w = CasesWriter::new(&args, "Yv.C04.Run", if args.thorough() { 120 } else { 40 });
    let std_fill = ['a', 'b', 'c', 'd', 'e', 'f'];

    // ---- corpus: patterns that mattered (F2, F3, quirks of the bracket grammar)
    let corpus: [(&str, bool); 73] = [
        ("[![.ch.]]", false),
        ("[![.ch.]][a]", false),
        ("a[^[=ab=][.cd.]]*", false),
        ("[![.é.]a]", false),
        ("[![.é.]]", false),
        ("[![=あ=]]x", false),
        ("[^[.é.][=ß=]-]*", false),
        ("[![.ch.]a]", false),
        ("[[.a.][.ab.]]", false),
        ("[[=ab=]a]b*", false),
        ("*[[.é.]x]", false),
        ("[[.a\\.]b]", true),
        ("[[.a.\\]]", true),
        ("[[:alpha\\:]]x]", true),
        ("[[:alpha:\\]]", true),
        ("[[=a\\=]]", true),
        ("[\\[.a.]]", true),
        ("[[\\.a.]]", true),
        ("[[.].]a]", false),
        ("[[...]]", false),
        ("[[.ab.]-c]", false),
        ("[a-[.cd.]]", false),
        ("[[=ab=]-[.cd.]]", false),
        ("[a-c-e]", false),
        ("[!a-c]", false),
        ("[^!a]", false),
        ("*[!*]*", false),
        ("", false),
        ("a", false),
        ("*", false),
        ("a*b", false),
        ("*a*", false),
        ("?", false),
        ("[a-c]*x", false),
        ("[[.a*.]]", false),
        ("[[.^.]]", false),
        ("[[=-=]]", false),
        ("[[.&.]&]", false),
        ("[a\\-z]", true),
        ("[a-z]", true),
        ("[\\--z]", true),
        ("[a-\\-]", true),
        ("[!\\!]", true),
        ("[\\!a]", true),
        ("[a\\]b]", true),
        ("\\[a]", true),
        ("[]a[]", false),
        ("[]-a]", false),
        ("[--a]", false),
        ("[a--]", false),
        ("[---]", false),
        ("[a-b-c]", false),
        ("[!-a]", false),
        ("[^^]", false),
        ("[!!]", false),
        ("[a", false),
        ("[", false),
        ("[]", false),
        ("[!]", false),
        ("[[:alpha:]]", false),
        ("[[:alpha:]-z]", false),
        ("[a-[:alpha:]]", false),
        ("[[:foo:]]", false),
        ("[[..]]", false),
        ("[[.a.]-[.c.]]", false),
        ("[[.ch.]c]h", false),
        ("[z-a]", false),
        ("[.]a", false),
        (".*", false),
        ("a\\", true),
        ("[&&a]", false),
        ("[a~~b]", false),
        ("[[:alpha:][:digit:]_]*", false),
    ];
    for (src, esc) in corpus.iter() {
        let alpha = text_alphabet(src, 4, &std_fill);
        emit_pat(&mut w, &args, src, *esc, &Texts::Enum(alpha, 3), &CONFIGS, "corpus");
    }

    // ---- exhaustive small patterns (thorough), a random sample of them (quick)
    let syms: Vec<char> = "ab.-*?[]!^\\:=".chars().collect();
    if args.thorough() {
        let maxlen = args.opt("exhaustive_len").and_then(|s| s.parse().ok()).unwrap_or(4);
        for n in 1..=maxlen {
            for src in strings_of_len(&syms, n) {
                let alpha = text_alphabet(&src, 4, &std_fill);
                emit_pat(&mut w, &args, &src, true, &Texts::Enum(alpha, 3), &CONFIGS[..5], "exhaustive");
            }
        }
        // one symbol longer on the part of the alphabet the bracket grammar is about
        let syms7: Vec<char> = "a-[]!\\*".chars().collect();
        for src in strings_of_len(&syms7, maxlen + 1) {
            let alpha = text_alphabet(&src, 3, &std_fill);
            emit_pat(&mut w, &args, &src, true, &Texts::Enum(alpha, 3), &CONFIGS[..5], "exhaustive-7");
        }
        // every bracket body up to four symbols, closed
        let bsyms: Vec<char> = "a-][!^.:=\\".chars().collect();
        for n in 1..=maxlen {
            for body in strings_of_len(&bsyms, n) {
                let src = format!("[{body}]");
                let alpha = text_alphabet(&src, 4, &std_fill);
                emit_pat(&mut w, &args, &src, true, &Texts::Enum(alpha, 2), &CONFIGS[..5], "exhaustive-brackets");
            }
        }
    } else {
        for k in 0..400 {
            let mut r = rng.fork(1000 + k);
            let n = 1 + r.below(6);
            let src: String = (0..n).map(|_| *r.pick(&syms)).collect();
            let alpha = text_alphabet(&src, 3, &std_fill);
            emit_pat(&mut w, &args, &src, true, &Texts::Enum(alpha, 3), &CONFIGS, "small-alphabet");
        }
    }

    // ---- random structured patterns with regex-special and non-ASCII characters
    let nrand = args.scale(600, 8000);
    for k in 0..nrand {
        let mut r = rng.fork(50_000 + k as u64);
        let src = random_pattern(&mut r);
        let esc = r.chance(1, 2);
        let texts = if r.chance(1, 2) {
            let alpha = text_alphabet(&src, 3, &['a', 'b', 'é', 'z']);
            Texts::Enum(alpha, 3)
        } else {
            Texts::List(random_texts(&mut r, &src, 30))
        };
        emit_pat(&mut w, &args, &src, esc, &texts, &CONFIGS, "random");
    }

    // ---- every character as a literal, inside and outside a bracket: is the
    // translation to regex syntax right for each of them?
    let all_chars: Vec<char> = (1u8..128).map(|b| b as char).chain(['é', 'ß', 'あ', '😀', '\u{a0}', '\u{2028}']).collect();
    let step = if args.thorough() { 1 } else { 4 };
    for (k, c) in all_chars.iter().enumerate() {
        // every ASCII punctuation character in every run; a quarter of the rest in quick runs
        if !c.is_ascii_punctuation() && k % step != (args.seed as usize) % step {
            continue;
        }
        let other = if *c == 'a' { 'b' } else { 'a' };
        for form in 0..8 {
            let (src, esc) = match form {
                0 => (format!("{c}?"), false),
                1 => (format!("[{c}]"), false),
                2 => (format!("[!{c}]{c}"), false),
                3 => (format!("[{other}{c}-{c}]*"), false),
                4 => (format!("\\{c}[[.{c}.][={other}=]]"), true),
                5 => (format!("[{other}{c}{c}]"), false),
                6 => (format!("*{c}{c}"), false),
                _ => (format!("[{c}-{c}]{c}{other}"), false),
            };
            emit_pat(&mut w, &args, &src, esc, &Texts::Enum(vec![*c, other, '\\'], 2), &CONFIGS[..5], "every-char");
        }
    }

    // ---- the leading-period rule (used by pathname expansion)
    let period_configs = [cfg(true, true, true, false), cfg(false, false, true, true), cfg(true, false, true, false), cfg(false, true, true, true)];
    for (src, esc) in [(".a", false), ("?a", false), ("*a", false), ("[.]a", false), ("\\.a", true), ("*", false), (".*", false), ("?", false), ("[!a]*", false), ("", false), (".", false), ("a", false)] {
        emit_pat(&mut w, &args, src, esc, &Texts::Enum(vec!['.', 'a'], 3), &period_configs, "period");
    }

    // ---- the regex crate against its model: what the translation emits for
    // short patterns, and random strings of the same syntax
    {
        let srcs: Vec<String> = if args.thorough() {
            (1..=3).flat_map(|n| strings_of_len(&syms, n)).collect()
        } else {
            (0..200u64)
                .map(|k| {
                    let mut r = rng.fork(7_000 + k);
                    let n = 1 + r.below(6);
                    (0..n).map(|_| *r.pick(&syms)).collect()
                })
                .collect()
        };
        for (k, src) in srcs.iter().enumerate() {
            let pcs: Vec<PatternChar> = with_escape(src).collect();
            let c = CONFIGS[k % 6];
            if let Ok(rx) = Ast::new(pcs).to_regex(&c.real()) {
                let alpha = text_alphabet(src, 3, &std_fill);
                emit_rx(&mut w, &rx, c.sm, &Texts::Enum(alpha, 3), "regex-emitted");
            }
        }
        for k in 0..args.scale(400, 12000) {
            let mut r = rng.fork(8_000_000 + k as u64);
            let rx = random_regex(&mut r);
            let alpha = regex_alphabet(&rx);
            emit_rx(&mut w, &rx, r.chance(1, 2), &Texts::Enum(alpha, 3), "regex-random");
        }
        for (rx, lazy) in [
            ("[^]", false), ("[^]a]", false), ("[]a]*", true), ("[a-]", false), ("[-a]", false), ("[--a]", false),
            ("[a&b]", false), ("[a[^b]c]", false), ("[[:^alpha:]x]", false), ("[[:foo:]]", false), ("[z-a]", false),
            ("(?:ab|a)b", false), ("(?:a|ab)b", true), ("(?:|a)b", false), ("*a", false),
            ("\\Aa.*\\z", true), ("a\\Ab", false), ("[^\\]]x", false), ("[\\z]", false), ("(?:a", false), ("[a", false),
            (".*a.*", true), ("x*[ab]*b", false), ("[a-c-e]", false),
        ] {
            emit_rx(&mut w, rx, lazy, &Texts::Enum(regex_alphabet(rx), 3), "regex-corpus");
        }
    }

    // ---- the shell: case and the four trim forms
    let shell_corpus: [(&str, &str); 18] = [
        ("x", "[![.ch.]]"),
        ("xyz", "[![.ch.]]"),
        ("chh", "[[.ch.]c]h"),
        ("ab", "[[.a.][.ab.]]"),
        ("é", "[![.é.]a]"),
        ("x", "[![.é.]]"),
        ("xé", "*[![=é=]]"),
        ("cha", "[![.ch.]a]*"),
        ("b", "[a\\-z]"),
        ("-", "[a\\-z]"),
        ("aaa", "[[.a*.]]"),
        ("^", "[[.^.]]"),
        ("a*b", "a\\*b"),
        ("[a]", "\\[a]"),
        ("[a", "[a"),
        ("abcabc", "*b"),
        ("abcabc", "b*"),
        ("a.b", "a?b"),
    ];
    for (v, p) in shell_corpus.iter() {
        // the backslashes of these patterns are written in the script: quoting
        let mut parts = vec![];
        let mut it = p.chars();
        while let Some(c) = it.next() {
            if c == '\\' {
                parts.push(Part::Seg(it.next().unwrap(), Q::Backslash));
            } else {
                parts.push(Part::Seg(c, Q::None));
            }
        }
        emit_case(&mut w, &args, v, &[(vec![seg_str("zzz")], 0), (vec![parts.clone()], 0), (vec![seg_str("*")], 0)]);
        emit_trim(&mut w, &args, v, &parts);
        // the same pattern through a variable (backslashes then quote at match time)
        emit_case(&mut w, &args, v, &[(vec![vec![Part::Var(p.to_string(), false)]], 0), (vec![seg_str("*")], 0)]);
        emit_trim(&mut w, &args, v, &[Part::Var(p.to_string(), false)]);
        emit_trim(&mut w, &args, v, &[Part::Var(p.to_string(), true)]);
    }
    // an item with several patterns: a pattern that does not compile is skipped,
    // the other alternatives of the item are still tried.  Every kind of invalid
    // pattern x position of the invalid alternative x where the matching one is.
    const INVALID: [&str; 7] =
        ["[[:foo:]]", "[[..]]", "[[==]]", "[[:digit:]-9]", "[a-[:alpha:]]", "[z-a]", "[[:nosuchclass:]]*"];
    for (k, bad) in INVALID.iter().enumerate() {
        let b = || seg_str(bad);
        let star = || vec![(vec![seg_str("*")], 0u8)];
        let mut layouts: Vec<Vec<(Vec<Vec<Part>>, u8)>> = vec![
            vec![(vec![b(), seg_str("a")], 0)],                       // invalid | match
            vec![(vec![seg_str("a"), b()], 0)],                       // match | invalid
            vec![(vec![seg_str("b"), b(), seg_str("a")], 0)],         // miss | invalid | match
            vec![(vec![b(), seg_str("b"), seg_str("?")], 0)],         // invalid | miss | match
            vec![(vec![b(), b(), seg_str("[a]")], 0)],                // invalid | invalid | match
            vec![(vec![b(), seg_str("b")], 0)],                       // invalid | miss  -> next item
            vec![(vec![b()], 0)],                                     // invalid alone   -> next item
            vec![(vec![seg_str("b")], 0), (vec![b(), seg_str("a")], 1), (vec![seg_str("zzz")], 0)], // then ;&
            vec![(vec![b(), seg_str("a")], 2), (vec![b(), seg_str("*")], 0)],                         // then ;;&
        ];
        for l in layouts.iter_mut() {
            l.extend(star());
        }
        for l in &layouts {
            emit_case(&mut w, &args, "a", l);
        }
        // the same through a variable and with quoting inside the valid alternative
        emit_case(
            &mut w,
            &args,
            "a",
            &[(vec![vec![Part::Var(bad.to_string(), false)], vec![Part::Seg('a', Q::Single)]], 0), (vec![seg_str("*")], 0)],
        );
        // an invalid pattern in the trim forms leaves the value alone
        if k < 4 {
            emit_trim(&mut w, &args, "a9", &seg_str(bad));
        }
    }

    let nshell = args.scale(300, 3000);
    for k in 0..nshell {
        let mut r = rng.fork(900_000 + k as u64);
        // case
        let nitems = 1 + r.below(4);
        let mut items = vec![];
        let mut all_parts = vec![];
        for _ in 0..nitems {
            let npats = 1 + r.below(3);
            let pats: Vec<Vec<Part>> = (0..npats)
                .map(|_| {
                    if r.chance(1, 5) {
                        // an alternative that does not compile
                        let bad = *r.pick(&["[[:foo:]]", "[[..]]", "[[==]]", "[[:digit:]-9]", "[a-[:alpha:]]", "[z-a]", "x[[:bar:]]*"]);
                        if r.chance(1, 4) { vec![Part::Var(bad.to_string(), false)] } else { seg_str(bad) }
                    } else {
                        random_parts(&mut r)
                    }
                })
                .collect();
            all_parts.extend(pats.iter().flatten().cloned());
            let cont = match r.below(10) {
                0 => 1,
                1 => 2,
                _ => 0,
            };
            items.push((pats, cont));
        }
        if r.chance(1, 3) {
            items.push((vec![seg_str("*")], 0));
        }
        let subject = if r.chance(1, 2) {
            let (pats, _) = &items[r.below(items.len())];
            let k = r.below(pats.len());
            instantiate(&mut r, &pats[k])
        } else {
            subject_for(&mut r, &all_parts)
        };
        emit_case(&mut w, &args, &subject, &items);
        // trim: a value that starts and / or ends with something the pattern matches
        let parts = random_parts(&mut r);
        let value = match r.below(4) {
            0 => subject_for(&mut r, &parts),
            1 => format!("{}{}", instantiate(&mut r, &parts), subject_for(&mut r, &parts)),
            2 => format!("{}{}", subject_for(&mut r, &parts), instantiate(&mut r, &parts)),
            _ => format!("{}{}{}", instantiate(&mut r, &parts), subject_for(&mut r, &parts), instantiate(&mut r, &parts)),
        };
        let _ = parts_show(&parts);
        emit_trim(&mut w, &args, &value, &parts);
    }

    w.finish(
        "stream 1: a pattern under 5-8 configurations on enumerated or random texts (non-trivial = not literal, \
         compiled, matched some text and rejected some text; distinct by pattern); stream 2: case / trim scripts \
         (non-trivial = a body ran / a form removed something; distinct by script)",
    );
}
