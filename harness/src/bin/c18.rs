//! C18 — the shell's input is consumed line by line, no further than the
//! running command needs.
//!
//! For every generated script the real shell (startup::args, configure_environment,
//! prepare_input, read_eval_loop) is run on the simulated OS with the script
//!   * as the regular file on descriptor 0,
//!   * written into a pipe on descriptor 0 by another process, chunk by chunk
//!     (each chunk only after the shell has blocked on the empty pipe, or all
//!     at once),
//!   * as a `-c` string and as a script file operand (descriptor 0 = data).
//! Probe built-ins record their arguments, `$?` and the number of bytes
//! consumed from descriptor 0 at that moment.
//!
//! The parser parameter of the Coq model is recorded from the real
//! `Parser::command_line`, run on its own with a counting input function from
//! every line of the script in every parser state (aliases, `portable`) the
//! script can produce; the parsed command is translated to the model's
//! command type.

use std::cell::{Cell, RefCell};
use std::ops::ControlFlow::{Break, Continue};
use std::panic::{AssertUnwindSafe, catch_unwind};
use std::rc::Rc;
use std::time::Duration;
use yash_cli::startup::args::{Parse, parse as parse_args};
use yash_cli::startup::configure_environment;
use yash_cli::startup::input::prepare_input;
use yash_env::builtin::{Builtin, Type};
use yash_env::io::Fd;
use yash_env::semantics::{Divert, ExitStatus, Field};
use yash_env::system::concurrency::{Sleep as _, WriteAll as _};
use yash_env::system::r#virtual::FileBody;
use yash_env::system::{Close as _, Dup as _, Exit as _, Pipe as _, Read as _, Seek as _};
use yash_semantics::read_eval_loop;
use yash_semantics::trap::run_exit_trap;
use yv_harness::cli::Args;
use yv_harness::vsh::{self, BuiltinFuture, State, VEnv};

#[derive(Clone, Debug, PartialEq, Eq)]
struct Ev {
    kind: &'static str,
    args: Vec<String>,
    status: i32,
    off: i64,
}

thread_local! {
    static EVS: RefCell<Vec<Ev>> = const { RefCell::new(Vec::new()) };
    static WRITTEN: Cell<i64> = const { Cell::new(0) };
    static STATE: RefCell<Option<State>> = const { RefCell::new(None) };
    /// scripts of the `set -v` stream: what appears on standard error is
    /// recorded, line by line, as records of kind "echo"
    static ECHO_ON: Cell<bool> = const { Cell::new(false) };
    static ECHO_POS: Cell<usize> = const { Cell::new(0) };
}

/// Records what has been written to standard error since the last call.
fn flush_echo() {
    if !ECHO_ON.with(|e| e.get()) {
        return;
    }
    let Some(st) = STATE.with(|s| s.borrow().clone()) else { return };
    let all = vsh::read_file(&st, "/dev/stderr").unwrap_or_default();
    let pos = ECHO_POS.with(|p| p.get());
    if all.len() <= pos {
        return;
    }
    ECHO_POS.with(|p| p.set(all.len()));
    for l in all[pos..].split_inclusive(|b| *b == b'\n') {
        let text: String = l.iter().map(|b| *b as char).collect();
        EVS.with(|e| e.borrow_mut().push(Ev { kind: "echo", args: vec![text], status: 0, off: 0 }));
    }
}

/// Number of bytes consumed so far from the standard input of the main shell.
fn stdin_consumed(env: &VEnv) -> i64 {
    if let Ok(p) = env.system.lseek(Fd::STDIN, std::io::SeekFrom::Current(0)) {
        return p as i64;
    }
    // a pipe: bytes written so far minus bytes still buffered
    let st = STATE.with(|s| s.borrow().clone()).unwrap();
    let st = st.borrow();
    let proc_ = &st.processes[&env.main_pid];
    let Some(body) = proc_.fds().get(&Fd::STDIN) else { return -1 };
    let ofd = body.open_file_description.borrow();
    let inode = ofd.inode().borrow();
    match &inode.body {
        FileBody::Fifo { content, .. } => WRITTEN.with(|w| w.get()) - content.len() as i64,
        _ => -1,
    }
}

fn push(env: &VEnv, kind: &'static str, args: Vec<String>, with_off: bool) {
    flush_echo();
    let off = if with_off { stdin_consumed(env) } else { 0 };
    EVS.with(|e| e.borrow_mut().push(Ev { kind, args, status: env.exit_status.0, off }));
}

fn probe_main(env: &mut VEnv, args: Vec<Field>) -> BuiltinFuture<'_> {
    Box::pin(async move {
        push(env, "probe", args.iter().map(|f| f.value.clone()).collect(), true);
        ExitStatus::SUCCESS.into()
    })
}

fn show_main(env: &mut VEnv, args: Vec<Field>) -> BuiltinFuture<'_> {
    Box::pin(async move {
        let mut vals = vec![];
        for a in args.iter() {
            // the bytes of the value, one character per byte (compared byte-wise)
            let v = env.variables.get_scalar(&a.value).map(|s| s.bytes().map(|b| b as char).collect::<String>());
            vals.push(v.unwrap_or_default());
        }
        push(env, "show", vals, true);
        ExitStatus::SUCCESS.into()
    })
}

/// Reads descriptor 0 to its end.  `latin1`: one character per byte (the
/// script need not be UTF-8); otherwise decoded as UTF-8.
async fn slurp_all(env: &mut VEnv, latin1: bool) -> String {
    let mut all = vec![];
    let mut b = [0u8; 1];
    loop {
        match env.system.read(Fd::STDIN, &mut b).await {
            Ok(0) | Err(_) => break,
            Ok(_) => all.push(b[0]),
        }
    }
    if latin1 {
        all.iter().map(|b| *b as char).collect()
    } else {
        String::from_utf8_lossy(&all).into_owned()
    }
}

fn slurp_main(env: &mut VEnv, _args: Vec<Field>) -> BuiltinFuture<'_> {
    Box::pin(async move {
        flush_echo();
        let off = stdin_consumed(env);
        let st = env.exit_status.0;
        let s = slurp_all(env, true).await;
        EVS.with(|e| e.borrow_mut().push(Ev { kind: "slurp", args: vec![s], status: st, off }));
        ExitStatus::SUCCESS.into()
    })
}

fn hdoc_main(env: &mut VEnv, _args: Vec<Field>) -> BuiltinFuture<'_> {
    Box::pin(async move {
        flush_echo();
        let st = env.exit_status.0;
        let s = slurp_all(env, false).await;
        EVS.with(|e| e.borrow_mut().push(Ev { kind: "hdoc", args: vec![s], status: st, off: 0 }));
        ExitStatus::SUCCESS.into()
    })
}

/// Replaces the content of the file that descriptor 0 is already open on.
fn set_stdin(state: &State, content: &[u8]) {
    let inode = state.borrow().file_system.get("/dev/stdin").unwrap();
    inode.borrow_mut().body = FileBody::new(content.to_vec());
}

fn install(env: &mut VEnv) {
    vsh::install_probes(env);
    env.builtins.insert("probe", Builtin::new(Type::Mandatory, probe_main));
    env.builtins.insert("show", Builtin::new(Type::Mandatory, show_main));
    env.builtins.insert("slurp", Builtin::new(Type::Mandatory, slurp_main));
    env.builtins.insert("hdoc", Builtin::new(Type::Mandatory, hdoc_main));
}

#[derive(Clone, Debug)]
enum Feed {
    /// script is the regular file /dev/stdin
    File,
    /// script is written into a pipe in these chunks, the rest as a last
    /// chunk (lazily: each chunk only after everything else has blocked)
    Fifo(Vec<usize>, bool),
    /// `-c script`, standard input holds `data`
    CmdString,
    /// `yash /script`, standard input holds `data`
    ScriptFile,
    /// `read_eval_loop` over a custom `Input` whose `next_line` returns the
    /// script in pieces of these sizes (then the rest, then ""); a piece may end
    /// in the middle of a line.  Standard input holds `data`.
    Pieces(Vec<usize>),
}

/// An input function that does not cut at newlines.
struct PieceInput {
    pieces: Vec<String>,
    pos: usize,
}

impl Input for PieceInput {
    async fn next_line(&mut self, _context: &Context) -> yash_env::input::Result {
        if self.pos < self.pieces.len() {
            self.pos += 1;
            Ok(self.pieces[self.pos - 1].clone())
        } else {
            Ok(String::new())
        }
    }
}

fn cut_pieces(script: &str, sizes: &[usize]) -> Vec<String> {
    let b = script.as_bytes();
    let mut out = vec![];
    let mut pos = 0;
    for n in sizes {
        let end = (pos + n).min(b.len());
        if end > pos {
            out.push(String::from_utf8(b[pos..end].to_vec()).unwrap());
        }
        pos = end;
    }
    if pos < b.len() {
        out.push(String::from_utf8(b[pos..].to_vec()).unwrap());
    }
    out
}

#[derive(Clone, Debug, Default)]
struct Obs {
    /// 0 end of input, 1 syntax error (interrupt), 2 exit, 7 anything else
    tag: u64,
    evs: Vec<Ev>,
    status: i32,
    final_off: i64,
    panicked: bool,
    hung: bool,
    stderr: String,
}

fn run(script: &[u8], feed: &Feed, data: &[u8]) -> Obs {
    EVS.with(|e| e.borrow_mut().clear());
    WRITTEN.with(|w| w.set(0));
    ECHO_POS.with(|p| p.set(0));
    let script = script.to_vec();
    let data = data.to_vec();
    let feed = feed.clone();
    let r = catch_unwind(AssertUnwindSafe(move || {
        vsh::drive(
            move |mut env, state| {
                STATE.with(|s| *s.borrow_mut() = Some(Rc::clone(&state)));
                state.borrow_mut().now = Some(std::time::Instant::now());
                async move {
                    FILES.with(|f| {
                        for (p, c) in f.borrow().iter() {
                            vsh::write_file(&state, p, c);
                        }
                    });
                    let mut argv = vec!["yash".to_string()];
                    match &feed {
                        Feed::File => {
                            set_stdin(&state, &script);
                            // `yash` and `yash -s` both read the script from descriptor 0
                            if script.len() % 2 == 1 {
                                argv.push("-s".into());
                            }
                        }
                        Feed::CmdString => {
                            set_stdin(&state, &data);
                            argv.push("-c".into());
                            argv.push(String::from_utf8(script.clone()).unwrap());
                        }
                        Feed::Pieces(_) => {
                            set_stdin(&state, &data);
                            argv.push("-c".into());
                            argv.push(String::from_utf8(script.clone()).unwrap());
                        }
                        Feed::ScriptFile => {
                            set_stdin(&state, &data);
                            vsh::write_file(&state, "/script", &script);
                            argv.push("/script".into());
                        }
                        Feed::Fifo(chunks, lazy) => {
                            let lazy = *lazy;
                            let (r, w) = env.system.pipe().unwrap();
                            env.system.dup2(r, Fd::STDIN).unwrap();
                            env.system.close(r).unwrap();
                            let chunks = chunks.clone();
                            let script = script.clone();
                            let (pid, ()) = env.run_in_child_process((), move |cenv: VEnv, ()| async move {
                                cenv.system.close(Fd::STDIN).ok();
                                let mut pos = 0;
                                for n in chunks {
                                    let end = (pos + n).min(script.len());
                                    if lazy {
                                        cenv.system.sleep(Duration::from_secs(1)).await;
                                    }
                                    cenv.system.write_all(w, &script[pos..end]).await.ok();
                                    WRITTEN.with(|x| x.set(end as i64));
                                    pos = end;
                                }
                                if lazy {
                                    cenv.system.sleep(Duration::from_secs(1)).await;
                                }
                                if pos < script.len() {
                                    cenv.system.write_all(w, &script[pos..]).await.ok();
                                    WRITTEN.with(|x| x.set(script.len() as i64));
                                }
                                if lazy {
                                    cenv.system.sleep(Duration::from_secs(1)).await;
                                }
                                cenv.system.close(w).ok();
                                cenv.system.exit(ExitStatus(0)).await;
                            });
                            pid.unwrap();
                            env.system.close(w).unwrap();
                        }
                    }
                    let run = match parse_args(argv) {
                        Ok(Parse::Run(run)) => run,
                        _ => return (2, -1, 7),
                    };
                    let work = configure_environment(&mut env, run).await;
                    install(&mut env);
                    let ref_env = RefCell::new(&mut env);
                    let lexer = if let Feed::Pieces(sizes) = &feed {
                        let input = PieceInput {
                            pieces: cut_pieces(std::str::from_utf8(&script).unwrap(), sizes),
                            pos: 0,
                        };
                        let mut config = yash_env::parser::Config::with_input(Box::new(input));
                        config.source = Some(yash_env::source::Source::CommandString.into());
                        Lexer::from(config)
                    } else {
                        match prepare_input(&ref_env, &work.source).await {
                            Ok(lexer) => lexer,
                            Err(_) => return (127, -1, 7),
                        }
                    };
                    let result = read_eval_loop(&ref_env, &mut { lexer }).await;
                    let env = ref_env.into_inner();
                    env.apply_result(result);
                    let off = stdin_consumed(env);
                    let tag = match result {
                        Continue(()) => 0,
                        Break(Divert::Interrupt(_)) => 1,
                        Break(Divert::Exit(_)) => 2,
                        _ => 7,
                    };
                    match result {
                        Continue(())
                        | Break(Divert::Continue { .. })
                        | Break(Divert::Break { .. })
                        | Break(Divert::Return(_))
                        | Break(Divert::Interrupt(_))
                        | Break(Divert::Exit(_)) => run_exit_trap(env).await,
                        Break(Divert::Abort(_)) => (),
                    }
                    (env.exit_status.0, off, tag)
                }
            },
            100_000,
        )
    }));
    flush_echo();
    STATE.with(|s| *s.borrow_mut() = None);
    let evs = EVS.with(|e| std::mem::take(&mut *e.borrow_mut()));
    match r {
        Ok((res, deadlock, timeout, state)) => {
            let stderr = vsh::read_file(&state, "/dev/stderr")
                .map(|b| String::from_utf8_lossy(&b).into_owned())
                .unwrap_or_default();
            let (status, final_off, tag) = res.unwrap_or((-1, -1, 7));
            Obs { tag, evs, status, final_off, panicked: false, hung: deadlock || timeout || res.is_none(), stderr }
        }
        Err(_) => Obs { tag: 7, evs, status: -2, final_off: -1, panicked: true, hung: false, stderr: String::new() },
    }
}


// ---------------------------------------------------------------------------
// Commands of the model and the translation from the real syntax tree.

use std::collections::BTreeMap;
use yash_env::Env;
use yash_env::alias::HashEntry;
use yash_env::input::{Context, Input};
use yash_env::option::{Option as ShOption, State as OptState};
use yash_env::parser::Mode;
use yash_env::source::Location;
use yash_syntax::parser::lex::Lexer;
use yash_syntax::parser::{ErrorCause, Parser};
use yash_syntax::syntax as ast;
use yv_harness::out::CasesWriter;
use yv_harness::rng::Rng;
use yv_harness::{coq, json_str};

#[derive(Clone, Debug, PartialEq, Eq)]
enum Cmd {
    Nop,
    Status(u64),
    Probe(Vec<String>),
    Show(String),
    Read(bool, u8, String),
    Slurp,
    Here(String),
    Alias(String, String),
    Unalias(String),
    Portable(bool),
    Exit(Option<u64>),
    Seq(Box<Cmd>, Box<Cmd>),
    And(Box<Cmd>, Box<Cmd>),
    Or(Box<Cmd>, Box<Cmd>),
    Not(Box<Cmd>),
    If(Box<Cmd>, Box<Cmd>, Box<Cmd>),
    Sub(Box<Cmd>),
    /// eval TEXT (false) / . FILE (true, the content of the file)
    Nest(bool, Vec<u8>),
}

thread_local! {
    /// files of the current case (path, content), written to the simulated file
    /// system before every run; `. PATH` is translated with their content
    static FILES: RefCell<Vec<(String, Vec<u8>)>> = const { RefCell::new(Vec::new()) };
}

impl Cmd {
    fn coq(&self) -> String {
        match self {
            Cmd::Nop => "CNop".into(),
            Cmd::Status(n) => format!("(CStatus {})", coq::n(*n)),
            Cmd::Probe(a) => {
                let v: Vec<String> = a.iter().map(|x| coq::s(x)).collect();
                format!("(CProbe {})", coq::list(&v))
            }
            Cmd::Show(v) => format!("(CShow {})", coq::s(v)),
            Cmd::Read(r, d, v) => format!("(CRead {} {} {})", coq::b(*r), coq::n(*d as u64), coq::s(v)),
            Cmd::Slurp => "CSlurp".into(),
            Cmd::Here(c) => format!("(CHere {})", coq::s(c)),
            Cmd::Alias(n, v) => format!("(CAlias {} {})", coq::s(n), coq::s(v)),
            Cmd::Unalias(n) => format!("(CUnalias {})", coq::s(n)),
            Cmd::Portable(b) => format!("(CPortable {})", coq::b(*b)),
            Cmd::Exit(n) => format!("(CExit {})", coq::opt(n.map(coq::n))),
            Cmd::Seq(a, b) => format!("(CSeq {} {})", a.coq(), b.coq()),
            Cmd::And(a, b) => format!("(CAnd {} {})", a.coq(), b.coq()),
            Cmd::Or(a, b) => format!("(COr {} {})", a.coq(), b.coq()),
            Cmd::Not(a) => format!("(CNot {})", a.coq()),
            Cmd::If(c, t, e) => format!("(CIf {} {} {})", c.coq(), t.coq(), e.coq()),
            Cmd::Sub(a) => format!("(CSub {})", a.coq()),
            Cmd::Nest(false, t) => {
                let v: Vec<String> = split_lines(t).iter().map(|l| coq::bytes(l)).collect();
                format!("(CNest (NMem {}))", coq::list(&v))
            }
            Cmd::Nest(true, t) => format!("(CNest (NFile {}))", coq::bytes(t)),
        }
    }
    /// texts of the nested loops directly inside this command
    fn nests(&self, out: &mut Vec<Vec<u8>>) {
        match self {
            Cmd::Nest(_, t) => out.push(t.clone()),
            Cmd::Seq(a, b) | Cmd::And(a, b) | Cmd::Or(a, b) => {
                a.nests(out);
                b.nests(out);
            }
            Cmd::Not(a) | Cmd::Sub(a) => a.nests(out),
            Cmd::If(c, t, e) => {
                c.nests(out);
                t.nests(out);
                e.nests(out);
            }
            _ => {}
        }
    }
    fn has_nest(&self) -> bool {
        let mut v = vec![];
        self.nests(&mut v);
        !v.is_empty()
    }
    /// alias definitions and option changes anywhere inside
    fn atoms(&self, out: &mut Vec<Cmd>) {
        match self {
            Cmd::Alias(..) | Cmd::Unalias(_) | Cmd::Portable(_) => out.push(self.clone()),
            Cmd::Seq(a, b) | Cmd::And(a, b) | Cmd::Or(a, b) => {
                a.atoms(out);
                b.atoms(out);
            }
            Cmd::Not(a) | Cmd::Sub(a) => a.atoms(out),
            Cmd::If(c, t, e) => {
                c.atoms(out);
                t.atoms(out);
                e.atoms(out);
            }
            _ => {}
        }
    }
    fn delims(&self, out: &mut Vec<u8>) {
        match self {
            Cmd::Read(_, d, _) => {
                if *d != b'\n' && !out.contains(d) {
                    out.push(*d);
                }
            }
            Cmd::Seq(a, b) | Cmd::And(a, b) | Cmd::Or(a, b) => {
                a.delims(out);
                b.delims(out);
            }
            Cmd::Not(a) | Cmd::Sub(a) => a.delims(out),
            Cmd::If(c, t, e) => {
                c.delims(out);
                t.delims(out);
                e.delims(out);
            }
            _ => {}
        }
    }
    fn reads_delim(&self) -> bool {
        match self {
            Cmd::Read(_, d, _) => *d != b'\n',
            Cmd::Seq(a, b) | Cmd::And(a, b) | Cmd::Or(a, b) => a.reads_delim() || b.reads_delim(),
            Cmd::Not(a) | Cmd::Sub(a) => a.reads_delim(),
            Cmd::If(c, t, e) => c.reads_delim() || t.reads_delim() || e.reads_delim(),
            _ => false,
        }
    }
    fn reads_input(&self) -> bool {
        match self {
            Cmd::Read(..) | Cmd::Slurp => true,
            Cmd::Seq(a, b) | Cmd::And(a, b) | Cmd::Or(a, b) => a.reads_input() || b.reads_input(),
            Cmd::Not(a) | Cmd::Sub(a) => a.reads_input(),
            Cmd::If(c, t, e) => c.reads_input() || t.reads_input() || e.reads_input(),
            _ => false,
        }
    }
}

fn text_literal(t: &ast::Text, escapes: bool) -> Option<String> {
    let mut s = String::new();
    for u in &t.0 {
        match u {
            ast::TextUnit::Literal(c) => s.push(*c),
            ast::TextUnit::Backslashed(c) if escapes => s.push(*c),
            _ => return None,
        }
    }
    Some(s)
}

fn word_literal(w: &ast::Word) -> Option<String> {
    let mut s = String::new();
    for u in &w.units {
        match u {
            ast::WordUnit::Unquoted(ast::TextUnit::Literal(c))
            | ast::WordUnit::Unquoted(ast::TextUnit::Backslashed(c)) => s.push(*c),
            ast::WordUnit::SingleQuote(q) => s.push_str(q),
            ast::WordUnit::DoubleQuote(t) => s.push_str(&text_literal(t, true)?),
            _ => return None,
        }
    }
    Some(s)
}

/// Names that are built-ins of the shell under test (anything else is an
/// unknown utility on the simulated OS, which has no executables).
fn is_known_utility(name: &str) -> bool {
    thread_local! {
        static NAMES: Vec<&'static str> = {
            let mut v: Vec<&'static str> = yash_builtin::iter::<vsh::Sys>().map(|(n, _)| n).collect();
            v.extend(["probe", "args", "echo", "cat", "true", "false", "show", "slurp", "hdoc"]);
            v
        };
    }
    NAMES.with(|v| v.contains(&name))
}

fn tr_simple(c: &ast::SimpleCommand) -> Option<Cmd> {
    if !c.assigns.is_empty() || c.words.is_empty() {
        return None;
    }
    let words: Vec<String> = c.words.iter().map(|(w, _)| word_literal(w)).collect::<Option<_>>()?;
    let name = words[0].as_str();
    let args = &words[1..];
    if name == "hdoc" {
        if !args.is_empty() || c.redirs.len() != 1 {
            return None;
        }
        let r = &c.redirs[0];
        if r.fd.is_some() {
            return None;
        }
        return match &r.body {
            ast::RedirBody::HereDoc(h) => Some(Cmd::Here(text_literal(h.content.get()?, false)?)),
            _ => None,
        };
    }
    if !c.redirs.is_empty() {
        return None;
    }
    let num = |s: &String| s.parse::<u64>().ok().filter(|n| *n < 256);
    match (name, args) {
        ("probe", a) => Some(Cmd::Probe(a.to_vec())),
        ("show", [v]) => Some(Cmd::Show(v.clone())),
        ("read", a) => {
            let mut raw = false;
            let mut delim = b'\n';
            let mut i = 0;
            while i < a.len() && a[i].starts_with('-') {
                match a[i].as_str() {
                    "-r" => raw = true,
                    "-d" => {
                        i += 1;
                        let d = a.get(i)?.as_bytes();
                        if d.len() != 1 || d[0] == 0 || d[0] >= 128 {
                            return None;
                        }
                        delim = d[0];
                    }
                    _ => return None,
                }
                i += 1;
            }
            match &a[i..] {
                [v] if !v.is_empty() && v.chars().all(|c| c.is_ascii_alphanumeric()) => {
                    Some(Cmd::Read(raw, delim, v.clone()))
                }
                _ => None,
            }
        }
        ("slurp", []) => Some(Cmd::Slurp),
        // eval joins its operands with a space (yash-builtin/src/eval.rs join)
        ("eval", a) if !a.is_empty() && a.iter().all(|x| x.is_ascii() && !x.starts_with('-')) => {
            Some(Cmd::Nest(false, a.join(" ").into_bytes()))
        }
        (".", [path]) if path.starts_with('/') => {
            let content = FILES.with(|f| f.borrow().iter().find(|(p, _)| p == path).map(|(_, c)| c.clone()))?;
            Some(Cmd::Nest(true, content))
        }
        ("alias", [d]) => {
            let (n, v) = d.split_once('=')?;
            if n.is_empty() || !n.chars().all(|c| c.is_ascii_alphanumeric()) {
                return None;
            }
            Some(Cmd::Alias(n.into(), v.into()))
        }
        ("unalias", [n]) if !n.is_empty() && n.chars().all(|c| c.is_ascii_alphanumeric()) => {
            Some(Cmd::Unalias(n.clone()))
        }
        ("set", [o, p]) if p == "portable" && (o == "-o" || o == "+o") => Some(Cmd::Portable(o == "-o")),
        // echoing of input lines is not part of the model (checked by an oracle clause of its own)
        ("set", [o]) if o == "-v" => Some(Cmd::Status(0)),
        ("exit", []) => Some(Cmd::Exit(None)),
        ("exit", [n]) => Some(Cmd::Exit(Some(num(n)?))),
        ("true", _) => Some(Cmd::Status(0)),
        ("false", _) => Some(Cmd::Status(1)),
        (n, _) if !n.contains('/') && !n.is_empty() && !is_known_utility(n) => Some(Cmd::Status(127)),
        _ => None,
    }
}

fn tr_compound(c: &ast::FullCompoundCommand) -> Option<Cmd> {
    if !c.redirs.is_empty() {
        return None;
    }
    match &c.command {
        ast::CompoundCommand::Grouping(l) => tr_list(l),
        ast::CompoundCommand::Subshell { body, .. } => {
            let b = tr_list(body)?;
            // an interrupt (syntax error in a nested text) inside a subshell is outside the model
            if b.has_nest() {
                return None;
            }
            Some(Cmd::Sub(Box::new(b)))
        }
        ast::CompoundCommand::If { condition, body, elifs, r#else } => {
            let mut tail = match r#else {
                Some(e) => tr_list(e)?,
                None => Cmd::Status(0),
            };
            for ei in elifs.iter().rev() {
                tail = Cmd::If(Box::new(tr_list(&ei.condition)?), Box::new(tr_list(&ei.body)?), Box::new(tail));
            }
            Some(Cmd::If(Box::new(tr_list(condition)?), Box::new(tr_list(body)?), Box::new(tail)))
        }
        ast::CompoundCommand::Case { subject, items } => {
            // subject and patterns are plain literals: decided statically
            let subj = word_literal(subject)?;
            if subj.chars().any(|c| !c.is_ascii_alphanumeric()) {
                return None;
            }
            // exit status: that of the last body run, 0 if none matched
            let mut out: Option<Cmd> = None;
            let mut falling = false;
            let mut i = 0;
            while i < items.len() {
                let it = &items[i];
                let mut m = falling;
                for p in &it.patterns {
                    let p = word_literal(p)?;
                    if p.chars().any(|c| !c.is_ascii_alphanumeric()) {
                        return None;
                    }
                    m |= p == subj;
                }
                if m {
                    if it.body.0.is_empty() {
                        return None;
                    }
                    let b = tr_list(&it.body)?;
                    out = Some(match out {
                        None => b,
                        Some(o) => Cmd::Seq(Box::new(o), Box::new(b)),
                    });
                    match it.continuation {
                        ast::CaseContinuation::Break => break,
                        ast::CaseContinuation::FallThrough => falling = true,
                        ast::CaseContinuation::Continue => falling = false,
                    }
                } else {
                    tr_list(&it.body)?;
                }
                i += 1;
            }
            Some(out.unwrap_or(Cmd::Status(0)))
        }
        _ => None,
    }
}

fn tr_pipeline(p: &ast::Pipeline) -> Option<Cmd> {
    if p.commands.len() != 1 {
        return None;
    }
    let c = match &*p.commands[0] {
        ast::Command::Simple(s) => tr_simple(s)?,
        ast::Command::Compound(c) => tr_compound(c)?,
        ast::Command::Function(f) => {
            // a definition only (the generated scripts never call the function):
            // exit status 0, nothing else; the body must be inside the model
            let name = word_literal(&f.name)?;
            if !name.starts_with("fn") || !name.chars().all(|c| c.is_ascii_alphanumeric()) {
                return None;
            }
            tr_compound(&f.body)?;
            Cmd::Status(0)
        }
    };
    Some(if p.negation { Cmd::Not(Box::new(c)) } else { c })
}

fn tr_list(l: &ast::List) -> Option<Cmd> {
    let mut out: Option<Cmd> = None;
    for item in &l.0 {
        if item.async_flag.is_some() {
            return None;
        }
        let mut c = tr_pipeline(&item.and_or.first)?;
        for (op, p) in &item.and_or.rest {
            let r = tr_pipeline(p)?;
            c = match op {
                ast::AndOr::AndThen => Cmd::And(Box::new(c), Box::new(r)),
                ast::AndOr::OrElse => Cmd::Or(Box::new(c), Box::new(r)),
            };
        }
        out = Some(match out {
            None => c,
            Some(o) => Cmd::Seq(Box::new(o), Box::new(c)),
        });
    }
    Some(out.unwrap_or(Cmd::Nop))
}

// ---------------------------------------------------------------------------
// The real parser on its own.

#[derive(Clone, Debug, PartialEq, Eq, PartialOrd, Ord)]
struct PState {
    aliases: BTreeMap<String, String>,
    portable: bool,
}

impl PState {
    fn coq(&self) -> String {
        let v: Vec<String> =
            self.aliases.iter().map(|(n, v)| format!("({}, {})", coq::s(n), coq::s(v))).collect();
        format!("(mkP {} {})", coq::list(&v), coq::b(self.portable))
    }
    fn apply(&self, atom: &Cmd) -> PState {
        let mut s = self.clone();
        match atom {
            Cmd::Alias(n, v) => {
                s.aliases.insert(n.clone(), v.clone());
            }
            Cmd::Unalias(n) => {
                s.aliases.remove(n);
            }
            Cmd::Portable(b) => s.portable = *b,
            _ => {}
        }
        s
    }
}

#[derive(Clone, Debug, PartialEq, Eq)]
enum PRes {
    /// the command, and `Lexer::pending()` afterwards (text left in the buffer)
    Complete(Cmd, bool),
    Error,
    End,
}

impl PRes {
    fn coq(&self) -> String {
        match self {
            PRes::Complete(c, p) => format!("(PComplete {} {})", c.coq(), coq::b(*p)),
            PRes::Error => "PError".into(),
            PRes::End => "PEnd".into(),
        }
    }
}

struct CountingFeed {
    lines: Vec<String>,
    pos: usize,
    pulled: Rc<Cell<usize>>,
}

impl Input for CountingFeed {
    async fn next_line(&mut self, _context: &Context) -> yash_env::input::Result {
        self.pulled.set(self.pulled.get() + 1);
        if self.pos < self.lines.len() {
            self.pos += 1;
            Ok(self.lines[self.pos - 1].clone())
        } else {
            Ok(String::new())
        }
    }
}

/// What FdReader2 makes of the bytes of one line.
fn line_string(bytes: &[u8]) -> String {
    String::from_utf8(bytes.to_vec()).unwrap_or_else(|e| String::from_utf8_lossy(&e.into_bytes()).into())
}

/// The lines of a script: cut after every newline byte, whatever the other
/// bytes are.
fn split_lines(script: &[u8]) -> Vec<Vec<u8>> {
    script.split_inclusive(|b| *b == b'\n').map(|l| l.to_vec()).collect()
}

fn set_parser_state<S>(env: &mut Env<S>, st: &PState) {
    env.aliases.clear();
    for (n, v) in &st.aliases {
        env.aliases.insert(HashEntry::new(n.clone(), v.clone(), false, Location::dummy("")));
    }
    env.options.set(ShOption::Portable, if st.portable { OptState::On } else { OptState::Off });
}

enum Session {
    /// an earlier call of the sequence did not leave text pending in the buffer
    NotReachable,
    /// lines pulled since the flush (counting the end-of-input report) and the
    /// result of the last call
    Res(usize, PRes),
}

/// One lexer, not flushed, on the lines from `start`; `command_line` is called
/// once per parser state of `sts` (aliases and mode set before each call, as
/// read_eval_loop does).  `None`: outside what the model covers.
fn parse_session(sts: &[&PState], lines: &[String], start: usize) -> Option<Session> {
    use futures_util::FutureExt as _;
    let mut env = Env::new_virtual();
    let pulled = Rc::new(Cell::new(0));
    let feed = CountingFeed { lines: lines[start..].to_vec(), pos: 0, pulled: Rc::clone(&pulled) };
    let ref_env = RefCell::new(&mut env);
    let mut lexer = Lexer::new(Box::new(feed));
    for (j, st) in sts.iter().enumerate() {
        let last = j + 1 == sts.len();
        let mode = {
            let env = &mut **ref_env.borrow_mut();
            set_parser_state(env, st);
            Mode::from(&env.options)
        };
        lexer.set_mode(mode);
        let result = Parser::config()
            .aliases(&ref_env)
            .declaration_utilities(&ref_env)
            .input(&mut lexer)
            .command_line()
            .now_or_never()?;
        if !last {
            match result {
                Ok(Some(_)) if lexer.pending() => continue,
                _ => return Some(Session::NotReachable),
            }
        }
        let res = match result {
            Ok(None) => PRes::End,
            Ok(Some(list)) => PRes::Complete(tr_list(&list)?, lexer.pending()),
            Err(e) => match e.cause {
                ErrorCause::Syntax(_) => PRes::Error,
                ErrorCause::Io(_) => return None,
            },
        };
        return Some(Session::Res(pulled.get(), res));
    }
    None
}

type Entry = (Vec<usize>, usize, usize, PRes);

struct Table {
    states: Vec<PState>,
    /// (state indices of the calls, start byte, lines taken, result) for the script
    entries: Vec<Entry>,
    /// nesting depth of eval / dot (0: none)
    level: usize,
    /// texts of the nested loops (operands of eval, contents of dot files), transitively
    texts: Vec<Vec<u8>>,
    /// the same for the nested texts (index into `texts`)
    nentries: Vec<(usize, Entry)>,
}

const MAX_STATES: usize = 12;
const MAX_ENTRIES: usize = 1500;
const MAX_CHAIN: usize = 5;
const MAX_NEST: usize = 3;

/// `candidates`: the parser states the next call of the session can be made
/// in (all of them for the first call; for a later call, what the command
/// parsed by the previous call can turn its state into).
fn explore(
    states: &[PState],
    candidates: &[usize],
    lines: &[String],
    start: usize,
    chain: &mut Vec<usize>,
    entries: &mut Vec<Entry>,
    atoms: &mut Vec<Cmd>,
) -> Option<()> {
    for &si in candidates {
        chain.push(si);
        let sts: Vec<&PState> = chain.iter().map(|i| &states[*i]).collect();
        match parse_session(&sts, lines, start)? {
            Session::NotReachable => {}
            Session::Res(k, r) => {
                let mut pend = false;
                let mut next: Vec<usize> = vec![si];
                if let PRes::Complete(c, p) = &r {
                    pend = *p;
                    let mut found = vec![];
                    c.atoms(&mut found);
                    // states the command can leave: any of its alias/option changes applied or not
                    let mut reach = vec![states[si].clone()];
                    let mut i = 0;
                    while i < reach.len() {
                        for a in &found {
                            let n = reach[i].apply(a);
                            if !reach.contains(&n) {
                                reach.push(n);
                            }
                        }
                        i += 1;
                    }
                    next = reach.iter().filter_map(|st| states.iter().position(|x| x == st)).collect();
                    if c.has_nest() {
                        // the nested text can define aliases / set options of its own
                        next = (0..states.len()).collect();
                    }
                    for a in found {
                        if !atoms.contains(&a) {
                            atoms.push(a);
                        }
                    }
                }
                entries.push((chain.clone(), start, k, r));
                if entries.len() > MAX_ENTRIES {
                    return None;
                }
                if pend {
                    if chain.len() >= MAX_CHAIN {
                        return None;
                    }
                    explore(states, &next, lines, start, chain, entries, atoms)?;
                }
            }
        }
        chain.pop();
    }
    Some(())
}

fn build_table(script: &[u8]) -> Option<Table> {
    let mut states = vec![PState { aliases: BTreeMap::new(), portable: false }];
    let mut atoms: Vec<Cmd> = vec![];
    // delimiters of the `read -d` commands seen: a command can start right
    // after such a byte (and after every newline, and at the beginning)
    let mut delims: Vec<u8> = vec![];
    loop {
        let mut new_delims = delims.clone();
        // text 0 is the script; the others are found while parsing
        let mut texts: Vec<(Vec<u8>, usize)> = vec![(script.to_vec(), 0)];
        let mut per_text: Vec<Vec<Entry>> = vec![];
        let mut edges: Vec<(usize, usize)> = vec![];
        let mut ti = 0;
        while ti < texts.len() {
            let (text, depth) = texts[ti].clone();
            let mut entries: Vec<Entry> = vec![];
            for start in 0..=text.len() {
                let ok = start == 0
                    || text[start - 1] == b'\n'
                    || delims.contains(&text[start - 1])
                    || start == text.len();
                if !ok {
                    continue;
                }
                let lines: Vec<String> = split_lines(&text[start..]).iter().map(|l| line_string(l)).collect();
                let first = entries.len();
                let all: Vec<usize> = (0..states.len()).collect();
                explore(&states, &all, &lines, 0, &mut vec![], &mut entries, &mut atoms)?;
                for e in &mut entries[first..] {
                    e.1 = start;
                    if let PRes::Complete(c, _) = &e.3 {
                        c.delims(&mut new_delims);
                        let mut found = vec![];
                        c.nests(&mut found);
                        for t in found {
                            let j = match texts.iter().position(|(x, _)| *x == t) {
                                Some(j) => j,
                                None => {
                                    if depth + 1 > MAX_NEST || texts.len() > 12 {
                                        return None;
                                    }
                                    texts.push((t, depth + 1));
                                    texts.len() - 1
                                }
                            };
                            if !edges.contains(&(ti, j)) {
                                edges.push((ti, j));
                            }
                        }
                    }
                }
            }
            per_text.push(entries);
            if per_text.iter().map(|v| v.len()).sum::<usize>() > MAX_ENTRIES {
                return None;
            }
            ti += 1;
        }
        // close the set of states under every alias definition / option change seen
        let before = states.len();
        let mut i = 0;
        while i < states.len() {
            for a in &atoms {
                let n = states[i].apply(a);
                if !states.contains(&n) {
                    states.push(n);
                }
            }
            if states.len() > MAX_STATES {
                return None;
            }
            i += 1;
        }
        if states.len() == before && new_delims.len() == delims.len() {
            // nesting level = longest chain of texts running one another
            let mut dep = vec![0usize; texts.len()];
            for _ in 0..=MAX_NEST + 1 {
                for &(a, b) in &edges {
                    if dep[b] < dep[a] + 1 {
                        dep[b] = dep[a] + 1;
                    }
                }
            }
            let level = dep.iter().copied().max().unwrap_or(0);
            if level > MAX_NEST {
                return None;
            }
            let mut it = per_text.into_iter();
            let entries = it.next().unwrap();
            let mut nentries = vec![];
            for (i, v) in it.enumerate() {
                for e in v {
                    nentries.push((i, e));
                }
            }
            return Some(Table { states, entries, level, texts: texts.into_iter().skip(1).map(|(t, _)| t).collect(), nentries });
        }
        delims = new_delims;
    }
}

// ---------------------------------------------------------------------------
// Printing.

fn kind_code(k: &str) -> u64 {
    match k {
        "probe" => 0,
        "show" => 1,
        "slurp" => 2,
        "echo" => 4,
        _ => 3,
    }
}

fn obs_coq(o: &Obs) -> String {
    if o.panicked {
        return "IPanic".into();
    }
    if o.hung || o.status < 0 || o.final_off < 0 || o.evs.iter().any(|e| e.off < 0 || e.status < 0) {
        return "IHang".into();
    }
    let evs: Vec<String> = o
        .evs
        .iter()
        .map(|e| {
            let a: Vec<String> = e.args.iter().map(|x| coq::s(x)).collect();
            format!(
                "Ev {} {} {} {}",
                coq::n(kind_code(e.kind)),
                coq::list(&a),
                coq::n(e.status as u64),
                coq::n(e.off as u64)
            )
        })
        .collect();
    format!(
        "(IObs ({}, {}, {}, {}))",
        coq::n(o.tag),
        coq::n(o.status as u64),
        coq::n(o.final_off as u64),
        coq::list(&evs)
    )
}

fn obs_json(o: &Obs) -> String {
    let evs: Vec<String> = o
        .evs
        .iter()
        .map(|e| json_str(&format!("{} {:?} $?={} off={}", e.kind, e.args, e.status, e.off)))
        .collect();
    format!(
        "{{\"end\":{},\"status\":{},\"off\":{},\"panic\":{},\"hang\":{},\"events\":[{}],\"stderr\":{}}}",
        o.tag,
        o.status,
        o.final_off,
        o.panicked,
        o.hung,
        evs.join(","),
        json_str(o.stderr.lines().next().unwrap_or(""))
    )
}

impl Feed {
    fn coq(&self) -> String {
        match self {
            Feed::File => "FdFile".into(),
            Feed::Fifo(sizes, _) => {
                if sizes.is_empty() {
                    "(FdFifo nil)".into()
                } else if sizes.iter().all(|n| *n == 1) {
                    format!("(FdFifo (ones {}))", coq::nat(sizes.len()))
                } else {
                    let v: Vec<String> = sizes.iter().map(|n| n.to_string()).collect();
                    format!("(FdFifo [{}]%nat)", v.join("; "))
                }
            }
            Feed::CmdString => "FdString".into(),
            Feed::ScriptFile => "FdScript".into(),
            Feed::Pieces(sizes) => {
                if sizes.is_empty() {
                    "(FdPieces nil)".into()
                } else {
                    let v: Vec<String> = sizes.iter().map(|n| n.to_string()).collect();
                    format!("(FdPieces [{}]%nat)", v.join("; "))
                }
            }
        }
    }
    fn show(&self) -> String {
        match self {
            Feed::File => "file".into(),
            Feed::Fifo(sizes, lazy) => format!("fifo{}{:?}", if *lazy { "" } else { "-eager" }, sizes),
            Feed::CmdString => "string".into(),
            Feed::ScriptFile => "scriptfile".into(),
            Feed::Pieces(sizes) => format!("input-pieces{:?}", sizes),
        }
    }
}

/// Runs one script under the given feeds and writes the case.  Returns false
/// if the script is outside the model's domain (nothing written).
fn emit(w: &mut CasesWriter, script: &str, data: &str, feeds: &[Feed], stream: &str, tags: &[&str]) -> bool {
    emit_bytes(w, script.as_bytes(), data, feeds, stream, tags)
}

/// The script as bytes (it need not be UTF-8; `-c` feeds are dropped then).
fn emit_bytes(w: &mut CasesWriter, script: &[u8], data: &str, feeds: &[Feed], stream: &str, tags: &[&str]) -> bool {
    emit_raw(w, script, data.as_bytes(), feeds, stream, tags)
}

/// Script and data as bytes.
fn emit_raw(w: &mut CasesWriter, script: &[u8], data: &[u8], feeds: &[Feed], stream: &str, tags: &[&str]) -> bool {
    let Some(table) = build_table(script) else {
        w.count("skipped:outside-model");
        return false;
    };
    let utf8 = std::str::from_utf8(script).is_ok();
    let shown: String = script.iter().map(|b| *b as char).collect();
    let mut runs = vec![];
    let mut runs_json = vec![];
    for f in feeds {
        if !utf8 && matches!(f, Feed::CmdString) {
            continue;
        }
        // pieces are strings: cut ASCII scripts only (any byte position is a character boundary)
        if !script.is_ascii() && matches!(f, Feed::Pieces(_)) {
            continue;
        }
        let o = run(script, f, data);
        runs.push(format!("({}, {})", f.coq(), obs_coq(&o)));
        runs_json.push(format!("{{\"feed\":{},\"obs\":{}}}", json_str(&f.show()), obs_json(&o)));
        w.count(match f {
            Feed::File => "run:file",
            Feed::Fifo(..) => "run:fifo",
            Feed::CmdString => "run:string",
            Feed::ScriptFile => "run:scriptfile",
            Feed::Pieces(_) => "run:input-pieces",
        });
        w.count(&format!("end:{}", o.tag));
    }
    let states: Vec<String> = table.states.iter().map(|s| s.coq()).collect();
    let entries: Vec<String> = table
        .entries
        .iter()
        .map(|(s, i, k, r)| {
            let sl: Vec<String> = s.iter().map(|x| x.to_string()).collect();
            format!("([{}]%nat, {}, {}, {})", sl.join("; "), coq::nat(*i), coq::nat(*k), r.coq())
        })
        .collect();
    let texts: Vec<String> = table.texts.iter().map(|t| coq::bytes(t)).collect();
    let nentries: Vec<String> = table
        .nentries
        .iter()
        .map(|(t, (s, i, k, r))| {
            let sl: Vec<String> = s.iter().map(|x| x.to_string()).collect();
            format!("({}, ([{}]%nat, {}, {}, {}))", coq::nat(*t), sl.join("; "), coq::nat(*i), coq::nat(*k), r.coq())
        })
        .collect();
    let term = format!(
        "(mkCase {} {} {} {} {} {} {} {})",
        coq::bytes(script),
        coq::bytes(data),
        coq::list(&states),
        coq::list(&entries),
        coq::list(&runs),
        coq::nat(table.level),
        coq::list(&texts),
        coq::list(&nentries)
    );
    if table.level > 0 {
        w.count(&format!("has:nested-loop-depth-{}", table.level));
        if table.nentries.iter().any(|(_, e)| matches!(&e.3, PRes::Complete(c, _) if c.reads_input())) {
            w.count("has:nested-command-reading-stdin");
        }
        if table.nentries.iter().any(|(_, e)| e.0 == [0] && e.3 == PRes::Error) {
            w.count("has:nested-syntax-error-somewhere");
        }
        if table.nentries.iter().any(|(_, e)| matches!(&e.3, PRes::Complete(c, _) if { let mut a = vec![]; c.atoms(&mut a); !a.is_empty() })) {
            w.count("has:nested-alias-or-option-change");
        }
    }
    // classification of the input
    let multi = table.entries.iter().any(|e| matches!(e.3, PRes::Complete(..)) && e.2 >= 2);
    let reads = table.entries.iter().any(|e| matches!(&e.3, PRes::Complete(c, _) if c.reads_input()));
    let delim = table.entries.iter().any(|e| matches!(&e.3, PRes::Complete(c, _) if c.reads_delim()));
    let pend = table.entries.iter().any(|e| matches!(&e.3, PRes::Complete(_, true)));
    let errs = table.entries.iter().any(|e| e.0 == [0] && e.3 == PRes::Error);
    let nstates = table.states.len();
    w.count(&format!("stream:{stream}"));
    w.count(&format!("lines:{}", split_lines(script).len().min(12)));
    w.count(&format!("parser_states:{}", nstates.min(6)));
    if multi {
        w.count("has:multi-line-command");
    }
    if reads {
        w.count("has:command-reading-stdin");
    }
    if delim {
        w.count("has:read-with-delimiter");
    }
    if pend {
        w.count("has:text-pending-in-line-buffer");
    }
    if errs {
        w.count("has:syntax-error-somewhere");
    }
    if !utf8 {
        w.count("has:invalid-utf8");
    } else if !script.is_ascii() {
        w.count("has:multi-byte-characters");
    }
    if shown.contains("<<") {
        w.count("has:here-document");
    }
    if script.last() != Some(&b'\n') {
        w.count("has:no-final-newline");
    }
    let json = format!(
        "{{\"stream\":{},\"script_latin1\":{},\"data\":{},\"parser_states\":{},\"runs\":[{}]}}",
        json_str(stream),
        json_str(&shown),
        json_str(&data.iter().map(|b| *b as char).collect::<String>()),
        nstates,
        runs_json.join(",")
    );
    let key = if multi || reads || errs || nstates > 1 || !script.is_ascii() { Some(shown) } else { None };
    w.push(&term, &json, tags, key);
    true
}

// ---------------------------------------------------------------------------
// Generators.

struct Gen<'a> {
    r: &'a mut Rng,
    key: usize,
}

impl Gen<'_> {
    fn k(&mut self) -> String {
        self.key += 1;
        format!("k{}", self.key)
    }
    fn var(&mut self) -> String {
        format!("v{}", 1 + self.r.below(2))
    }
    /// a line that is meant to be consumed as data but is also a command
    fn data_line(&mut self) -> String {
        let k = self.k();
        match self.r.below(9) {
            0 => format!("probe {k}"),
            1 => format!("  lead {k}  trail \t"),
            2 => format!("nosuch{k} arg"),
            3 => "}".into(),
            4 => ")".into(),
            5 => format!("{k}\\"),
            6 => String::new(),
            7 => format!("a\\ b {k}\\\\"),
            _ => format!("d{k}"),
        }
    }
    /// one line (or multi-line command) of a nested text; `depth` = how many
    /// more levels of nesting are allowed below it; `q` = the quote character
    /// available for a further eval operand (none left: only dot files nest)
    fn inner_item(&mut self, depth: usize, q: Option<char>, nfiles: usize) -> Vec<String> {
        let k = self.k();
        match self.r.below(20) {
            0..=2 => vec![format!("probe {k}")],
            3 => vec![format!("read -r {}", self.var())],
            4 => vec![format!("read {}", self.var())],
            5 => vec![format!("read -r {v}; show {v}", v = self.var())],
            6 => vec![format!("show {}", self.var())],
            7 => vec![format!("alias n{k}=probe\\ a{k}"), format!("n{k} x")],
            8 => vec![format!("alias n{k}=probe\\ b{k}; n{k} y"), format!("n{k} z")],
            9 => vec!["{".into(), format!("probe {k}"), format!("read -r {}", self.var()), "}".into()],
            10 => vec![format!("if true; then"), format!("probe {k}"), "fi".into()],
            11 => vec!["false".into()],
            12 => vec![format!("true && probe {k}")],
            13 if depth > 0 && nfiles > 0 => vec![format!(". /f{}", 1 + self.r.below(nfiles))],
            14 if depth > 0 && nfiles > 0 => vec![format!("! . /f{}", 1 + self.r.below(nfiles)), format!("probe {k}")],
            15 | 16 if depth > 0 && q.is_some() => {
                let qc = q.unwrap();
                let mut inner = vec![];
                for _ in 0..1 + self.r.below(3) {
                    inner.extend(self.inner_item(depth - 1, None, nfiles));
                }
                let body = inner.join("\n");
                if body.contains(qc) || body.contains('\\') {
                    vec![format!("probe {k}")]
                } else {
                    vec![format!("eval {qc}{body}{qc}")]
                }
            }
            17 => vec![format!("probe {k}; read -r {v}; probe {k}b", v = self.var())],
            18 => vec![format!("unalias n{k}")],
            _ => vec![format!("probe {k}")],
        }
    }
    fn inner_text(&mut self, depth: usize, q: Option<char>, nfiles: usize, bad: bool) -> String {
        let mut lines = vec![];
        for _ in 0..1 + self.r.below(4) {
            lines.extend(self.inner_item(depth, q, nfiles));
        }
        if bad {
            let p = self.r.below(lines.len() + 1);
            lines.insert(p, self.r.pick(&BAD_LINES).to_string());
        }
        if self.r.chance(1, 12) {
            let p = self.r.below(lines.len() + 1);
            lines.insert(p, "exit 7".into());
        }
        join(&lines, self.r.chance(1, 2))
    }
    /// A script with nested read-eval loops (eval with multi-line operands, dot
    /// files nested up to depth 3) whose commands read the shared standard
    /// input, define aliases used by their own later lines and by the script,
    /// and contain planted syntax errors.  Returns the script and the files.
    fn nested_script(&mut self) -> (String, Vec<(String, Vec<u8>)>) {
        // f3 is a leaf, f2 may run f3, f1 may run f2 and f3 (no cycles)
        let mut files: Vec<(String, Vec<u8>)> = vec![];
        let bad3 = self.r.chance(1, 8);
        let f3 = self.inner_text(0, None, 0, bad3);
        let f2 = {
            let bad = self.r.chance(1, 10);
            let mut t = self.inner_text(0, Some('"'), 0, bad);
            if self.r.chance(1, 2) {
                t = format!("probe f2a\n. /f3\n{t}");
            }
            t
        };
        let f1 = {
            let bad = self.r.chance(1, 10);
            let mut t = self.inner_text(1, Some('\''), 0, bad);
            if self.r.chance(1, 2) {
                t = format!("{t}{}. /f2\nprobe f1z\n", if t.ends_with('\n') { "" } else { "\n" });
            }
            t
        };
        files.push(("/f1".into(), f1.into_bytes()));
        files.push(("/f2".into(), f2.into_bytes()));
        files.push(("/f3".into(), f3.into_bytes()));
        let mut lines: Vec<String> = vec![];
        let items = 2 + self.r.below(4);
        for _ in 0..items {
            let k = self.k();
            match self.r.below(12) {
                0 | 1 => lines.push(self.simple()),
                2 | 3 => {
                    let bad = self.r.chance(1, 8);
                    let t = self.inner_text(2, Some('"'), 3, bad);
                    if t.contains('\'') {
                        lines.push(format!("probe {k}"));
                    } else {
                        lines.push(format!("eval '{t}'"));
                    }
                }
                4 => lines.push(format!(". /f{}", 1 + self.r.below(3))),
                5 => {
                    lines.push(format!("eval 'read -r {v}' 'show {v}'; probe {k}", v = self.var()));
                    lines.push(self.data_line());
                }
                6 => {
                    lines.push(format!("if . /f{}; then probe {k}t; else probe {k}e; fi", 1 + self.r.below(3)));
                }
                7 => {
                    lines.push(format!("eval 'alias m{k}=\"probe {k}\"'"));
                    lines.push(format!("m{k} w"));
                }
                8 => {
                    lines.push(format!("eval 'read {}", self.var()));
                    lines.push(format!("probe {k}' && probe {k}b"));
                    lines.push(self.data_line());
                }
                9 => lines.push(format!("false; eval ''; probe {k}")),
                10 => {
                    lines.push(format!("! eval 'false' && . /f3"));
                }
                _ => {
                    lines.push(format!(". /f{}", 1 + self.r.below(3)));
                    lines.push(self.data_line());
                    lines.push(self.data_line());
                }
            }
        }
        for _ in 0..self.r.below(4) {
            lines.push(self.data_line());
        }
        (join(&lines, self.r.chance(4, 5)), files)
    }
    fn simple(&mut self) -> String {
        let k = self.k();
        match self.r.below(22) {
            0..=3 => format!("probe {k}"),
            4 => format!("probe {k}; probe {k}b"),
            5 => format!("  probe {k}  # comment ; probe no"),
            6 => format!("read -r {}", self.var()),
            7 => format!("read {}", self.var()),
            8 => format!("show {}", self.var()),
            9 => format!("read -r {v}; show {v}", v = self.var()),
            10 => format!("true && probe {k}"),
            11 => format!("false || probe {k}"),
            12 => format!("! probe {k}"),
            13 => format!("nosuch{k}"),
            14 => "false".into(),
            15 => format!("(read -r {v}; show {v}; exit 5)", v = self.var()),
            16 => format!("a1 {k}"),
            17 => format!("probe 'q {k}' \"d {k}\""),
            18 => format!("if false; then probe {k}; else probe {k}e; fi"),
            19 => format!("case x in y) probe {k} ;; x) probe {k}x ;| x) probe {k}y ;; esac"),
            20 => format!("probe {k} && read {}", self.var()),
            _ => format!("show {}; probe {k}", self.var()),
        }
    }
    /// one item = one or more lines
    fn item(&mut self, depth: usize, out: &mut Vec<String>) {
        let k = self.k();
        match self.r.below(if depth >= 2 { 60 } else { 100 }) {
            0..=34 => out.push(self.simple()),
            35..=42 => out.push(self.data_line()),
            43..=45 => out.push(if self.r.chance(1, 2) { String::new() } else { "# note".into() }),
            46..=48 => {
                out.push("probe \\".into());
                out.push(k);
            }
            49..=51 => out.push(
                self.r.pick(&["alias a1='probe A'", "alias a1='probe B;'", "alias lb='{'", "alias a1=nosuchx", "alias fi2=fi"])
                    .to_string(),
            ),
            52..=53 => out.push(self.r.pick(&["set -o portable", "set +o portable"]).to_string()),
            54..=55 => out.push("slurp".into()),
            56..=57 => out.push(match self.r.below(3) {
                0 => "exit".into(),
                1 => format!("probe {k}; exit 7"),
                _ => "exit 3".into(),
            }),
            58..=59 => out.push(format!("lb probe {k}")),
            60..=69 => {
                let fnopen = format!("fn{k}() {{");
                out.push(self.r.pick(&["{", "{ probe g;", "if true; then", "if true", "(", "if nosuchc; then probe n; else", &fnopen, &fnopen]).to_string());
                if out.last().unwrap() == "if true" {
                    out.push("then".into());
                }
                let n = 1 + self.r.below(3);
                let opener = out[out.len() - if out[out.len() - 1] == "then" { 2 } else { 1 }].clone();
                for _ in 0..n {
                    self.item(depth + 1, out);
                }
                out.push(
                    if opener.starts_with('{') || opener.starts_with("fn") {
                        "}"
                    } else if opener.starts_with('(') {
                        ")"
                    } else {
                        "fi"
                    }
                    .to_string(),
                );
            }
            70..=79 => {
                let (op, delim) = *self.r.pick(&[("<<E", "E"), ("<<-E", "E"), ("<<'E'", "E"), ("<< EOF", "EOF")]);
                let pre = if self.r.chance(1, 4) { format!("probe {k}; ") } else { String::new() };
                let post = if self.r.chance(1, 4) { format!("; read -r {}", self.var()) } else { String::new() };
                out.push(format!("{pre}hdoc {op}{post}"));
                for _ in 0..self.r.below(3) {
                    let d = self.data_line().replace('\\', "").replace('\t', " ");
                    out.push(d);
                }
                out.push(delim.to_string());
            }
            80..=89 => {
                // a reader followed by the line it is meant to take
                let v = self.var();
                out.push(match self.r.below(4) {
                    0 => format!("read -r {v}"),
                    1 => format!("read {v}"),
                    2 => format!("{{ read -r {v}; }}"),
                    _ => format!("read -r {v}; read -r {v}"),
                });
                out.push(self.data_line());
                if self.r.chance(1, 2) {
                    out.push(format!("show {v}"));
                }
            }
            _ => {
                // a multi-line group with a reader inside: it reads what follows the group
                let v = self.var();
                out.push("{".into());
                out.push(format!("probe {k}"));
                out.push(format!("read -r {v}"));
                out.push("}".into());
                out.push(self.data_line());
                out.push(format!("show {v}"));
            }
        }
    }
    /// lines whose meaning depends on alias definitions / option changes made
    /// by earlier lines (or not made, when a reader took the defining line)
    fn stateful_lines(&mut self) -> Vec<String> {
        let mut out = vec![];
        let n = 3 + self.r.below(5);
        for _ in 0..n {
            let k = self.k();
            match self.r.below(14) {
                0 => out.push("alias a1='probe A'".into()),
                1 => out.push("alias a1='probe B;'".into()),
                2 => out.push("alias lb='{'".into()),
                3 => out.push(format!("a1 {k}")),
                4 => {
                    out.push(format!("lb probe {k}"));
                    out.push("}".into());
                }
                5 => out.push("set -o portable".into()),
                6 => out.push("set +o portable".into()),
                7 => out.push(format!("case x in x) probe {k} ;| y) probe no ;; esac")),
                8 => out.push(format!("((probe {k}); (probe {k}b))")),
                9 => out.push(format!("read -r {}", self.var())),
                10 => out.push(format!("alias a1='probe C'; a1 {k}")),
                11 => out.push(format!("set -o portable; case x in x) probe {k} ;| esac")),
                12 => out.push(format!("probe {k}")),
                _ => out.push(format!("{{ alias a1='probe D'; }}; a1 {k}")),
            }
        }
        out
    }
    /// byte-level script: command lines with bytes >= 0x80 (Latin-1 text,
    /// truncated or complete UTF-8 sequences) in the 1-4 bytes before their
    /// newline, readers followed by ASCII data lines
    fn byte_script(&mut self) -> Vec<u8> {
        const TAILS: [&[u8]; 14] = [
            b"\xE9", b"\xE9a", b"\xE9ab", b"\xC3", b"\xE2\x82", b"\xF0\x9F\x98", b"\xF0", b"\x80",
            b"\xC3\xA9", b"\xE2\x82\xAC", b"\xF0\x9F\x98\x80", b"\xFF", b"\xE2\x82x", b"\xC3\xA9\xE9",
        ];
        let mut out: Vec<u8> = vec![];
        let n = 2 + self.r.below(4);
        for _ in 0..n {
            let k = self.k();
            let v = self.var();
            let tail = *self.r.pick(&TAILS);
            let mut line: Vec<u8> = match self.r.below(7) {
                0 => format!("read -r {v} # caf").into_bytes(),
                1 => format!("read {v} # ").into_bytes(),
                2 => format!("probe {k} # x").into_bytes(),
                3 => format!("probe {k} caf").into_bytes(),
                4 => format!("{{ read -r {v}; }} # ").into_bytes(),
                5 => "# ".to_string().into_bytes(),
                _ => format!("probe '{k} ").into_bytes(),
            };
            let quoted = line.starts_with(b"probe '");
            line.extend_from_slice(tail);
            if quoted {
                line.push(b'\'');
            }
            let reads = line.starts_with(b"read") || line.starts_with(b"{ read");
            out.extend_from_slice(&line);
            out.push(b'\n');
            if reads {
                out.extend_from_slice(format!("data {k}\nshow {v}\n").as_bytes());
            }
            if self.r.chance(1, 3) {
                out.extend_from_slice(format!("probe {k}z\n").as_bytes());
            }
        }
        match self.r.below(3) {
            0 => {
                out.extend_from_slice(b"slurp\nrest \xE9\xC3\n\xE2\x82");
            }
            1 => out.extend_from_slice(b"probe end"),
            _ => {}
        }
        out
    }
    /// a data line for `read`: valid UTF-8 with multi-byte characters (which
    /// chunk boundaries split), blanks, backslashes; sometimes a NUL byte
    fn mb_data_line(&mut self) -> Vec<u8> {
        const PIECES: [&[u8]; 12] = [
            b"caf\xC3\xA9", b"\xE2\x82\xAC", b"\xF0\x9F\x98\x80", b" ", b"a", b"\xC3\xA9\xC3\xA8", b"\\", b"  ",
            b"z\xE2\x82\xACz", b"\t", b"\xC2\xA0", b"b\xF0\x9F\x98\x80",
        ];
        let mut out = vec![];
        let n = 1 + self.r.below(5);
        // a NUL byte between two characters, never inside one
        let nul_at = if self.r.chance(1, 6) { self.r.below(n + 1) } else { n + 1 };
        for j in 0..n {
            if j == nul_at {
                out.push(0);
            }
            out.extend_from_slice(self.r.pick(&PIECES));
        }
        if nul_at == n {
            out.push(0);
        }
        out
    }
    /// readers on the shared input taking such lines
    fn mb_script(&mut self) -> (Vec<u8>, Vec<u8>) {
        let mut script: Vec<u8> = vec![];
        let mut data: Vec<u8> = vec![];
        let n = 1 + self.r.below(3);
        for _ in 0..n {
            let k = self.k();
            let v = self.var();
            let raw = if self.r.chance(2, 3) { "-r " } else { "" };
            let cmd = match self.r.below(3) {
                0 => format!("read {raw}{v}\n"),
                1 => format!("{{ read {raw}{v}; probe {k} $?; }}\n"),
                _ => format!("read {raw}{v}; probe {k}\n"),
            };
            let cmd = cmd.replace(" $?", "");
            script.extend_from_slice(cmd.as_bytes());
            let line = self.mb_data_line();
            // non-raw: a trailing backslash would continue onto the next line: fine too
            script.extend_from_slice(&line);
            script.push(b'\n');
            data.extend_from_slice(&line);
            data.push(b'\n');
            script.extend_from_slice(format!("show {v}\nprobe {k}z\n").as_bytes());
        }
        if self.r.chance(1, 3) {
            data.extend_from_slice(b"last \xC3\xA9");
        }
        (script, data)
    }
    /// `set -v` scripts: nothing else may write to standard error
    fn verbose_script(&mut self) -> String {
        let mut out = String::new();
        let pre = self.r.below(3);
        let post = 2 + self.r.below(5);
        for j in 0..pre + post {
            if j == pre {
                out.push_str("set -v; probe vmark\n");
            }
            let k = self.k();
            let v = self.var();
            match self.r.below(9) {
                0 | 1 => out.push_str(&format!("probe {k}\n")),
                2 => out.push_str(&format!("show {v}\n")),
                3 => out.push_str(&format!("{{\nprobe {k}\nshow {v}\n}}\n")),
                4 => out.push_str(&format!("hdoc <<E\nbody {k}\nE\n")),
                5 => out.push_str(&format!("if true; then\nprobe {k}\nfi\n")),
                6 => out.push_str("# comment\n\n"),
                7 => out.push_str(&format!("probe \\\n{k}\n")),
                _ => out.push_str(&format!("false || probe {k}; probe {k}b\n")),
            }
        }
        match self.r.below(4) {
            0 => out.push_str("probe last"),
            1 => out.push_str("probe x; exit 3\nprobe never\n"),
            _ => {}
        }
        out
    }
    /// `read -d X` with and without -r on the shared input, data with
    /// delimiters, backslashes and continuation lines, then commands that see
    /// what is left
    fn delim_script(&mut self) -> String {
        let mut out = String::new();
        let n = 1 + self.r.below(3);
        for _ in 0..n {
            let k = self.k();
            let v = self.var();
            let d = *self.r.pick(&[":", "x", "';'", "'\\'", "'\\'", "' '", "e", "b"]);
            let raw = if self.r.chance(1, 2) { "-r " } else { "" };
            match self.r.below(4) {
                0 => out.push_str(&format!("read {raw}-d {d} {v}\n")),
                1 => out.push_str(&format!("read -d {d} {raw}{v}; show {v}\n")),
                2 => out.push_str(&format!("{{\nread {raw}-d {d} {v}\n}}\n")),
                _ => out.push_str(&format!("read {raw}{v}\n")),
            }
            // data: a few short lines over an alphabet rich in delimiters and backslashes
            let len = 2 + self.r.below(14);
            for _ in 0..len {
                let c = *self.r.pick(&['a', 'b', 'x', 'e', ':', ';', '\\', '\\', ' ', '\n', 'a', ':']);
                out.push(c);
            }
            out.push('\n');
            out.push_str(&format!("show {v}\nprobe {k}\n"));
        }
        if self.r.chance(1, 2) {
            out.push_str("slurp\nleft:over\\\n");
        }
        out
    }
    /// an alias whose value has several lines: the lines come out of the
    /// lexer's pending buffer; the first changes what the later ones mean
    fn multiline_alias_script(&mut self) -> String {
        let mut out = String::new();
        let k = self.k();
        if self.r.chance(1, 3) {
            out.push_str(self.r.pick(&["set -o portable\n", "alias a1=probe\n", "alias a1=nosuchq\n"]));
        }
        let first = *self.r.pick(&[
            "set -o portable", "set +o portable", "alias a1=probe", "unalias a1", "alias a1=nosuchq", "probe f",
            "set -o portable; probe f",
        ]);
        let nlines = 1 + self.r.below(3);
        let mut value = first.to_string();
        for j in 0..nlines {
            let later = match self.r.below(8) {
                0 => format!("((probe {k}{j}); (probe {k}{j}b))"),
                1 => format!("case x in x) probe {k}{j} ;| esac"),
                2 => format!("a1 {k}{j}"),
                3 => format!("read -r v1"),
                4 => format!("probe {k}{j}"),
                5 => "set +o portable".to_string(),
                6 => "alias a1=probe".to_string(),
                _ => format!("a1 {k}{j}; ((probe {k}{j}c))"),
            };
            value.push('\n');
            value.push_str(&later);
        }
        out.push_str(&format!("alias two=\"{value}\"\n"));
        match self.r.below(4) {
            0 => out.push_str("two\n"),
            1 => out.push_str("two; probe same-line\n"),
            2 => out.push_str("probe before; two\n"),
            _ => out.push_str("two\ntwo\n"),
        }
        out.push_str(&format!("data {k}\nshow v1\na1 {k}z\n((probe {k}y))\nprobe {k}end\n"));
        out
    }
    fn script_lines(&mut self, max_items: usize) -> Vec<String> {
        let mut out = vec![];
        let n = 1 + self.r.below(max_items);
        for _ in 0..n {
            self.item(0, &mut out);
        }
        out
    }
}

fn join(lines: &[String], final_newline: bool) -> String {
    let mut s = lines.join("\n");
    if final_newline && !lines.is_empty() {
        s.push('\n');
    }
    s
}

fn random_sizes(r: &mut Rng, len: usize) -> Vec<usize> {
    let mut v = vec![];
    let mut left = len;
    let style = r.below(3);
    while left > 0 && v.len() < 64 {
        let n = match style {
            0 => 1 + r.below(3),
            1 => 1 + r.below(12),
            _ => r.below(40),
        };
        v.push(n);
        left = left.saturating_sub(n);
    }
    v
}

fn standard_feeds(r: &mut Rng, script: &str, extra_fifo: usize) -> Vec<Feed> {
    let n = script.len();
    let mut f = vec![Feed::File, Feed::Fifo(vec![1; n.min(200)], true), Feed::Fifo(vec![], true)];
    for _ in 0..extra_fifo {
        f.push(Feed::Fifo(random_sizes(r, n), r.chance(3, 4)));
    }
    f.push(Feed::CmdString);
    f.push(Feed::ScriptFile);
    f.push(Feed::Pieces(random_sizes(r, n)));
    if n >= 2 {
        // one cut, somewhere: very often in the middle of a line
        f.push(Feed::Pieces(vec![1 + r.below(n - 1)]));
    }
    f
}

/// Generation of scripts with nested read-eval loops (eval, dot).
const NESTED_STREAM: bool = true;

/// (script, data on a separate standard input, files)
const NESTED_CORPUS: [(&str, &str, &[(&str, &str)]); 12] = [
    ("eval 'probe a\nread -r v1\nshow v1'\nline1\nprobe b\n", "d1\nd2\n", &[]),
    (". /f1\nline1\nprobe b\n", "d1\nd2\n", &[("/f1", "probe a\nread -r v1\nshow v1\n")]),
    ("eval 'alias x=\"probe in\"\nx 1'\nx 2\n", "", &[]),
    ("eval 'alias x=\"probe in\"; x 1'\nx 2\n", "", &[]),
    ("eval 'probe a\n)\nprobe no'\nprobe no2\n", "", &[]),
    (". /f1\nprobe no2\n", "", &[("/f1", "probe a\nread v1\nfi\nprobe no\n")]),
    ("false; eval ''; probe st\nfalse; . /f1; probe st2\n", "", &[("/f1", "")]),
    (". /f1\nd1\nd2\nd3\nprobe end\n", "x1\nx2\nx3\n", &[("/f1", "read v1\n. /f2\nshow v1"), ("/f2", "read v2\neval 'read v1\nshow v2'\n")]),
    ("if eval 'read v1\nfalse'; then probe t; else probe e; fi\nd1\nshow v1\n", "q\n", &[]),
    ("eval 'exit 3\nprobe no'\nprobe no2\n", "", &[]),
    ("eval 'slurp'\nrest1\nrest2\n", "d1\n", &[]),
    (". /f1\nab:xy\nprobe z\n", "p:q\n", &[("/f1", "read -d : v1\nshow v1\n")]),
];

const BAD_LINES: [&str; 9] =
    [")", "fi", "probe z ;;", "}", "probe \"open", "hdoc <<E", "if true; then", "{ probe z", "probe z | | probe y"];

const CORPUS_BYTES: [&[u8]; 4] = [
    b"read x # caf\xE9\ndata line\nshow x\nprobe after\n",
    b"read -r v1 # \xE2\x82\nd1\nshow v1\nprobe \xF0\x9F\nprobe z # \xC3\xA9\nslurp\n\xE9\xE9\n",
    b"probe 'a\xE9'\n# \xF0\x9F\x98\x80\nread v1\nnext\nshow v1",
    b"{ read -r v2; } # \xC3\nX\nshow v2 # \xFF\n",
];

const CORPUS: [(&str, &str); 36] = [
    ("fn1() {\nprobe a\nread -r v1\n}\nprobe b\nread -r v1\ndata x\nshow v1\n", ""),
    ("fn2()\n{\nprobe a\n}\nprobe b; fn3() { probe c; }\n)\nprobe never\n", ""),
    ("read -r v1\nfn4() {\nprobe a\n}\nshow v1\n", "d\n"),
    ("read -d : v1\nab:ex\nshow v1\nprobe a\n", ""),
    ("read -d '\\' v1\nab\\ex\nshow v1\n", ""),
    ("read -r -d '\\' v1\nab\\ex\nshow v1\n", ""),
    ("read -d x v1\na\\xb\\\ncxd\nshow v1\nslurp\nrest\n", ""),
    ("read -r -d x v1; show v1\na\\xb\nshow v1\n", "in:put\n"),
    ("alias two=\"set -o portable\n((probe k))\"\ntwo\nprobe after\n", ""),
    ("set -o portable\nalias two=\"set +o portable\n((probe k))\nread -r v1\"\ntwo\ndata\nshow v1\n", "dd\n"),
    ("alias two=\"alias a1=probe\na1 k\nunalias a1\na1 l\"\ntwo; probe m\n", ""),
    ("alias two=\"probe a\nread -r v1\"\ntwo\ndata line\nshow v1\nprobe z", ""),
    ("probe a\n", ""),
    ("probe a", ""),
    ("", ""),
    ("\n\n# c\n", ""),
    ("probe a\nread -r v1\nprobe skipped\nshow v1\n{\nprobe b; read v2\n}\nlineY\nshow v2\nprobe c", "d1\nd2\n"),
    ("probe a\n)\nprobe b\n", ""),
    ("alias a1=\"probe A\"\na1 x\nalias lb=\"{\"\nlb probe y\n}\nprobe z", ""),
    ("alias a1='probe A'; a1 x\na1 y\n", ""),
    ("set -o portable\ncase x in x) probe K ;| esac\nprobe n", ""),
    ("set -o portable; case x in x) probe K ;| esac\nprobe n\n", ""),
    ("probe a\nslurp\nrest1\nrest2", "in1\nin2"),
    ("hdoc <<E\nab\nE\nprobe q; exit 3\nprobe never", ""),
    ("read v1\nab\\\nce\nshow v1\n(read v2; show v2)\n  v  w \nshow v2", "x\\\ny\nz\n"),
    ("read -r v1", "tail-no-newline"),
    ("read v1\nlast\\", ""),
    ("{\nslurp\n}\nq\n", "data"),
    ("probe \\\nk\nprobe l\n", ""),
    ("if true; then\nread -r v1\nfi\nfi\nshow v1\n", "D\n"),
    ("hdoc <<E; read -r v1\nbody\nE\nnext line\nshow v1\n", "D\n"),
    ("hdoc <<E\nunterminated\n", ""),
    ("read -r v1\n{\nprobe a\n}\n", ""),
    ("probe a; exit 4\n)\n", ""),
    ("(read -r v1; show v1; exit 5)\nx y\nshow v1\nprobe st\n", "dd\n"),
    ("alias lb='{'\nread -r v1\nlb probe a\n}\n", ""),
];

fn main() {
    let args = Args::parse();
    if let Some(s) = args.opt("script") {
        let s = s.replace("\\n", "\n");
        println!("{:?}", build_table(s.as_bytes()).map(|t| (t.states, t.entries)));
        for feed in [Feed::File, Feed::Fifo(vec![1; s.len()], true), Feed::Fifo(vec![3, 5, 1000], false), Feed::CmdString, Feed::ScriptFile] {
            let o = run(s.as_bytes(), &feed, b"data1\ndata2\n");
            println!("{:?}\n  {:?}", feed, o);
        }
        return;
    }
    let mut rng = Rng::new(args.seed);
    let mut w = CasesWriter::new(&args, "Yv.C18.Run", 25);

    // 1. corpus
    for s in CORPUS_BYTES.iter() {
        let mut r = rng.fork(2);
        let feeds = standard_feeds(&mut r, &"x".repeat(s.len()), 2);
        if !emit_bytes(&mut w, s, "d1\nd2\n", &feeds, "corpus", &[]) {
            eprintln!("corpus script outside the model: {s:?}");
            w.push("(mkCase [0%N] nil nil nil nil 0%nat nil nil)", "{\"stream\":\"corpus\",\"outside_model\":true}", &[], None);
        }
    }
    for (s, d) in CORPUS.iter() {
        let mut r = rng.fork(1);
        let feeds = standard_feeds(&mut r, s, 2);
        if !emit(&mut w, s, d, &feeds, "corpus", &[]) {
            // must not happen: make it visible (verdict 99) instead of checking nothing
            eprintln!("corpus script outside the model: {s:?}");
            w.push(
                "(mkCase [0%N] nil nil nil nil 0%nat nil nil)",
                &format!("{{\"stream\":\"corpus\",\"outside_model\":{}}}", json_str(s)),
                &[],
                None,
            );
        }
    }

    // 2. random scripts, all ways of feeding
    let n_random = args.scale(260, 4000);
    for i in 0..n_random {
        let mut r = rng.fork(1000 + i as u64);
        let lines = Gen { r: &mut r, key: 0 }.script_lines(if args.thorough() { 6 } else { 5 });
        let script = join(&lines, r.chance(4, 5));
        let data = join(&Gen { r: &mut r, key: 100 }.script_lines(1).iter().map(|l| l.replace("probe", "dp")).collect::<Vec<_>>(), r.chance(1, 2));
        let feeds = standard_feeds(&mut r, &script, 2);
        emit(&mut w, &script, &data, &feeds, "random", &[]);
    }

    // 2b. alias definitions / option changes that affect how later lines are parsed
    let n_state = args.scale(80, 1000);
    for i in 0..n_state {
        let mut r = rng.fork(300_000 + i as u64);
        let lines = Gen { r: &mut r, key: 0 }.stateful_lines();
        let script = join(&lines, r.chance(4, 5));
        let feeds = vec![
            Feed::File,
            Feed::Fifo(random_sizes(&mut r, script.len()), true),
            Feed::CmdString,
            Feed::ScriptFile,
        ];
        emit(&mut w, &script, "d1\nd2\n", &feeds, "aliases-and-options", &[]);
    }

    // 2c. bytes that are not UTF-8 / multi-byte characters next to the newline
    let n_bytes = args.scale(70, 600);
    for i in 0..n_bytes {
        let mut r = rng.fork(700_000 + i as u64);
        let script = Gen { r: &mut r, key: 0 }.byte_script();
        let n = script.len();
        let feeds = vec![
            Feed::File,
            Feed::Fifo(vec![1; n.min(200)], true),
            Feed::Fifo(random_sizes(&mut r, n), true),
            Feed::CmdString,
            Feed::ScriptFile,
        ];
        emit_bytes(&mut w, &script, "d1\nd2\n", &feeds, "non-utf8-bytes", &[]);
    }

    // 2c'. multi-byte characters and NUL bytes in what the read built-in takes
    let n_mb = args.scale(60, 500);
    for i in 0..n_mb {
        let mut r = rng.fork(750_000 + i as u64);
        let (script, data) = Gen { r: &mut r, key: 0 }.mb_script();
        let n = script.len();
        // shared descriptor: the data lines are part of the script
        let feeds = vec![Feed::File, Feed::Fifo(vec![1; n.min(200)], true), Feed::Fifo(random_sizes(&mut r, n), true)];
        emit_raw(&mut w, &script, b"", &feeds, "read-multibyte-data", &[]);
        // separate descriptor: the same readers without the data lines in the script
        let plain: Vec<u8> = split_lines(&script)
            .into_iter()
            .filter(|l| l.starts_with(b"read") || l.starts_with(b"{ read") || l.starts_with(b"show") || l.starts_with(b"probe"))
            .flatten()
            .collect();
        emit_raw(&mut w, &plain, &data, &[Feed::CmdString, Feed::ScriptFile], "read-multibyte-data", &[]);
    }

    // 2c''. set -v: every line is echoed once, before its commands run
    let n_v = args.scale(40, 400);
    for i in 0..n_v {
        let mut r = rng.fork(770_000 + i as u64);
        let script = Gen { r: &mut r, key: 0 }.verbose_script();
        let n = script.len();
        let feeds = vec![
            Feed::File,
            Feed::Fifo(vec![1; n.min(200)], true),
            Feed::Fifo(random_sizes(&mut r, n), true),
            Feed::CmdString,
            Feed::ScriptFile,
        ];
        ECHO_ON.with(|e| e.set(true));
        emit(&mut w, &script, "d1\nd2\nd3\n", &feeds, "set-v", &[]);
        ECHO_ON.with(|e| e.set(false));
    }

    // 2d. read -d DELIM on the shared input
    let n_delim = args.scale(70, 600);
    for i in 0..n_delim {
        let mut r = rng.fork(800_000 + i as u64);
        let script = Gen { r: &mut r, key: 0 }.delim_script();
        let n = script.len();
        let feeds = vec![
            Feed::File,
            Feed::Fifo(vec![1; n.min(200)], true),
            Feed::Fifo(random_sizes(&mut r, n), r.chance(3, 4)),
            Feed::CmdString,
        ];
        emit(&mut w, &script, "a:b\\:c\\\nd e\n", &feeds, "read-with-delimiter", &[]);
    }

    // 2e. multi-line aliases: commands parsed out of the lexer's pending buffer
    let n_ml = args.scale(60, 500);
    for i in 0..n_ml {
        let mut r = rng.fork(900_000 + i as u64);
        let script = Gen { r: &mut r, key: 0 }.multiline_alias_script();
        let feeds = vec![
            Feed::File,
            Feed::Fifo(random_sizes(&mut r, script.len()), true),
            Feed::CmdString,
            Feed::ScriptFile,
        ];
        emit(&mut w, &script, "d1\nd2\n", &feeds, "multi-line-alias", &[]);
    }

    // 2g. nested read-eval loops: eval / dot up to depth 3 competing for standard input
    if NESTED_STREAM {
        for (s, d, files) in NESTED_CORPUS.iter() {
            let mut r = rng.fork(3);
            FILES.with(|f| *f.borrow_mut() = files.iter().map(|(p, c)| (p.to_string(), c.as_bytes().to_vec())).collect());
            let feeds = standard_feeds(&mut r, s, 2);
            if !emit(&mut w, s, d, &feeds, "nested-loops", &[]) {
                eprintln!("nested corpus script outside the model: {s:?}");
                w.push(
                    "(mkCase [0%N] nil nil nil nil 0%nat nil nil)",
                    &format!("{{\"stream\":\"nested-loops\",\"outside_model\":{}}}", json_str(s)),
                    &[],
                    None,
                );
            }
            FILES.with(|f| f.borrow_mut().clear());
        }
        let n_nested = args.scale(150, 2500);
        for i in 0..n_nested {
            let mut r = rng.fork(1_200_000 + i as u64);
            let (script, files) = Gen { r: &mut r, key: 0 }.nested_script();
            FILES.with(|f| *f.borrow_mut() = files);
            let feeds = vec![
                Feed::File,
                Feed::Fifo(vec![1; script.len().min(200)], true),
                Feed::Fifo(random_sizes(&mut r, script.len()), true),
                Feed::CmdString,
                Feed::ScriptFile,
            ];
            emit(&mut w, &script, "d1\nd2\nd3\nd4\n", &feeds, "nested-loops", &[]);
            FILES.with(|f| f.borrow_mut().clear());
        }
    }

    // 2f. an input function returning the script cut at every byte position
    {
        let cut_scripts: Vec<String> = CORPUS
            .iter()
            .map(|(s, _)| s.to_string())
            .filter(|s| s.is_ascii() && s.len() >= 2 && s.len() <= 120)
            .collect();
        let take = args.scale(12, cut_scripts.len());
        for (i, script) in cut_scripts.iter().take(take).enumerate() {
            let mut r = rng.fork(950_000 + i as u64);
            let n = script.len();
            let mut feeds = vec![Feed::CmdString];
            for p in 1..n {
                feeds.push(Feed::Pieces(vec![p]));
            }
            feeds.push(Feed::Pieces(vec![1; n]));
            for _ in 0..3 {
                feeds.push(Feed::Pieces(random_sizes(&mut r, n)));
            }
            emit(&mut w, script, "d1\nd2\nd3\n", &feeds, "input-cut-everywhere", &[]);
        }
    }

    // 3. a syntax error planted at every later line of a script
    let n_plant = args.scale(25, 350);
    for i in 0..n_plant {
        let mut r = rng.fork(500_000 + i as u64);
        let lines = Gen { r: &mut r, key: 0 }.script_lines(4);
        let bad = r.pick(&BAD_LINES).to_string();
        for p in 1..=lines.len() {
            let mut l = lines.clone();
            l.insert(p, bad.clone());
            let script = join(&l, r.chance(4, 5));
            let feeds = vec![Feed::File, Feed::Fifo(random_sizes(&mut r, script.len()), true), Feed::CmdString];
            emit(&mut w, &script, "d1\nd2\n", &feeds, "planted-syntax-error", &[]);
        }
    }

    // 4. every chunking of small scripts (thorough)
    if args.thorough() {
        let small = ["slurp\nxy\n", "read v1\nzz", "{\nslurp\n}\nq", "probe a\n)", "read v1\na\\\nb\n", "hdoc <<E\nE\nq\n"];
        for s in small.iter() {
            let n = s.len();
            let mut feeds = vec![Feed::File];
            for mask in 0u32..(1 << (n - 1)) {
                // bit i set: a chunk boundary after byte i
                let mut sizes = vec![];
                let mut cur = 1;
                for i in 0..n - 1 {
                    if mask & (1 << i) != 0 {
                        sizes.push(cur);
                        cur = 1;
                    } else {
                        cur += 1;
                    }
                }
                sizes.push(cur);
                feeds.push(Feed::Fifo(sizes, true));
                if feeds.len() >= 65 {
                    emit(&mut w, s, "", &feeds, "every-chunking", &[]);
                    feeds = vec![Feed::File];
                }
            }
            if feeds.len() > 1 {
                emit(&mut w, s, "", &feeds, "every-chunking", &[]);
            }
        }
    }

    w.finish(
        "scripts of probe/read/show/slurp/hdoc/alias/set -o portable/exit lines, groups, if, case, \
         subshells, here-documents, continuation lines, data lines and planted syntax errors; each fed \
         as file, pipe in several chunkings, -c string and script file; non-trivial = the script has a \
         multi-line command, a command reading standard input, a syntax error somewhere or more than \
         one parser state; distinct = by script text",
    );
}
