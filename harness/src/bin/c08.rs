//! C08 — subshell isolation.
//!
//! A script prepares a parent state, takes a snapshot, runs MUTATORS inside a
//! subshell of some kind (snapshots at entry and at the end of the body), and
//! takes a snapshot after it.  Snapshots are taken by the `snap` built-in from
//! the real `Env` and the virtual process record.

#[path = "c13_sched.rs"]
#[allow(dead_code)]
mod sched;

use std::cell::RefCell;
use std::collections::BTreeMap;
use std::time::Duration;
use yash_env::system::concurrency::Sleep as _;
use yash_env::builtin::{Builtin, Type};
use yash_env::option::State as OptState;
use yash_env::semantics::{ExitStatus, Field};
use yash_env::system::r#virtual::SIGINT;
use yash_env::system::{Disposition, FdFlag, GetCwd as _, GetPid as _, Umask as _};
use yash_env::trap::{Action, Condition};
use yash_env::variable::Scope;
use yv_harness::cli::Args;
use yv_harness::out::CasesWriter;
use yv_harness::rng::Rng;
use yv_harness::vsh::{BuiltinFuture, RunOpts, State, VEnv, run_shell};
use yv_harness::{coq, json_str};

#[derive(Clone, Debug, Default, PartialEq)]
struct Snap {
    vars: Vec<String>,
    pos: Vec<String>,
    funs: Vec<String>,
    aliases: Vec<String>,
    opts: Vec<String>,
    cwd: String,
    umask: u32,
    traps: Vec<(String, u8, String, u8)>,
    fds: Vec<(i32, u64, bool)>,
    /// outside the property's snapshot (CEnv cases): jobs (pid, owned), $!, frame codes
    jobs: Vec<(i32, bool)>,
    last_async: i32,
    frames: Vec<u64>,
}

thread_local! {
    static SNAPS: RefCell<Vec<(String, i32, Snap)>> = const { RefCell::new(Vec::new()) };
    static STATE: RefCell<Option<State>> = const { RefCell::new(None) };
    static OFD_IDS: RefCell<BTreeMap<usize, u64>> = const { RefCell::new(BTreeMap::new()) };
}

const CONDS: [&str; 7] = ["EXIT", "HUP", "INT", "QUIT", "TERM", "USR1", "USR2"];

thread_local! {
    /// weak references to every open file description that was given an identity: the allocation
    /// stays reserved (the description itself is dropped as usual), so an address is never reused
    static KEEP: RefCell<Vec<Box<dyn std::any::Any>>> = const { RefCell::new(Vec::new()) };
    /// descriptor-trace stream: the initial table of the process created by the n-th successful fork
    static FORKS: RefCell<Vec<(usize, Vec<(i32, u64, bool)>)>> = const { RefCell::new(Vec::new()) };
}

fn keep_alloc<T: 'static>(rc: &std::rc::Rc<T>) {
    let weak = std::rc::Rc::downgrade(rc);
    KEEP.with(|k| k.borrow_mut().push(Box::new(weak)));
}

fn ofd_id(ptr: usize) -> u64 {
    OFD_IDS.with(|m| {
        let mut m = m.borrow_mut();
        let n = m.len() as u64 + 1;
        *m.entry(ptr).or_insert(n)
    })
}

fn take_snapshot(env: &mut VEnv) -> Snap {
    let mut s = Snap::default();
    for (name, var) in env.variables.iter(Scope::Global) {
        // LINENO has no stored value; everything else is state.
        if name == "LINENO" {
            continue;
        }
        s.vars.push(format!(
            "{}={:?}{}{}",
            name,
            var.value,
            if var.is_exported { " x" } else { "" },
            if var.read_only_location.is_some() { " r" } else { "" }
        ));
    }
    s.vars.sort();
    s.pos = env.variables.positional_params().values.clone();
    for f in env.functions.iter() {
        s.funs.push(format!(
            "{}(){}{}",
            f.name,
            f.body,
            if f.read_only_location.is_some() { " r" } else { "" }
        ));
    }
    s.funs.sort();
    for a in env.aliases.iter() {
        s.aliases.push(format!("{}={}{}", a.0.name, a.0.replacement, if a.0.global { " g" } else { "" }));
    }
    s.aliases.sort();
    for o in yash_env::option::Option::iter() {
        if env.options.get(o) == OptState::On {
            s.opts.push(format!("{}", o));
        }
    }
    s.cwd = env.system.getcwd().map(|p| p.to_string_lossy().into_owned()).unwrap_or_default();
    let old = env.system.umask(yash_env::system::Mode::empty());
    env.system.umask(old);
    s.umask = old.bits() as u32;
    let pid = env.system.getpid();
    STATE.with(|st| {
        let st = st.borrow();
        let st = st.as_ref().unwrap().borrow();
        let proc = &st.processes[&pid];
        for name in CONDS {
            let (cond, disp) = if name == "EXIT" {
                (Condition::Exit, 0)
            } else {
                use yash_env::system::Signals as _;
                let num = env.system.str2sig(name).unwrap();
                let d = match proc.disposition(num) {
                    Disposition::Default => 0,
                    Disposition::Ignore => 1,
                    Disposition::Catch => 2,
                };
                (Condition::Signal(num), d)
            };
            let (cur, _parent) = env.traps.get_state(cond);
            let (act, cmd) = match cur.map(|c| &c.action) {
                None | Some(Action::Default) => (0, String::new()),
                Some(Action::Ignore) => (1, String::new()),
                Some(Action::Command(c)) => (2, c.to_string()),
            };
            s.traps.push((name.to_string(), act, cmd, disp));
        }
        for (fd, body) in proc.fds() {
            let ptr = std::rc::Rc::as_ptr(&body.open_file_description) as usize;
            keep_alloc(&body.open_file_description);
            s.fds.push((fd.0, ofd_id(ptr), body.flags.contains(FdFlag::CloseOnExec)));
        }
    });
    let _ = SIGINT;
    for (_, job) in env.jobs.iter() {
        s.jobs.push((job.pid.0, job.is_owned));
    }
    s.last_async = env.jobs.last_async_pid().0;
    for f in env.stack.iter() {
        use yash_env::stack::Frame;
        s.frames.push(match f {
            Frame::Loop => 0,
            Frame::Subshell => 1,
            Frame::Condition => 2,
            Frame::Builtin(_) => 3,
            Frame::DotScript => 4,
            Frame::Trap(_) => 5,
            _ => 6,
        });
    }
    // the frame of the `snap` built-in itself
    if s.frames.last() == Some(&3) {
        s.frames.pop();
    }
    s
}

fn xview_coq(s: &Snap) -> String {
    let jobs: Vec<String> =
        s.jobs.iter().map(|(p, o)| format!("({}, {})", coq::n(*p as u64), coq::b(*o))).collect();
    let frames: Vec<String> = s.frames.iter().map(|c| coq::n(*c)).collect();
    format!(
        "({}, {}, {})",
        if jobs.is_empty() { "(@nil (N * bool))".to_string() } else { coq::list(&jobs) },
        coq::n(s.last_async.max(0) as u64),
        if frames.is_empty() { "(@nil N)".to_string() } else { coq::list(&frames) }
    )
}

fn snap_main(env: &mut VEnv, args: Vec<Field>) -> BuiltinFuture<'_> {
    Box::pin(async move {
        let status = env.exit_status;
        let label = args.first().map(|f| f.value.clone()).unwrap_or_default();
        let pid = env.system.getpid().0;
        let s = take_snapshot(env);
        SNAPS.with(|v| v.borrow_mut().push((label, pid, s)));
        // keep $? as it was so that taking a snapshot is not itself a mutation
        ExitStatus(status.0).into()
    })
}

/// `nap`: lets one millisecond of virtual time pass (a blocking point, so the
/// scheduler can run another process in between).
fn nap_main(env: &mut VEnv, _args: Vec<Field>) -> BuiltinFuture<'_> {
    Box::pin(async move {
        let status = env.exit_status;
        env.system.sleep(Duration::from_millis(1)).await;
        ExitStatus(status.0).into()
    })
}

/// Wraps the simulated OS's executor so that the `fail_at`-th fork fails
/// (fault injection: "process creation fails at a particular point").
#[derive(Debug)]
struct FlakyExecutor {
    inner: std::rc::Rc<dyn yash_env::system::r#virtual::Executor>,
    count: std::cell::Cell<usize>,
    fail_at: usize,
}

impl yash_env::system::r#virtual::Executor for FlakyExecutor {
    fn spawn(
        &self,
        task: std::pin::Pin<Box<dyn std::future::Future<Output = ()>>>,
    ) -> Result<(), Box<dyn std::error::Error>> {
        let n = self.count.get();
        self.count.set(n + 1);
        if n == self.fail_at {
            return Err("injected fork failure".into());
        }
        self.inner.spawn(task)
    }
}

fn snap_coq(s: &Snap) -> String {
    let strs = |l: &Vec<String>| coq::list(&l.iter().map(|x| coq::s(x)).collect::<Vec<_>>());
    let traps: Vec<String> = s
        .traps
        .iter()
        .map(|(c, a, cmd, d)| {
            format!(
                "(mkTrap {} {} {} {})",
                coq::s(c),
                ["ADefault", "AIgnore", "ACommand"][*a as usize],
                coq::s(cmd),
                coq::n(*d as u64)
            )
        })
        .collect();
    let fds: Vec<String> = s
        .fds
        .iter()
        .map(|(fd, id, ce)| format!("({}, ({}, {}))", coq::n(*fd as u64), coq::n(*id), coq::b(*ce)))
        .collect();
    format!(
        "(mkSnap {} {} {} {} {} {} {} {} {})",
        strs(&s.vars),
        strs(&s.pos),
        strs(&s.funs),
        strs(&s.aliases),
        strs(&s.opts),
        coq::s(&s.cwd),
        coq::n(s.umask as u64),
        coq::list(&traps),
        coq::list(&fds)
    )
}

fn snap_json(s: &Snap) -> String {
    format!(
        "{{\"vars\":{},\"pos\":{},\"funs\":{},\"aliases\":{},\"opts\":{},\"cwd\":{},\"umask\":{},\"traps\":{},\"fds\":{}}}",
        yv_harness::json_str_list(&s.vars),
        yv_harness::json_str_list(&s.pos),
        yv_harness::json_str_list(&s.funs),
        yv_harness::json_str_list(&s.aliases),
        yv_harness::json_str_list(&s.opts),
        json_str(&s.cwd),
        s.umask,
        json_str(&format!("{:?}", s.traps)),
        json_str(&format!("{:?}", s.fds))
    )
}

const KINDS: [&str; 6] = ["KParen", "KCmdSubst", "KPipeFirst", "KPipeLast", "KAsync", "KPipeMiddle"];

/// `long`: use pipelines of three or four commands instead of two.
fn wrap(kind: usize, body: &str, long: bool) -> String {
    match (kind, long) {
        (0, _) => format!("( {body} )"),
        (1, _) => format!(": $( {body} )"),
        (2, false) => format!("{{ {body} ; }} | cat"),
        (2, true) => format!("{{ {body} ; }} | cat | cat | cat"),
        (3, false) => format!("true | {{ {body} ; }}"),
        (3, true) => format!("true | cat | {{ {body} ; }}"),
        (4, _) => format!("{{ {body} ; }} & wait"),
        (_, false) => format!("true | {{ {body} ; }} | cat"),
        (_, true) => format!("true | cat | {{ {body} ; }} | cat"),
    }
}

const SETUPS: [&str; 25] = [
    "v1=one",
    "v2='two words'; export v2",
    "v3=three; readonly v3",
    "v4=(a b c)",
    "f() { probe f; }",
    "g() { f; probe g; }; typeset -fr g",
    "alias a1='probe alias1'",
    "alias G1=global",
    "set -o noglob",
    "set -u",
    "set -- p1 'p 2' p3",
    "mkdir -p /work/sub; cd /work",
    "umask 027",
    "trap 'probe usr1' USR1",
    "trap '' USR2",
    "trap 'probe exit' EXIT",
    "trap 'probe int' INT",
    "trap '' QUIT",
    "trap 'probe term' TERM",
    "exec 3>/tmp/out3",
    "exec 4</tmp/in4",
    "exec 5>&1",
    "exec 20>/tmp/out20",
    "ulimit -n 14",
    "true &",
];
/// index of the set-up command that forks (left out where forks are counted)
const FORKING_SETUP: usize = 24;

const MUTATORS: [&str; 38] = [
    "v1=changed",
    "newvar=1",
    "unset v1",
    "export v1",
    "readonly v1",
    "v2=again",
    "unset v2",
    "v4=(x y)",
    "IFS=:",
    "PATH=/nowhere",
    "f() { probe f2; }",
    "h() { :; }",
    "unset -f f",
    "typeset -fr f",
    "alias a1='probe changed'",
    "alias new=x",
    "unalias a1",
    "unalias -a",
    "set -o noglob",
    "set +o noglob",
    "set -e",
    "set +u",
    "set -C",
    "set -- q1 q2",
    "shift",
    "set --",
    "cd /tmp",
    "cd /work/sub",
    "umask 077",
    "umask 000",
    "trap 'probe changed' USR1",
    "trap - USR2",
    "trap '' TERM",
    "trap 'probe x' EXIT",
    "exec 3>&-",
    "exec 6>/tmp/out6",
    "exec 0</dev/null",
    "eval 'v1=evaled; alias e=1'",
];

struct Scenario {
    kind: usize,
    setups: Vec<usize>,
    mutators: Vec<usize>,
    nested_in_function: bool,
    /// pipelines of three or four commands
    long: bool,
    /// the whole experiment (set-up included) runs inside an outer subshell, so
    /// that the "parent" is itself a subshell with traps of its own
    outer_subshell: bool,
    /// /dev/tty exists
    tty: bool,
    /// 0 = the default executor; k > 0 = schedule-controlled run with policy k
    /// and blocking points (`nap`) between the mutators; the parent takes
    /// snapshots while the child is under way
    sched: u64,
    /// fault injection: the fork of the subshell under test fails (that ends the
    /// non-interactive shell; its EXIT trap takes the last snapshot); only
    /// before/after are judged
    fork_fails: bool,
}

fn script(sc: &Scenario) -> String {
    let mut lines = vec!["mkdir -p /tmp /work; echo data >/tmp/in4".to_string()];
    let mut inner = vec![];
    for s in &sc.setups {
        inner.push(SETUPS[*s].to_string());
    }
    let muts: Vec<&str> = sc.mutators.iter().map(|m| MUTATORS[*m]).collect();
    let body = if sc.sched > 0 {
        format!("snap entry; nap; {}; nap; snap childend", muts.join("; nap; "))
    } else {
        format!("snap entry; {}; snap childend", muts.join("; "))
    };
    let mut test = wrap(sc.kind, &body, sc.long);
    if sc.sched > 0 && sc.kind == 4 {
        // asynchronous list: the parent goes on while the child runs
        test = test.replace("& wait", "& snap mid1; nap; snap mid2; nap; nap; snap mid3; wait");
    }
    if sc.fork_fails {
        // The shell is not interactive, so the failed fork ends it; the EXIT
        // trap takes the parent's last snapshot.
        inner.push("trap 'snap after' EXIT".to_string());
        inner.push("snap before".to_string());
        inner.push(test);
    } else if sc.nested_in_function {
        inner.push(format!("tester() {{ snap before; {test}; snap after; }}"));
        inner.push("tester".to_string());
    } else {
        inner.push("snap before".to_string());
        inner.push(test);
        inner.push("snap after".to_string());
    }
    if sc.outer_subshell && !sc.fork_fails {
        // aliases defined on earlier lines of the same compound command are not
        // yet in effect when it is parsed; that does not matter here.
        lines.push("(".to_string());
        lines.extend(inner);
        lines.push(")".to_string());
    } else {
        lines.extend(inner);
    }
    lines.join("\n")
}

fn run(sc: &Scenario, w: &mut CasesWriter) {
    let text = script(sc);
    let tty = sc.tty;
    SNAPS.with(|v| v.borrow_mut().clear());
    OFD_IDS.with(|m| m.borrow_mut().clear());
    KEEP.with(|k| k.borrow_mut().clear());
    let fork_fails = sc.fork_fails;
    let setup = move |env: &mut VEnv, state: &State| {
        STATE.with(|s| *s.borrow_mut() = Some(state.clone()));
        if fork_fails {
            // the set-up lines fork nothing, so fork number 0 is the subshell under test
            let inner = state.borrow().executor.clone().unwrap();
            state.borrow_mut().executor = Some(std::rc::Rc::new(FlakyExecutor {
                inner,
                count: std::cell::Cell::new(0),
                fail_at: 0,
            }));
        }
        if tty {
            yash_env::test_helper::stub_tty(state);
        }
        env.builtins.insert("snap", Builtin::new(Type::Mandatory, snap_main));
        env.builtins.insert("nap", Builtin::new(Type::Mandatory, nap_main));
        // mkdir stand-in
        env.builtins.insert("mkdir", Builtin::new(Type::Mandatory, mkdir_main));
    };
    let argv = vec!["-c".into(), text.clone()];
    let opts = RunOpts { argv, ..Default::default() };
    let out = if sc.sched == 0 || sc.fork_fails {
        run_shell(opts, setup).0
    } else {
        let r = Rng::new(sc.sched);
        let policy = match sc.sched % 5 {
            0 => sched::Policy::First,
            1 => sched::Policy::Last,
            2 => sched::Policy::Random(r),
            3 => sched::Policy::MainLast(r),
            _ => sched::Policy::MainFirst(r),
        };
        w.count(&format!("sched-policy:{}", sc.sched % 5));
        sched::run_shell_sched(opts, setup, policy, 200_000).0
    };
    let snaps = SNAPS.with(|v| std::mem::take(&mut *v.borrow_mut()));
    // the parent is the process that took the "before" snapshot; the child is
    // any other process
    let parent = snaps.iter().find(|(l, _, _)| l == "before").map(|(_, p, _)| *p);
    let get = |label: &str, in_parent: bool| {
        snaps
            .iter()
            .find(|(l, p, _)| l == label && (Some(*p) == parent) == in_parent)
            .map(|(_, _, s)| s.clone())
    };
    let (before, entry, childend, after) =
        (get("before", true), get("entry", false), get("childend", false), get("after", true));
    w.count(&format!("kind:{}", KINDS[sc.kind]));
    for m in &sc.mutators {
        w.count(&format!("mut:{}", MUTATORS[*m].split_whitespace().next().unwrap()));
    }
    if sc.fork_fails {
        w.count("fork-failure-injected");
        if let (Some(before), Some(after)) = (before.clone(), after.clone()) {
            // The child never ran.  The case is encoded with the parent's own
            // snapshot as the entry view (kind KParen) and a marked end state,
            // so that only "parent before = parent after" is judged.
            // stand-in for the entry view: the parent's state with command
            // traps reset, as a real child would see it
            let mut fake_entry = before.clone();
            for t in fake_entry.traps.iter_mut() {
                if t.1 == 2 {
                    *t = (t.0.clone(), 0, String::new(), 0);
                }
            }
            let mut marked = fake_entry.clone();
            marked.vars.push("<fork failed>".into());
            let term = format!(
                "(CSnap (KParen, {}, {}, {}, {}))",
                snap_coq(&before),
                snap_coq(&fake_entry),
                snap_coq(&marked),
                snap_coq(&after)
            );
            let json = format!(
                "{{\"script\":{},\"fault\":\"fork number 0 fails; the EXIT trap takes the last snapshot\",\"before\":{},\"after\":{},\"stderr\":{}}}",
                json_str(&text),
                snap_json(&before),
                snap_json(&after),
                json_str(&out.stderr)
            );
            w.push(&term, &json, &[], Some(format!("{text}#forkfail")));
        } else {
            if std::env::var("C08_DEBUG").is_ok() {
                eprintln!("forkfail: labels={:?} status={} stderr={} panicked={:?} deadlock={} script=\n{}", snaps.iter().map(|(l,p,_)| format!("{l}@{p}")).collect::<Vec<_>>(), out.status, out.stderr, out.panicked, out.deadlock, text);
            }
            w.count("skipped:missing-snapshot");
        }
        return;
    }
    let (Some(before), Some(entry), Some(after)) = (before, entry, after) else {
        // e.g. the body aborted before its first snapshot: not a case we can judge
        w.count("skipped:missing-snapshot");
        if out.panicked.is_some() {
            w.count("skipped:panic");
        }
        return;
    };
    // A mutator may legitimately end the subshell early (errexit, readonly
    // assignment error): then the entry view stands in for the end view and
    // the case is only judged for leaks and for the entry view.
    let ended_early = childend.is_none();
    if childend.as_ref() == Some(&entry) {
        // the mutators had no effect in the child (e.g. `set +o noglob` when it
        // was off): nothing could leak, the case says nothing
        w.count("skipped:mutators-had-no-effect");
        return;
    }
    let mut childend = childend.unwrap_or_else(|| entry.clone());
    if ended_early {
        w.count("child-ended-early");
        // make the vacuity test pass: mark the end state as different
        childend.vars.push("<ended early>".into());
    }
    let term = format!(
        "(CSnap ({}, {}, {}, {}, {}))",
        KINDS[sc.kind],
        snap_coq(&before),
        snap_coq(&entry),
        snap_coq(&childend),
        snap_coq(&after)
    );
    let json = format!(
        "{{\"script\":{},\"before\":{},\"entry\":{},\"childend\":{},\"after\":{},\"stderr\":{}}}",
        json_str(&text),
        snap_json(&before),
        snap_json(&entry),
        snap_json(&childend),
        snap_json(&after),
        json_str(&out.stderr)
    );
    let nontrivial = entry != childend && !ended_early;
    w.push(&term, &json, &[], if nontrivial { Some(text.clone()) } else { None });
    // the part of the entry view outside the snapshot: jobs, $!, frames
    {
        let term = format!("(CEnv {} {} {})", KINDS[sc.kind], xview_coq(&before), xview_coq(&entry));
        let json = format!(
            "{{\"script\":{},\"entry_view\":\"jobs/$!/frames\",\"before\":{},\"entry\":{}}}",
            json_str(&text),
            json_str(&format!("jobs {:?} last {} frames {:?}", before.jobs, before.last_async, before.frames)),
            json_str(&format!("jobs {:?} last {} frames {:?}", entry.jobs, entry.last_async, entry.frames))
        );
        w.count("env:entry-view");
        w.count(&format!("env:parent-jobs:{}", before.jobs.len()));
        w.count(&format!("env:parent-frames:{}", before.frames.len()));
        w.push(&term, &json, &[], if before.jobs.is_empty() { None } else { Some(format!("{text}#env")) });
    }
    // snapshots the parent took while the child was under way: same oracle
    for label in ["mid1", "mid2", "mid3"] {
        if let Some(mid) = get(label, true) {
            w.count("mid-snapshot");
            let term = format!(
                "(CSnap ({}, {}, {}, {}, {}))",
                KINDS[sc.kind],
                snap_coq(&before),
                snap_coq(&entry),
                snap_coq(&childend),
                snap_coq(&mid)
            );
            let json = format!(
                "{{\"script\":{},\"parent_snapshot\":{},\"before\":{},\"after\":{}}}",
                json_str(&text),
                json_str(label),
                snap_json(&before),
                snap_json(&mid)
            );
            w.push(&term, &json, &[], Some(format!("{text}#{label}")));
        }
    }
}

// ---- descriptor-trace stream ---------------------------------------------------
//
// One construct (a pipeline of N commands, or a command substitution) is run on
// a parent whose descriptor table has a chosen shape, optionally under a soft
// limit on descriptors (so that pipe() fails with EMFILE at some stage) or with
// the fork of stage k failing.  Observed: the parent's table before and after,
// the parent's table at every successful fork (= the initial table of the new
// process, read when that process is polled for the first time), every child's
// table after its rewiring (`snap eK` is the first command of stage K).  Coq
// evaluates the oracle on these and compares them with the model's trace.

/// Executor wrapper of the descriptor-trace stream: fails the `fail_at`-th fork;
/// every other new process records its initial descriptor table.
struct TraceExecutor {
    inner: std::rc::Rc<dyn yash_env::system::r#virtual::Executor>,
    state: std::rc::Weak<RefCell<yash_env::system::r#virtual::SystemState>>,
    main_pid: yash_env::job::Pid,
    count: std::cell::Cell<usize>,
    ok_count: std::cell::Cell<usize>,
    fail_at: Option<usize>,
}

impl std::fmt::Debug for TraceExecutor {
    fn fmt(&self, f: &mut std::fmt::Formatter<'_>) -> std::fmt::Result {
        write!(f, "TraceExecutor")
    }
}

impl yash_env::system::r#virtual::Executor for TraceExecutor {
    fn spawn(
        &self,
        task: std::pin::Pin<Box<dyn std::future::Future<Output = ()>>>,
    ) -> Result<(), Box<dyn std::error::Error>> {
        let n = self.count.get();
        self.count.set(n + 1);
        if Some(n) == self.fail_at {
            return Err("injected fork failure".into());
        }
        let idx = self.ok_count.get();
        self.ok_count.set(idx + 1);
        let state = self.state.clone();
        let main_pid = self.main_pid;
        let wrapped = async move {
            if let Some(state) = state.upgrade() {
                let st = state.borrow();
                // process identifiers grow with every fork and nothing is reaped
                // before the construct is over: the idx-th new process is ours
                let mut pids: Vec<_> = st.processes.keys().copied().filter(|p| *p != main_pid).collect();
                pids.sort();
                if let Some(pid) = pids.get(idx) {
                    let mut table = vec![];
                    for (fd, body) in st.processes[pid].fds() {
                        let ptr = std::rc::Rc::as_ptr(&body.open_file_description) as usize;
                        keep_alloc(&body.open_file_description);
                        table.push((fd.0, ofd_id(ptr), body.flags.contains(FdFlag::CloseOnExec)));
                    }
                    FORKS.with(|f| f.borrow_mut().push((idx, table)));
                }
            }
            task.await
        };
        self.inner.spawn(Box::pin(wrapped))
    }
}

const SHAPES: [&str; 10] = [
    ":",
    "exec 3>/tmp/o3",
    "exec 3>/tmp/o3 5</tmp/in4",
    "exec 0<&-",
    "exec 1>&-",
    "exec 0<&- 1>&-",
    "exec 3>/tmp/o3 4</tmp/in4 6>/tmp/o6; exec 1>&-",
    "exec 4>/tmp/o4 0<&-",
    "exec 20>/tmp/o20 3</tmp/in4",
    "exec 3>/tmp/o3 4>&3 0<&- ",
];

struct FdScenario {
    /// 0 = pipeline, 1 = command substitution
    construct: u64,
    n: usize,
    shape: usize,
    limit: Option<u64>,
    forkfail: Option<usize>,
}

fn fd_script(sc: &FdScenario) -> String {
    let mut lines = vec!["mkdir -p /tmp /work; echo data >/tmp/in4".to_string()];
    lines.push(SHAPES[sc.shape].to_string());
    if let Some(k) = sc.limit {
        lines.push(format!("ulimit -n {k}"));
    }
    lines.push("trap 'snap after' EXIT".into());
    lines.push("snap before".into());
    if sc.construct == 0 {
        let mut stages = vec![];
        for k in 1..=sc.n {
            let work = match (k == 1, k == sc.n) {
                (true, true) => "echo data >/tmp/result",
                (true, false) => "echo data",
                (false, true) => "cat >/tmp/result",
                (false, false) => "cat",
            };
            stages.push(format!("{{ snap e{k}; {work}; }}"));
        }
        lines.push(stages.join(" | "));
    } else {
        lines.push("v=$(snap e1; echo data)".into());
        lines.push("echo \"$v\" >/tmp/result".into());
    }
    lines.push("snap done".into());
    lines.join("\n")
}

fn table_coq(t: &[(i32, u64, bool)]) -> String {
    let v: Vec<String> =
        t.iter().map(|(fd, id, ce)| format!("({}, ({}, {}))", coq::n(*fd as u64), coq::n(*id), coq::b(*ce))).collect();
    if v.is_empty() { "(@nil (N * (N * bool)))".into() } else { coq::list(&v) }
}

fn run_fd(sc: &FdScenario, w: &mut CasesWriter) {
    let text = fd_script(sc);
    SNAPS.with(|v| v.borrow_mut().clear());
    OFD_IDS.with(|m| m.borrow_mut().clear());
    KEEP.with(|k| k.borrow_mut().clear());
    FORKS.with(|f| f.borrow_mut().clear());
    let fail_at = sc.forkfail;
    let setup = move |env: &mut VEnv, state: &State| {
        STATE.with(|s| *s.borrow_mut() = Some(state.clone()));
        let inner = state.borrow().executor.clone().unwrap();
        state.borrow_mut().executor = Some(std::rc::Rc::new(TraceExecutor {
            inner,
            state: std::rc::Rc::downgrade(state),
            main_pid: env.main_pid,
            count: std::cell::Cell::new(0),
            ok_count: std::cell::Cell::new(0),
            fail_at,
        }));
        env.builtins.insert("snap", Builtin::new(Type::Mandatory, snap_main));
        env.builtins.insert("nap", Builtin::new(Type::Mandatory, nap_main));
        env.builtins.insert("mkdir", Builtin::new(Type::Mandatory, mkdir_main));
    };
    let argv = vec!["-c".into(), text.clone()];
    let (out, state) = run_shell(RunOpts { argv, ..Default::default() }, setup);
    let snaps = SNAPS.with(|v| std::mem::take(&mut *v.borrow_mut()));
    let mut forks = FORKS.with(|f| std::mem::take(&mut *f.borrow_mut()));
    forks.sort_by_key(|(i, _)| *i);
    let get = |label: &str| snaps.iter().find(|(l, _, _)| l == label).map(|(_, _, s)| s.fds.clone());
    w.count(&format!("fd:construct:{}", if sc.construct == 0 { "pipeline" } else { "cmdsubst" }));
    w.count(&format!("fd:n:{}", sc.n));
    w.count(&format!("fd:shape:{}", sc.shape));
    w.count(&format!("fd:limit:{:?}", sc.limit));
    if let Some(k) = sc.forkfail {
        w.count(&format!("fd:forkfail-at-stage:{}", k + 1));
    }
    let (Some(before), Some(after)) = (get("before"), get("after")) else {
        w.count("fd:skipped:missing-snapshot");
        if std::env::var("C08_DEBUG").is_ok() {
            eprintln!("fd: missing snapshot: stderr={} panicked={:?} script=\n{}", out.stderr, out.panicked, text);
        }
        return;
    };
    let completed = get("done").is_some();
    // children the parent started: one entry per successful fork (a pipeline
    // of one command runs in the shell itself: one entry, no fork)
    let nchildren = if sc.construct == 0 && sc.n == 1 { 1 } else { forks.len() };
    let entries: Vec<Option<Vec<(i32, u64, bool)>>> = (1..=nchildren).map(|k| get(&format!("e{k}"))).collect();
    let result = state
        .as_ref()
        .and_then(|st| yv_harness::vsh::read_file(st, "/tmp/result"))
        .map(|b| String::from_utf8_lossy(&b).into_owned())
        .unwrap_or_default();
    // Under a descriptor limit the redirection that collects the result may
    // itself fail (it needs a descriptor at 10 or above): flow is judged only
    // without a limit.
    let flow_judged = sc.limit.is_none() && completed;
    let flow_ok = if flow_judged { !out.deadlock && !out.timeout && result == "data\n" } else { true };
    if flow_judged {
        w.count("fd:flow-judged");
    }
    w.count(if completed { "fd:completed" } else { "fd:abandoned" });
    w.count(&format!("fd:children-started:{}", forks.len()));
    for e in &entries {
        w.count(if e.is_some() { "fd:entry-observed" } else { "fd:entry-missing" });
    }
    let term = format!(
        "(CFd {} {} {} {} {} {} {} {} {} {})",
        coq::n(sc.construct),
        coq::nat(sc.n),
        coq::opt(sc.limit.map(coq::n)),
        coq::opt(sc.forkfail.map(coq::nat)),
        table_coq(&before),
        if forks.is_empty() {
            "(@nil (list (N * (N * bool))))".to_string()
        } else {
            coq::list(&forks.iter().map(|(_, t)| table_coq(t)).collect::<Vec<_>>())
        },
        if entries.is_empty() {
            "(@nil (option (list (N * (N * bool)))))".to_string()
        } else {
            coq::list(&entries.iter().map(|e| coq::opt(e.as_ref().map(|t| table_coq(t)))).collect::<Vec<_>>())
        },
        table_coq(&after),
        coq::b(completed),
        coq::b(flow_ok)
    );
    let json = format!(
        "{{\"script\":{},\"fault\":{},\"before\":{},\"tables_at_forks\":{},\"child_entries\":{},\"after\":{},\"completed\":{},\"flow\":{},\"result\":{},\"stderr\":{}}}",
        json_str(&text),
        json_str(&format!("limit {:?}, fork failing at stage index {:?}", sc.limit, sc.forkfail)),
        json_str(&format!("{:?}", before)),
        json_str(&format!("{:?}", forks)),
        json_str(&format!("{:?}", entries)),
        json_str(&format!("{:?}", after)),
        completed,
        json_str(if flow_judged { if flow_ok { "ok" } else { "BROKEN" } } else { "not judged" }),
        json_str(&result),
        json_str(&out.stderr)
    );
    let nontrivial = !forks.is_empty();
    w.push(&term, &json, &[], if nontrivial { Some(format!("{text}#{:?}", sc.forkfail)) } else { None });
}

fn fd_stream(thorough: bool, w: &mut CasesWriter) {
    let limits: Vec<Option<u64>> = if thorough {
        vec![None, Some(2), Some(3), Some(4), Some(5), Some(6), Some(7), Some(8), Some(9)]
    } else {
        vec![None, Some(4), Some(5), Some(7)]
    };
    // pipelines of 1..6 commands x table shapes x limits
    for n in 1..=6usize {
        for shape in 0..SHAPES.len() {
            for (li, limit) in limits.iter().enumerate() {
                if !thorough && limit.is_some() && (n + shape + li) % 2 == 1 {
                    continue;
                }
                run_fd(&FdScenario { construct: 0, n, shape, limit: *limit, forkfail: None }, w);
            }
        }
    }
    // the fork of stage k fails, every k
    for n in 2..=6usize {
        for k in 0..n {
            for shape in 0..SHAPES.len() {
                if !thorough && (n + k + shape) % 4 != 0 {
                    continue;
                }
                let limit = if (n + k + shape) % 8 == 0 { Some(8) } else { None };
                run_fd(&FdScenario { construct: 0, n, shape, limit, forkfail: Some(k) }, w);
            }
        }
    }
    // command substitution
    for shape in 0..SHAPES.len() {
        for limit in [None, Some(3), Some(4), Some(5), Some(6)] {
            run_fd(&FdScenario { construct: 1, n: 1, shape, limit, forkfail: None }, w);
        }
        run_fd(&FdScenario { construct: 1, n: 1, shape, limit: None, forkfail: Some(0) }, w);
    }
}

fn mkdir_main(env: &mut VEnv, args: Vec<Field>) -> BuiltinFuture<'_> {
    Box::pin(async move {
        let _ = env;
        STATE.with(|st| {
            let st = st.borrow();
            let mut st = st.as_ref().unwrap().borrow_mut();
            for a in &args {
                if a.value.starts_with('-') {
                    continue;
                }
                use std::rc::Rc;
                use yash_env::system::r#virtual::{FileBody, Inode};
                let mut path = String::new();
                for comp in a.value.split('/').filter(|c| !c.is_empty()) {
                    path.push('/');
                    path.push_str(comp);
                    if st.file_system.get(&path).is_err() {
                        let inode = Inode {
                            body: FileBody::Directory { files: Default::default() },
                            permissions: yash_env::system::Mode::from_bits_truncate(0o755),
                        };
                        let _ = st.file_system.save(&path, Rc::new(RefCell::new(inode)));
                    }
                }
            }
        });
        ExitStatus::SUCCESS.into()
    })
}

fn main() {
    let args = Args::parse();
    let mut rng = Rng::new(args.seed);
    let mut w = CasesWriter::new(&args, "Yv.C08.Run", 40);

    // corpus: every mutator alone in every kind of subshell, on a rich parent state
    let rich: Vec<usize> = (0..SETUPS.len()).collect();
    if args.thorough() {
        for kind in 0..KINDS.len() {
            for m in 0..MUTATORS.len() {
                run(
                    &Scenario {
                        kind,
                        setups: rich.clone(),
                        mutators: vec![m],
                        nested_in_function: false,
                        long: (kind + m) % 2 == 0,
                        outer_subshell: (kind + m) % 3 == 0,
                        tty: (kind + m) % 5 == 0,
                        sched: if (kind + m) % 2 == 1 { (kind * 100 + m) as u64 + 1 } else { 0 },
                        fork_fails: false,
                    },
                    &mut w,
                );
            }
        }
    } else {
        for m in 0..MUTATORS.len() {
            run(
                &Scenario {
                    kind: (m + args.seed as usize) % KINDS.len(),
                    setups: rich.clone(),
                    mutators: vec![m],
                    nested_in_function: false,
                    long: m % 2 == 0,
                    outer_subshell: m % 3 == 0,
                    tty: m % 5 == 0,
                    sched: if m % 2 == 1 { m as u64 + 1 } else { 0 },
                    fork_fails: false,
                },
                &mut w,
            );
        }
    }
    // fault injection: the fork of the subshell fails, every kind, two parent states
    for kind in 0..KINDS.len() {
        let rich_no_fork: Vec<usize> = rich.iter().copied().filter(|i| *i != FORKING_SETUP).collect();
        for (i, setups) in [rich_no_fork, vec![0usize, 4, 19]].into_iter().enumerate() {
            run(
                &Scenario {
                    kind,
                    setups,
                    mutators: vec![0],
                    nested_in_function: i == 1,
                    long: kind % 2 == 0,
                    outer_subshell: false,
                    tty: false,
                    sched: 0,
                    fork_fails: true,
                },
                &mut w,
            );
        }
    }
    let n = args.scale(160, 3000);
    for k in 0..n {
        let mut r = rng.fork(k as u64);
        let setups: Vec<usize> = (0..SETUPS.len()).filter(|_| r.chance(1, 2)).collect();
        let nm = 1 + r.below(4);
        let mutators: Vec<usize> = (0..nm).map(|_| r.below(MUTATORS.len())).collect();
        run(
            &Scenario {
                kind: r.below(KINDS.len()),
                setups,
                mutators,
                nested_in_function: r.chance(1, 4),
                long: r.chance(1, 2),
                outer_subshell: r.chance(1, 3),
                tty: r.chance(1, 3),
                sched: if r.chance(1, 2) { 1 + r.below(1_000_000) as u64 } else { 0 },
                fork_fails: false,
            },
            &mut w,
        );
    }
    fd_stream(args.thorough(), &mut w);
    w.finish(
        "parent state from a random subset of 22 set-up commands; 1-4 of 38 mutators run inside a \
         subshell of one of 6 kinds (parenthesised, command substitution, first/middle/last element of a \
         pipeline of 2-4 commands, asynchronous), optionally inside a function or an outer subshell that set \
         the traps, with or without /dev/tty; non-trivial = the mutators changed the child's own snapshot; distinct = by script. \
         Descriptor-trace stream: pipelines of 1-6 commands and command substitutions on 10 shapes of the parent's \
         descriptor table (holes, closed stdin/stdout, descriptors above 10), with a soft descriptor limit that makes \
         pipe() fail at stage 1 or 2 (reader or writer), and with the fork of every stage failing in turn",
    );
}
