(* C07 — the umask listings: print then parse gives the mask back. *)
From Yv Require Import Common.Base C07.Umask.

Local Open Scope N_scope.

Lemma In_N_range n m : (m < N.of_nat n) -> In m (N_range n).
Proof.
  induction n as [|k IH]; intros H; [lia|].
  cbn [N_range]. apply in_or_app.
  destruct (N.eq_dec m (N.of_nat k)) as [-> | Hne]; [right; left; reflexivity|].
  left. apply IH. lia.
Qed.

(* The printed forms consist of clauses  who = literal  only.  For such
   clauses the evaluation is  K | (current & W)  with K and W computed from the
   clauses alone (algebra, any current mask); K and W are then evaluated for
   each of the 512 masks (computation). *)
Definition simple_clause (cl : clause) : option (N * N) :=
  match cl_actions cl with
  | [(USet, PLiteral k false)] => Some (k, cl_who cl)
  | _ => None
  end.

Fixpoint summary (cls : list clause) (K W : N) : option (N * N) :=
  match cls with
  | [] => Some (K, W)
  | cl :: t =>
      match simple_clause cl with
      | Some (k, who) =>
          summary t (N.lor (N.land k who) (N.land K (not16 who))) (N.land W (not16 who))
      | None => None
      end
  end.

Definition eval_from (c r : N) (cls : list clause) : N :=
  fold_left
    (fun result cl =>
       fold_left
         (fun result (a : uop * perm) =>
            let resolution :=
              match snd a with
              | PCopyUser => copy3 (N.shiftr c 6)
              | PCopyGroup => copy3 (N.shiftr c 3)
              | PCopyOther => copy3 c
              | PLiteral mask cx =>
                  N.lor mask (if cx && negb (N.eqb (N.land c 73) 0) then 73 else 0)
              end in
            let who := cl_who cl in
            match fst a with
            | UAdd => N.lor (N.land resolution who) result
            | URemove => N.land (not16 (N.land resolution who)) result
            | USet => N.lor (N.land resolution who) (N.land result (not16 who))
            end)
         (cl_actions cl) result)
    cls r.

Lemma eval_clauses_from c cls : eval_clauses c cls = eval_from c c cls.
Proof. reflexivity. Qed.

Lemma eval_simple c : forall cls r K W K' W',
  r = N.lor K (N.land c W) -> summary cls K W = Some (K', W') ->
  eval_from c r cls = N.lor K' (N.land c W').
Proof.
  induction cls as [|cl t IH]; intros r K W K' W' Hr Hs.
  - cbn in *. injection Hs as <- <-. exact Hr.
  - cbn [summary] in Hs. unfold simple_clause in Hs.
    destruct cl as [who acts]. cbn [cl_actions cl_who] in *.
    destruct acts as [|[[| |] [| | |k [|]]] [|a2 acts']]; try discriminate.
    unfold eval_from. cbn [fold_left fst snd cl_actions cl_who andb].
    fold (eval_from c (N.lor (N.land (N.lor k 0) who) (N.land r (not16 who))) t).
    eapply IH; [|exact Hs]. subst r.
    rewrite N.lor_0_r, N.land_lor_distr_l, <- N.land_assoc, N.lor_assoc. reflexivity.
Qed.

Definition rt_all (show : N -> str) : bool :=
  forallb (fun m =>
             match parse_operand (show m) with
             | ROk cls =>
                 match summary cls 0 65535 with
                 | Some (K, W) => N.eqb W 65024 && N.eqb (not16 (N.lor K 65024)) m
                 | None => false
                 end
             | _ => false
             end) (N_range 512).

Lemma rt_sym_all : rt_all show_symbolic = true.
Proof. vm_compute. reflexivity. Qed.

Lemma rt_oct_all : rt_all show_octal = true.
Proof. vm_compute. reflexivity. Qed.

Lemma high_bits_all :
  forallb (fun cur => N.eqb (N.land (not16 cur) 65024) 65024
                      && N.eqb (N.land (not16 cur) 65535) (not16 cur)) (N_range 512) = true.
Proof. vm_compute. reflexivity. Qed.

Lemma rt_all_spec show : rt_all show = true ->
  forall m cur, m < 512 -> cur < 512 -> umask_set cur (show m) = ROk m.
Proof.
  intros H m cur Hm Hc. unfold rt_all in H. rewrite forallb_forall in H.
  specialize (H m (In_N_range 512 m Hm)). unfold umask_set.
  destruct (parse_operand (show m)) as [cls| |]; try discriminate.
  destruct (summary cls 0 65535) as [[K W]|] eqn:Es; try discriminate.
  apply andb_true_iff in H. destruct H as [HW HK].
  apply N.eqb_eq in HW. apply N.eqb_eq in HK. subst W.
  pose proof high_bits_all as Hh. rewrite forallb_forall in Hh.
  specialize (Hh cur (In_N_range 512 cur Hc)). apply andb_true_iff in Hh.
  destruct Hh as [Hh1 Hh2]. apply N.eqb_eq in Hh1. apply N.eqb_eq in Hh2.
  rewrite eval_clauses_from.
  rewrite (eval_simple (not16 cur) cls (not16 cur) 0 65535 K 65024); [| |exact Es].
  - rewrite Hh1, HK. reflexivity.
  - rewrite N.lor_0_l, Hh2. reflexivity.
Qed.

Lemma umask_symbolic_lemma m cur :
  m < 512 -> cur < 512 -> umask_set cur (show_symbolic m) = ROk m.
Proof. apply rt_all_spec. exact rt_sym_all. Qed.

Lemma umask_octal_lemma m cur :
  m < 512 -> cur < 512 -> umask_set cur (show_octal m) = ROk m.
Proof. apply rt_all_spec. exact rt_oct_all. Qed.

(* ---- fuel ---------------------------------------------------------------------- *)

Lemma span_length p s : (length (snd (span p s)) <= length s)%nat.
Proof.
  induction s as [|c r IH]; [cbn; lia|]. cbn [span]. destruct (p c); [|cbn; lia].
  destruct (span p r) as [a b]. cbn [snd length] in *. lia.
Qed.

Lemma parse_perm_length s p r : parse_perm s = Some (p, r) -> (length r <= length s)%nat.
Proof.
  unfold parse_perm. pose proof (span_length perm_alpha s) as H.
  destruct (span perm_alpha s) as [al rest]. cbn [snd] in H.
  destruct (existsb _ al).
  - destruct al as [|c [|d t]]; try discriminate.
    destruct (N.eqb c 117); [|destruct (N.eqb c 103)]; intros E; injection E as _ <-; exact H.
  - intros E. injection E as _ <-. exact H.
Qed.

Lemma parse_op_length s o r : parse_op s = Some (o, r) -> length s = S (length r).
Proof.
  destruct s as [|c t]; [discriminate|]. cbn [parse_op].
  destruct (N.eqb c 43); [|destruct (N.eqb c 45); [|destruct (N.eqb c 61); [|discriminate]]];
    intros E; injection E as _ <-; reflexivity.
Qed.

Lemma parse_actions_fuel : forall fuel s acc, (length s < fuel)%nat ->
  parse_actions fuel s acc <> RFuel
  /\ forall a r, parse_actions fuel s acc = ROk (a, r) -> (length r <= length s)%nat.
Proof.
  induction fuel as [|fuel IH]; intros s acc Hf; [lia|].
  cbn [parse_actions]. destruct (parse_op s) as [[o r]|] eqn:Eo.
  - apply parse_op_length in Eo.
    destruct (parse_perm r) as [[p r']|] eqn:Ep.
    + apply parse_perm_length in Ep.
      destruct (IH r' ((o, p) :: acc) ltac:(lia)) as [H1 H2]. split; [exact H1|].
      intros a r0 E. apply H2 in E. lia.
    + split; [discriminate|]. intros a r0 E. discriminate.
  - destruct acc; split; try discriminate.
    intros a r0 E. injection E as _ <-. lia.
Qed.

Lemma parse_who_length s m : (length (snd (parse_who s m)) <= length s)%nat.
Proof.
  revert m. induction s as [|c r IH]; intros m; [cbn; lia|]. cbn [parse_who].
  destruct (N.eqb c 117); [specialize (IH (N.lor m 448)); cbn [length]; lia|].
  destruct (N.eqb c 103); [specialize (IH (N.lor m 56)); cbn [length]; lia|].
  destruct (N.eqb c 111); [specialize (IH (N.lor m 7)); cbn [length]; lia|].
  destruct (N.eqb c 97); [specialize (IH (N.lor m 511)); cbn [length]; lia|].
  cbn. lia.
Qed.

Lemma parse_clauses_from_fuel : forall fuel s acc, (length s < fuel)%nat ->
  parse_clauses_from fuel s acc <> RFuel.
Proof.
  induction fuel as [|fuel IH]; intros s acc Hf; [lia|].
  cbn [parse_clauses_from]. unfold who_of.
  pose proof (parse_who_length s 0) as Hw. destruct (parse_who s 0) as [m r]. cbn [snd] in Hw.
  destruct (parse_actions_fuel (S (length r)) r [] ltac:(lia)) as [H1 H2].
  destruct (parse_actions (S (length r)) r []) as [[acts r']| |]; try discriminate; [|contradiction].
  specialize (H2 acts r' eq_refl).
  destruct r' as [|c r'']; [discriminate|].
  destruct (N.eqb c 44); [|discriminate]. apply IH. cbn [length] in H2. lia.
Qed.

Lemma umask_set_fuel bits operand : umask_set bits operand <> RFuel.
Proof.
  unfold umask_set, parse_operand.
  assert (H : parse_clauses operand <> RFuel)
    by (apply parse_clauses_from_fuel; lia).
  destruct operand as [|c t].
  - destruct (parse_clauses []); try discriminate. contradiction.
  - destruct (is_ascii_digit c).
    + destruct (parse_octal (c :: t)); discriminate.
    + destruct (parse_clauses (c :: t)); try discriminate. contradiction.
Qed.
