(* C07 — the umask listings: print then parse gives the mask back. *)
From Yv Require Import Common.Base C07.Umask.

Local Open Scope N_scope.

Lemma In_N_range n m : (m < N.of_nat n) -> In m (N_range n).
Proof.
  induction n as [|k IH]; intros H; [lia|].
  cbn [N_range]. apply in_or_app.
  destruct (N.eq_dec m (N.of_nat k)) as [-> | Hne]; [right; left; reflexivity|].
  left. apply IH. lia.
Qed.

Definition rt_sym (m cur : N) : bool :=
  match umask_set cur (show_symbolic m) with ROk v => N.eqb v m | _ => false end.
Definition rt_oct (m cur : N) : bool :=
  match umask_set cur (show_octal m) with ROk v => N.eqb v m | _ => false end.

Lemma rt_sym_all :
  forallb (fun m => forallb (fun cur => rt_sym m cur) (N_range 512)) (N_range 512) = true.
Proof. vm_compute. reflexivity. Qed.

Lemma rt_oct_all :
  forallb (fun m => forallb (fun cur => rt_oct m cur) (N_range 512)) (N_range 512) = true.
Proof. vm_compute. reflexivity. Qed.

Lemma umask_symbolic_lemma m cur :
  m < 512 -> cur < 512 -> umask_set cur (show_symbolic m) = ROk m.
Proof.
  intros Hm Hc. pose proof rt_sym_all as H. rewrite forallb_forall in H.
  specialize (H m (In_N_range 512 m Hm)). rewrite forallb_forall in H.
  specialize (H cur (In_N_range 512 cur Hc)). unfold rt_sym in H.
  destruct (umask_set cur (show_symbolic m)); try discriminate.
  apply N.eqb_eq in H. subst. reflexivity.
Qed.

Lemma umask_octal_lemma m cur :
  m < 512 -> cur < 512 -> umask_set cur (show_octal m) = ROk m.
Proof.
  intros Hm Hc. pose proof rt_oct_all as H. rewrite forallb_forall in H.
  specialize (H m (In_N_range 512 m Hm)). rewrite forallb_forall in H.
  specialize (H cur (In_N_range 512 cur Hc)). unfold rt_oct in H.
  destruct (umask_set cur (show_octal m)); try discriminate.
  apply N.eqb_eq in H. subst. reflexivity.
Qed.

(* ---- fuel ---------------------------------------------------------------------- *)

Lemma span_length p s : (length (snd (span p s)) <= length s)%nat.
Proof.
  induction s as [|c r IH]; [cbn; lia|]. cbn [span]. destruct (p c); [|cbn; lia].
  destruct (span p r) as [a b]. cbn [snd length] in *. lia.
Qed.

Lemma parse_perm_length s p r : parse_perm s = Some (p, r) -> (length r <= length s)%nat.
Proof.
  unfold parse_perm. pose proof (span_length perm_alpha s) as H.
  destruct (span perm_alpha s) as [al rest]. cbn [snd] in H.
  destruct (existsb _ al).
  - destruct al as [|c [|d t]]; try discriminate.
    destruct (N.eqb c 117); [|destruct (N.eqb c 103)]; intros E; injection E as _ <-; exact H.
  - intros E. injection E as _ <-. exact H.
Qed.

Lemma parse_op_length s o r : parse_op s = Some (o, r) -> length s = S (length r).
Proof.
  destruct s as [|c t]; [discriminate|]. cbn [parse_op].
  destruct (N.eqb c 43); [|destruct (N.eqb c 45); [|destruct (N.eqb c 61); [|discriminate]]];
    intros E; injection E as _ <-; reflexivity.
Qed.

Lemma parse_actions_fuel : forall fuel s acc, (length s < fuel)%nat ->
  parse_actions fuel s acc <> RFuel
  /\ forall a r, parse_actions fuel s acc = ROk (a, r) -> (length r <= length s)%nat.
Proof.
  induction fuel as [|fuel IH]; intros s acc Hf; [lia|].
  cbn [parse_actions]. destruct (parse_op s) as [[o r]|] eqn:Eo.
  - apply parse_op_length in Eo.
    destruct (parse_perm r) as [[p r']|] eqn:Ep.
    + apply parse_perm_length in Ep.
      destruct (IH r' ((o, p) :: acc) ltac:(lia)) as [H1 H2]. split; [exact H1|].
      intros a r0 E. apply H2 in E. lia.
    + split; [discriminate|]. intros a r0 E. discriminate.
  - destruct acc; split; try discriminate.
    intros a r0 E. injection E as _ <-. lia.
Qed.

Lemma parse_who_length s m : (length (snd (parse_who s m)) <= length s)%nat.
Proof.
  revert m. induction s as [|c r IH]; intros m; [cbn; lia|]. cbn [parse_who].
  destruct (N.eqb c 117); [specialize (IH (N.lor m 448)); cbn [length]; lia|].
  destruct (N.eqb c 103); [specialize (IH (N.lor m 56)); cbn [length]; lia|].
  destruct (N.eqb c 111); [specialize (IH (N.lor m 7)); cbn [length]; lia|].
  destruct (N.eqb c 97); [specialize (IH (N.lor m 511)); cbn [length]; lia|].
  cbn. lia.
Qed.

Lemma parse_clauses_from_fuel : forall fuel s acc, (length s < fuel)%nat ->
  parse_clauses_from fuel s acc <> RFuel.
Proof.
  induction fuel as [|fuel IH]; intros s acc Hf; [lia|].
  cbn [parse_clauses_from]. unfold who_of.
  pose proof (parse_who_length s 0) as Hw. destruct (parse_who s 0) as [m r]. cbn [snd] in Hw.
  destruct (parse_actions_fuel (S (length r)) r [] ltac:(lia)) as [H1 H2].
  destruct (parse_actions (S (length r)) r []) as [[acts r']| |]; try discriminate; [|contradiction].
  specialize (H2 acts r' eq_refl).
  destruct r' as [|c r'']; [discriminate|].
  destruct (N.eqb c 44); [|discriminate]. apply IH. cbn [length] in H2. lia.
Qed.

Lemma umask_set_fuel bits operand : umask_set bits operand <> RFuel.
Proof.
  unfold umask_set, parse_operand.
  assert (H : parse_clauses operand <> RFuel)
    by (apply parse_clauses_from_fuel; lia).
  destruct operand as [|c t].
  - destruct (parse_clauses []); try discriminate. contradiction.
  - destruct (is_ascii_digit c).
    + destruct (parse_octal (c :: t)); discriminate.
    + destruct (parse_clauses (c :: t)); try discriminate. contradiction.
Qed.
