(* C07 — oracle soundness: on an implementation that behaves like the model
   the run-time check answers 0 (so the oracle never asks for more than the
   theorems give). *)
From Yv Require Import Common.Base C07.Model C07.Spec C07.Proofs C07.Run.

Local Open Scope N_scope.

Lemma ws_sub : forall c, ws c = true -> ws c = true.
Proof. auto. Qed.

Lemma str_eqb_refl s : str_eqb s s = true.
Proof. apply str_eqb_eq. reflexivity. Qed.

Lemma strs_eqb_refl l : list_eqb str_eqb l l = true.
Proof. apply list_eqb_spec; [apply str_eqb_eq | reflexivity]. Qed.

Lemma plain_args : plain_cmd s_args = true.
Proof. reflexivity. Qed.

Lemma predict_args_quote s : predict_args (quote ws s) = PFields [s].
Proof.
  unfold predict_args.
  pose proof (quote_args_lemma ws ws ws_sub rust_ws_ascii_ok s_args [s] [] plain_args I) as E.
  cbn [map spaced flat_map] in E. rewrite !app_nil_r in E. rewrite E. reflexivity.
Qed.

Lemma predict_assign_quote s : predict_assign (quote ws s) = PFields [s].
Proof.
  unfold predict_assign.
  pose proof (quote_assign_lemma ws ws ws_sub rust_ws_ascii_ok [120] s [] eq_refl I) as E.
  rewrite app_nil_r in E. change ([120] ++ c_eq :: quote ws s) with (s_x_eq ++ quote ws s) in E.
  rewrite E. reflexivity.
Qed.

Lemma predict_decl_quote s : predict_decl (quote ws s) = PFields [s].
Proof.
  unfold predict_decl.
  pose proof (quote_decl_lemma ws ws ws_sub rust_ws_ascii_ok s_typeset [120] s [] eq_refl eq_refl I) as E.
  rewrite app_nil_r in E.
  change ([120] ++ c_eq :: quote ws s) with (s_x_eq ++ quote ws s) in E.
  rewrite E. reflexivity.
Qed.

Lemma predict_argeq_quote s : predict_args (s_x_eq ++ quote ws s) = PFields [s_x_eq ++ s].
Proof.
  unfold predict_args.
  pose proof (quote_argeq_lemma ws ws ws_sub rust_ws_ascii_ok s_args [120] s [] plain_args eq_refl I) as E.
  rewrite app_nil_r in E.
  change ([120] ++ c_eq :: quote ws s) with (s_x_eq ++ quote ws s) in E.
  rewrite E. reflexivity.
Qed.

Lemma oracle_sound_quote_lemma s :
  run_case (KQuote s (quote ws s) (Some [s]) (Some [s]) (Some [s]) (Some [s_x_eq ++ s])) = 0.
Proof.
  unfold run_case, quote_oracle, quote_model_agrees, reading_eqb. cbn [option_eqb].
  rewrite !strs_eqb_refl. cbn [first_false].
  rewrite (quote_meets_spec_lemma ws ws ws_sub s).
  rewrite str_eqb_refl, predict_args_quote, predict_assign_quote, predict_decl_quote,
    predict_argeq_quote.
  cbn [agrees]. rewrite !strs_eqb_refl. reflexivity.
Qed.

Lemma shape_of_code_code sh : shape_of_code (shape_code sh) = Some sh.
Proof. destruct sh; reflexivity. Qed.

Lemma shape_eqb_refl sh : shape_eqb sh sh = true.
Proof. destruct sh; reflexivity. Qed.

Lemma shape_code_bit2 sh : N.testbit (shape_code sh) 2 = false.
Proof. destruct sh; reflexivity. Qed.

Lemma oracle_sound_exh_lemma s : exh_one s (shape_code (quote_shape ws s)) = 0.
Proof.
  unfold exh_one. rewrite shape_code_bit2, shape_of_code_code, shape_eqb_refl. reflexivity.
Qed.

(* ===================================================================== *)
(* listings: the text the printers produce (model_listing, compared with   *)
(* the real output on every run) is read back as the state it lists        *)
(* ===================================================================== *)

Ltac norm_app := repeat (rewrite <- app_assoc || (progress cbn [app])).

Lemma nl_rest_ok t : rest_ok (c_nl :: t).
Proof. cbn. repeat split; discriminate. Qed.

Lemma run_lines_step fuel line c text :
  line <> [] ->
  run_line ws (line ++ c_nl :: text) = COk c (c_nl :: text) ->
  run_lines ws (S fuel) (line ++ c_nl :: text) = option_map (cons c) (run_lines ws fuel text).
Proof.
  intros Hne E. cbn [run_lines]. destruct line as [|x l]; [contradiction Hne; reflexivity|].
  cbn [app] in *. rewrite E. rewrite N.eqb_refl. reflexivity.
Qed.

(* --- set: name=Qvalue ---------------------------------------------------- *)

Lemma set_listing_lemma : forall st,
  Forall (fun p => simple_word (fst p) = true) st ->
  forall fuel, (length st < fuel)%nat ->
  run_lines ws fuel (set_text st)
  = Some (map (fun p => mkSimple [(fst p, OField (snd p))] []) st).
Proof.
  induction 1 as [|[n v] st Hn _ IH]; intros fuel Hf.
  - destruct fuel; [lia|]. reflexivity.
  - destruct fuel; [cbn in Hf; lia|]. cbn [fst snd] in *.
    change (set_text ((n, v) :: st)) with ((n ++ c_eq :: quote ws v ++ [c_nl]) ++ set_text st).
    replace ((n ++ c_eq :: quote ws v ++ [c_nl]) ++ set_text st)
      with ((n ++ c_eq :: quote ws v) ++ c_nl :: set_text st)
      by (norm_app; reflexivity).
    rewrite (run_lines_step fuel _ (mkSimple [(n, OField v)] [])).
    + rewrite IH by (cbn [length] in Hf; lia). reflexivity.
    + destruct n; discriminate.
    + norm_app.
      apply (quote_assign_lemma ws ws ws_sub rust_ws_ascii_ok n v _ Hn (nl_rest_ok _)).
Qed.

(* --- trap: trap -- Qaction COND ----------------------------------------------- *)

Lemma trap_line_lemma cond action text :
  simple_word cond = true ->
  run_line ws ((s_trap_dd ++ quote ws action ++ c_sp :: cond) ++ c_nl :: text)
  = COk (mkSimple [] [OField s_trap; OField s_dd; OField action; OField cond]) (c_nl :: text).
Proof.
  intros Hc.
  pose proof (run_line_multi ws rust_ws_ascii_ok s_trap [quote ws s_dd; quote ws action; cond]
                [s_dd; action; cond] (c_nl :: text) eq_refl) as E.
  cbn [spaced flat_map map] in E. rewrite app_nil_r in E.
  replace ((s_trap_dd ++ quote ws action ++ c_sp :: cond) ++ c_nl :: text)
    with (s_trap ++ ((c_sp :: quote ws s_dd) ++ (c_sp :: quote ws action) ++ c_sp :: cond) ++ c_nl :: text).
  - apply E; [|apply nl_rest_ok].
    repeat constructor.
    + apply quote_multi_word; [apply ws_sub | apply rust_ws_ascii_ok].
    + apply quote_multi_word; [apply ws_sub | apply rust_ws_ascii_ok].
    + apply simple_multi_word; [apply rust_ws_ascii_ok | assumption].
  - change (quote ws s_dd) with s_dd. unfold s_trap_dd, s_trap, s_dd.
    norm_app. reflexivity.
Qed.

Lemma trap_listing_lemma : forall st,
  Forall (fun p => simple_word (fst p) = true) st ->
  forall fuel, (length st < fuel)%nat ->
  run_lines ws fuel (trap_text st)
  = Some (map (fun p => mkSimple [] [OField s_trap; OField s_dd; OField (snd p); OField (fst p)]) st).
Proof.
  induction 1 as [|[cond action] st Hn _ IH]; intros fuel Hf.
  - destruct fuel; [lia|]. reflexivity.
  - destruct fuel; [cbn in Hf; lia|]. cbn [fst snd] in *.
    change (trap_text ((cond, action) :: st))
      with ((s_trap_dd ++ quote ws action ++ c_sp :: cond ++ [c_nl]) ++ trap_text st).
    replace ((s_trap_dd ++ quote ws action ++ c_sp :: cond ++ [c_nl]) ++ trap_text st)
      with ((s_trap_dd ++ quote ws action ++ c_sp :: cond) ++ c_nl :: trap_text st)
      by (norm_app; reflexivity).
    rewrite (run_lines_step fuel (s_trap_dd ++ quote ws action ++ c_sp :: cond)
               (mkSimple [] [OField s_trap; OField s_dd; OField action; OField cond]) (trap_text st)).
    + rewrite IH by (cbn [length] in Hf; lia). reflexivity.
    + unfold s_trap_dd. cbn [app]. discriminate.
    + apply trap_line_lemma; assumption.
Qed.

(* --- alias: Qname=Qvalue, evaluated as operands of one alias command ---------- *)

Lemma pairs_multi st :
  Forall (fun p => pair_safe ws (fst p) (snd p) = true) st ->
  Forall2 (multi_word ws)
    (map (fun p => quote ws (fst p) ++ c_eq :: quote ws (snd p)) st)
    (map (fun p => fst p ++ c_eq :: snd p) st).
Proof.
  induction 1 as [|p st' Hp _ IH]; constructor; [|exact IH].
  apply quote_pair_multi; [apply ws_sub | apply rust_ws_ascii_ok | assumption].
Qed.

Lemma alias_listing_lemma st :
  Forall (fun p => pair_safe ws (fst p) (snd p) = true) st ->
  run_line ws (alias_eval_text st)
  = COk (mkSimple [] (OField s_alias :: OField s_dd
                        :: map (fun p => OField (fst p ++ c_eq :: snd p)) st)) [].
Proof.
  intros Hst. unfold alias_eval_text.
  pose proof (run_line_multi ws rust_ws_ascii_ok s_alias
                (s_dd :: map (fun p => quote ws (fst p) ++ c_eq :: quote ws (snd p)) st)
                (s_dd :: map (fun p => fst p ++ c_eq :: snd p) st) [] eq_refl) as E.
  rewrite app_nil_r in E. rewrite E; [| |exact I].
  - cbn [map]. rewrite map_map. reflexivity.
  - constructor; [|apply pairs_multi; assumption].
    change s_dd with (quote ws s_dd) at 1.
    apply quote_multi_word; [apply ws_sub | apply rust_ws_ascii_ok].
Qed.

(* the separately quoted halves can form a bracket expression across the [=]:
   name "a[" and value "]x" print as  a[=]x , which the reader model classifies
   as a pattern (its meaning depends on the files in the directory) *)
Lemma alias_listing_refuted_lemma :
  exists n v,
    run_line ws (alias_eval_text [(n, v)])
    = COk (mkSimple [] [OField s_alias; OField s_dd; OGlob]) [].
Proof. exists [97; 91], [93; 120]. vm_compute. reflexivity. Qed.

Lemma flat_map_length_ge {A} (f : A -> str) l :
  (forall x, (1 <= length (f x))%nat) -> (length l <= length (flat_map f l))%nat.
Proof.
  intros H. induction l as [|x l IH]; [cbn; lia|].
  cbn [flat_map length]. rewrite app_length. specialize (H x). lia.
Qed.

Lemma set_listing_fuel_lemma st :
  Forall (fun p => simple_word (fst p) = true) st ->
  run_lines ws (lines_fuel (set_text st)) (set_text st)
  = Some (map (fun p => mkSimple [(fst p, OField (snd p))] []) st).
Proof.
  intros H. apply set_listing_lemma; [assumption|]. unfold lines_fuel, set_text.
  apply Nat.lt_succ_r. apply flat_map_length_ge. intros [n v]. cbn [fst snd].
  rewrite app_length. cbn [length]. rewrite app_length. cbn [length]. lia.
Qed.

Lemma trap_listing_fuel_lemma st :
  Forall (fun p => simple_word (fst p) = true) st ->
  run_lines ws (lines_fuel (trap_text st)) (trap_text st)
  = Some (map (fun p => mkSimple [] [OField s_trap; OField s_dd; OField (snd p); OField (fst p)]) st).
Proof.
  intros H. apply trap_listing_lemma; [assumption|]. unfold lines_fuel, trap_text.
  apply Nat.lt_succ_r. apply flat_map_length_ge. intros [n v]. cbn [fst snd].
  rewrite app_length. unfold s_trap_dd. cbn [length]. lia.
Qed.

(* --- set +o ----------------------------------------------------------------------- *)

(* a block of complete lines that reads as the commands [cs], whatever follows *)
Definition lines_ok (t : str) (cs : list simple) : Prop :=
  (length cs <= length t)%nat
  /\ forall fuel text,
       run_lines ws (length cs + fuel) (t ++ text) = option_map (app cs) (run_lines ws fuel text).

Lemma lines_ok_nil : lines_ok [] [].
Proof. split; [cbn; lia|]. intros fuel text. cbn. destruct (run_lines ws fuel text); reflexivity. Qed.

Lemma lines_ok_app t1 c1 t2 c2 : lines_ok t1 c1 -> lines_ok t2 c2 -> lines_ok (t1 ++ t2) (c1 ++ c2).
Proof.
  intros [L1 H1] [L2 H2]. split; [rewrite !app_length; lia|].
  intros fuel text. rewrite app_length, <- Nat.add_assoc, <- app_assoc, H1, H2.
  destruct (run_lines ws fuel text); cbn [option_map]; [rewrite app_assoc|]; reflexivity.
Qed.

Lemma lines_ok_line line c :
  line <> [] ->
  (forall text, run_line ws (line ++ c_nl :: text) = COk c (c_nl :: text)) ->
  lines_ok (line ++ [c_nl]) [c].
Proof.
  intros Hne H. split; [rewrite app_length; cbn; lia|].
  intros fuel text. rewrite <- app_assoc. cbn [app length Nat.add].
  rewrite (run_lines_step fuel line c text Hne (H text)).
  destruct (run_lines ws fuel text); reflexivity.
Qed.

Lemma lines_ok_flat_map {A} (f : A -> str) (g : A -> list simple) l :
  (forall x, In x l -> lines_ok (f x) (g x)) -> lines_ok (flat_map f l) (flat_map g l).
Proof.
  induction l as [|x l IH]; intros H; [apply lines_ok_nil|].
  cbn [flat_map]. apply lines_ok_app; [apply H; left; reflexivity|].
  apply IH. intros y Hy. apply H. right; assumption.
Qed.

Lemma lines_ok_run t cs : lines_ok t cs -> run_lines ws (lines_fuel t) t = Some cs.
Proof.
  intros [L H]. unfold lines_fuel.
  replace (S (length t)) with (length cs + S (length t - length cs))%nat by lia.
  rewrite <- (app_nil_r t) at 2. rewrite H. cbn. rewrite app_nil_r. reflexivity.
Qed.

Definition set_cmd (flag name : str) : simple := mkSimple [] [OField s_set; OField flag; OField name].

Lemma set_o_line_ok flag name :
  flag = s_minus_o \/ flag = s_plus_o -> simple_word name = true ->
  lines_ok (set_o_line flag name) [set_cmd flag name].
Proof.
  intros Hf Hn. unfold set_o_line.
  replace (s_set ++ c_sp :: flag ++ c_sp :: name ++ [c_nl])
    with ((s_set ++ c_sp :: flag ++ c_sp :: name) ++ [c_nl]) by (norm_app; reflexivity).
  apply lines_ok_line; [unfold s_set; cbn [app]; discriminate|].
  intros text.
  pose proof (run_line_multi ws rust_ws_ascii_ok s_set [flag; name] [flag; name] (c_nl :: text) eq_refl) as E.
  cbn [spaced flat_map] in E. rewrite app_nil_r in E.
  replace ((s_set ++ c_sp :: flag ++ c_sp :: name) ++ c_nl :: text)
    with (s_set ++ ((c_sp :: flag) ++ c_sp :: name) ++ c_nl :: text) by (norm_app; reflexivity).
  apply E; [|apply nl_rest_ok].
  constructor; [|constructor; [apply simple_multi_word; [apply rust_ws_ascii_ok | assumption]|constructor]].
  destruct Hf as [-> | ->].
  - change s_minus_o with (quote ws s_minus_o) at 1.
    apply quote_multi_word; [apply ws_sub | apply rust_ws_ascii_ok].
  - change s_plus_o with (quote ws s_plus_o) at 1.
    apply quote_multi_word; [apply ws_sub | apply rust_ws_ascii_ok].
Qed.

Lemma skip_comment_line line text :
  mem c_nl line = false -> skip_comment (line ++ c_nl :: text) = c_nl :: text.
Proof.
  induction line as [|c l IH]; intros H.
  - cbn. reflexivity.
  - rewrite mem_cons, orb_false_iff in H. destruct H as [H1 H2].
    cbn [app skip_comment]. rewrite N.eqb_sym, H1. apply IH. assumption.
Qed.

Lemma comment_line_ok line :
  mem c_nl line = false -> lines_ok ((c_hash :: line) ++ [c_nl]) [mkSimple [] []].
Proof.
  intros H. apply lines_ok_line; [discriminate|]. intros text.
  unfold run_line, words_fuel. cbn [app length read_words skip_blanks].
  change (N.eqb c_hash c_bs) with false. cbn iota.
  assert (Hb : is_blank ws c_hash = false) by reflexivity. rewrite Hb, N.eqb_refl.
  rewrite skip_comment_line by assumption. reflexivity.
Qed.

Definition opt_cmds (p : str * str) : list simple :=
  if str_eqb (fst p) s_portable then []
  else [if existsb (str_eqb (fst p)) unmodifiable then mkSimple [] []
        else set_cmd (opt_flag p) (fst p)].

Definition set_o_cmds (st : snapshot) : list simple :=
  set_cmd s_plus_o s_portable :: flat_map opt_cmds st
  ++ (if portable_on st then [set_cmd s_minus_o s_portable] else []).

Lemma simple_word_no_nl n : simple_word n = true -> mem c_nl n = false.
Proof.
  intros H. destruct n as [|c t]; [reflexivity|]. unfold simple_word in H.
  apply mem_false_iff. intros Hin. rewrite forallb_forall in H. specialize (H _ Hin). discriminate H.
Qed.

Lemma opt_line_ok p : simple_word (fst p) = true -> lines_ok (opt_line p) (opt_cmds p).
Proof.
  intros Hn. unfold opt_line, opt_cmds.
  destruct (str_eqb (fst p) s_portable); [apply lines_ok_nil|].
  assert (Hf : opt_flag p = s_minus_o \/ opt_flag p = s_plus_o)
    by (unfold opt_flag; destruct (str_eqb (snd p) s_on); auto).
  destruct (existsb (str_eqb (fst p)) unmodifiable).
  - unfold set_o_line. cbn [app].
    replace (c_hash :: s_set ++ c_sp :: opt_flag p ++ c_sp :: fst p ++ [c_nl])
      with ((c_hash :: s_set ++ c_sp :: opt_flag p ++ c_sp :: fst p) ++ [c_nl])
      by (norm_app; reflexivity).
    apply comment_line_ok.
    assert (Hm : mem c_nl (fst p) = false) by (apply simple_word_no_nl; assumption).
    change (s_set ++ c_sp :: opt_flag p ++ c_sp :: fst p)
      with (s_set ++ [c_sp] ++ opt_flag p ++ [c_sp] ++ fst p).
    rewrite !mem_app, Hm. destruct Hf as [-> | ->]; reflexivity.
  - apply set_o_line_ok; assumption.
Qed.

Lemma set_o_listing_lemma st :
  Forall (fun p => simple_word (fst p) = true) st ->
  run_lines ws (lines_fuel (set_o_text st)) (set_o_text st) = Some (set_o_cmds st).
Proof.
  intros H. apply lines_ok_run. unfold set_o_text, set_o_cmds.
  change (set_cmd s_plus_o s_portable :: flat_map opt_cmds st ++ (if portable_on st then [set_cmd s_minus_o s_portable] else []))
    with ([set_cmd s_plus_o s_portable] ++ flat_map opt_cmds st ++ (if portable_on st then [set_cmd s_minus_o s_portable] else [])).
  apply lines_ok_app; [apply set_o_line_ok; [right; reflexivity | reflexivity]|].
  apply lines_ok_app.
  - apply lines_ok_flat_map. intros p Hp. apply opt_line_ok.
    rewrite Forall_forall in H. apply H. assumption.
  - destruct (portable_on st); [apply set_o_line_ok; [left; reflexivity | reflexivity] | apply lines_ok_nil].
Qed.
