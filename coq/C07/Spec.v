(* C07 — SPEC.  What it means for a piece of shell text to "read back as
   exactly the field [s]", written as a decoder of the three notations POSIX
   XCU 2.2 offers for a literal word (nothing here follows the control flow of
   the lexer):

     bare        the text is [s] itself and nothing in it is special anywhere a
                 word can stand: no delimiter, no quoting character, no
                 expansion character, no pattern, no comment sign or tilde in
                 front, no tilde after a colon;
     '…'         everything between the quotes, which has no ['];
     "…"         between the quotes: backslash-newline vanishes, a backslash
                 before one of [$ ` " \] makes that character literal, any
                 other backslash is literal, an unescaped [$] or [`] would be
                 an expansion (rejected), an unescaped ["] cannot occur.

   [spec_reads q s] is the boolean ORACLE clause evaluated on what
   [yash_quote::quote] really returned; the other oracle clauses compare what
   the real shell read with [s] directly (Run.v). *)
From Yv Require Import Common.Base C07.Model.

Local Open Scope N_scope.

Section Spec.
  Variable lws : N -> bool.

  (* a character that stands for itself at any position of an unquoted word *)
  Definition plain_char (c : N) : bool :=
    negb (is_token_delimiter lws c)
    && negb (mem c [c_sq; c_dq; c_bs; c_dollar; c_bq; c_star; c_quest]).

  Fixpoint colon_tilde (s : str) : bool :=
    match s with
    | a :: ((b :: _) as t) => (N.eqb a c_colon && N.eqb b c_tilde) || colon_tilde t
    | _ => false
    end.

  (* an opening bracket with a closing bracket somewhere after it *)
  Fixpoint bracket_hazard (s : str) : bool :=
    match s with
    | [] => false
    | c :: t => (N.eqb c c_lbrk && mem c_rbrk t) || bracket_hazard t
    end.

  Definition inert (s : str) : bool :=
    match s with
    | [] => false
    | c :: _ =>
        negb (N.eqb c c_hash) && negb (N.eqb c c_tilde)
        && forallb plain_char s
        && negb (colon_tilde s)
        && negb (bracket_hazard s)
    end.

  (* the inside of a double quotation *)
  Fixpoint dq_decode (e : str) {struct e} : option str :=
    match e with
    | [] => Some []
    | c :: r =>
        if N.eqb c c_bs then
          match r with
          | [] => None
          | d :: r' =>
              if N.eqb d c_nl then dq_decode r'
              else if mem d dq_escaped then option_map (cons d) (dq_decode r')
              else option_map (cons c_bs) (dq_decode r)
          end
        else if N.eqb c c_dq || N.eqb c c_dollar || N.eqb c c_bq then None
        else option_map (cons c) (dq_decode r)
    end.

  Fixpoint split_last (l : str) : option (str * N) :=
    match l with
    | [] => None
    | [x] => Some ([], x)
    | x :: t => match split_last t with
                | Some (b, z) => Some (x :: b, z)
                | None => None
                end
    end.

  Definition spec_decode (q : str) : option str :=
    match q with
    | [] => None
    | c :: r =>
        if N.eqb c c_sq then
          match split_last r with
          | Some (body, z) => if N.eqb z c_sq && negb (mem c_sq body) then Some body else None
          | None => None
          end
        else if N.eqb c c_dq then
          match split_last r with
          | Some (body, z) => if N.eqb z c_dq then dq_decode body else None
          | None => None
          end
        else if inert q then Some q else None
    end.

  Definition spec_reads (q s : str) : bool :=
    option_eqb str_eqb (spec_decode q) (Some s).
End Spec.

(* Prop form of the property for one reading of one word: in the given
   context the word [q], followed by [rest], is read as the single field [s]
   whatever the environment (no tilde or pathname expansion applies), and the
   rest of the input is left for the next token. *)
Definition terminator_ok (lws : N -> bool) (rest : str) : Prop :=
  match rest with
  | [] => True
  | c :: _ => is_token_delimiter lws c = true /\ c <> c_lt /\ c <> c_gt
  end.

(* ---- vocabulary of the theorem statements ------------------------------- *)

(* ASCII letters, digits and the underscore *)
Definition name_char (c : N) : bool :=
  ((48 <=? c) && (c <=? 57)) || ((65 <=? c) && (c <=? 90))
  || ((97 <=? c) && (c <=? 122)) || (c =? 95).

(* a non-empty word of such characters (a variable name, a command name) *)
Definition simple_word (n : str) : bool :=
  match n with
  | [] => false
  | _ :: _ => forallb name_char n
  end.

(* the name of a command that is neither a reserved word nor a declaration
   utility nor [command] *)
Definition plain_cmd (cmd : str) : bool :=
  simple_word cmd
  && negb (existsb (str_eqb cmd) keywords)
  && negb (existsb (str_eqb cmd) [s_export; s_readonly; s_typeset; s_command]).

Definition decl_cmd (cmd : str) : bool :=
  existsb (str_eqb cmd) [s_export; s_readonly; s_typeset].

(* What the theorems assume about the lexer's white-space predicate: facts
   about ASCII only.  A space is a blank; the characters with a syntactic
   role and the name characters are not. *)
Record ascii_ok (lws : N -> bool) : Prop := {
  ok_space : lws c_sp = true;
  ok_special : forall c,
    mem c [c_bs; c_sq; c_dq; c_dollar; c_bq; c_hash;
           c_amp; c_lpar; c_rpar; c_semi; c_lt; c_gt; c_bar; c_eq] = true -> lws c = false;
  ok_name : forall c, name_char c = true -> lws c = false
}.

(* what may follow the command: the end of the input or a control operator *)
Definition rest_ok (rest : str) : Prop :=
  match rest with
  | [] => True
  | c :: _ => is_operator_char c = true /\ c <> c_lt /\ c <> c_gt
  end.

(* the operands [ q1 q2 …] of a command, each preceded by one space *)
Definition spaced (qs : list str) : str := flat_map (fun q => c_sp :: q) qs.

(* [quoted(name)=quoted(value)] as one operand of an ordinary command (the
   format of the alias listing): the two quotations are made separately, so a
   bare name with an opening bracket and a value with a closing bracket form a
   bracket expression across the [=].  Everything else is safe. *)
Definition pair_safe (qws : N -> bool) (n v : str) : bool :=
  str_needs_quoting qws n || negb (mem c_lbrk n) || negb (mem c_rbrk v).

(* an operand of a declaration utility as the printers write it: a quoted
   word (an option, "--", a name without value) or name=Qvalue *)
Inductive operand :=
| OpWord (s : str)
| OpAssign (name value : str)        (* name=Qvalue, an ordinary name *)
| OpPair (name value : str).         (* Qname=Qvalue, any name *)

Definition operand_text (qws : N -> bool) (o : operand) : str :=
  match o with
  | OpWord s => quote qws s
  | OpAssign n v => n ++ c_eq :: quote qws v
  | OpPair n v => quote qws n ++ c_eq :: quote qws v
  end.

Definition operand_field (o : operand) : str :=
  match o with
  | OpWord s => s
  | OpAssign n v | OpPair n v => n ++ c_eq :: v
  end.

Definition operand_ok (o : operand) : bool :=
  match o with
  | OpWord _ => true
  | OpAssign n _ => simple_word n
  | OpPair _ _ => true
  end.

(* the inside of the parentheses of  name=(Q1 Q2 ...)  as QuotedValue prints it *)
Definition array_body (qs : list str) : str :=
  match qs with
  | [] => []
  | q :: qs' => q ++ spaced qs'
  end.
