(* C07 — what the correspondence check evaluates on every case. *)
From Yv Require Export Common.Base C07.Model C07.Spec C07.Umask.

Local Open Scope N_scope.

(* what the real shell did with a script: [Some fields] = the fields the
   probe recorded, [None] = syntax error, other error, or panic *)
Definition reading := option (list str).

Definition reading_eqb : reading -> reading -> bool := option_eqb (list_eqb str_eqb).

Definition snapshot := list (str * str).
Definition snapshot_eqb : snapshot -> snapshot -> bool := list_eqb (pair_eqb str_eqb str_eqb).

Inductive case :=
(* s, yash_quote::quote(s), then what the real shell read in four contexts:
   [args Q] / [x=Q] (value of x) / [typeset x=Q] (value of x) / [args x=Q] *)
| KQuote (s q : str) (r_arg r_assign r_decl r_argeq : reading)
(* an arbitrary line: kind 0 = [args TEXT], 1 = [x=TEXT] (value of x),
   2 = [typeset x=TEXT] (value of x), 3 = [x=TEXT] where x is an array
   afterwards (its elements) *)
| KLine (kind : N) (text : str) (r : reading)
(* the code points for which the real char::is_whitespace is true, and those
   for which the real lex::is_token_delimiter_char is true *)
| KWs (table delims : list N)
(* bounded-exhaustive block: all strings prefix ++ t, t in alphabet^depth (in
   the order of [all_strs]); per string the shape the real quoter chose
   (0 bare, 1 single, 2 double), +4 if one of the four real readings was not
   exactly [s] (compared in the harness; such a string is also sent as a full
   KQuote case), +8 if the real output is not the rendering of any shape *)
| KExh (alphabet prefix : str) (depth : nat) (codes : list N)
(* name, value, the text [quoted(name)=quoted(value)], what [args TEXT] read
   in a directory that contains files a pattern could match *)
| KPair (n v line : str) (r : reading)
(* umask: with the mask [bits] the real `umask` printed [oct] and `umask -S`
   printed [sym] (without the newline); then `umask -- OPERAND` left the mask
   [result] (= [bits] when the operand was rejected) *)
| KUmask (bits : N) (oct sym operand : str) (result : N)
(* a listing: kind, the printed text, state before printing, state after a
   fresh shell evaluated the text *)
| KListing (kind : N) (printed : str) (before after : snapshot).

Definition s_args : str := [97; 114; 103; 115].
Definition s_x_eq : str := [120; 61].

Definition ws := rust_ws.

(* ---- model predictions of the four readings -------------------------- *)

Definition fields_of (os : list outcome) : option (list str) :=
  fold_right (fun o acc =>
                match o, acc with
                | OField f, Some l => Some (f :: l)
                | _, _ => None
                end) (Some []) os.

Inductive prediction :=
| PFields (l : list str)     (* the probe must record exactly these fields *)
| PError                     (* the shell must reject the line *)
| PUnknown.                  (* the model does not say *)

(* [args TEXT]: the fields after the command name *)
Definition predict_args (text : str) : prediction :=
  match run_line ws (s_args ++ c_sp :: text) with
  | COk (mkSimple [] (_ :: os)) [] =>
      match fields_of os with Some l => PFields l | None => PUnknown end
  | COk _ _ => PUnknown
  | CSyntax => PError
  | COutside => PUnknown
  end.

(* [x=TEXT]: the value assigned to x *)
Definition predict_assign (text : str) : prediction :=
  match run_line ws (s_x_eq ++ text) with
  | COk (mkSimple [(n, OField v)] []) [] => if str_eqb n [120] then PFields [v] else PUnknown
  | COk _ _ => PUnknown
  | CSyntax => PError
  | COutside => PUnknown
  end.

Fixpoint after_eq (s : str) : option str :=
  match s with
  | [] => None
  | c :: t => if N.eqb c c_eq then Some t else after_eq t
  end.

(* [typeset x=TEXT]: the value x gets *)
Definition predict_decl (text : str) : prediction :=
  match run_line ws (s_typeset ++ c_sp :: s_x_eq ++ text) with
  | COk (mkSimple [] [_; OField f]) [] =>
      match f with
      | 120 :: 61 :: v => PFields [v]
      | _ => PUnknown
      end
  | COk _ _ => PUnknown
  | CSyntax => PError
  | COutside => PUnknown
  end.

(* [x=TEXT] with TEXT = ( ... ): the elements of the array x *)
Definition predict_array (text : str) : prediction :=
  match run_array_line ws (s_x_eq ++ text) with
  | AOk n os [] =>
      if str_eqb n [120] then
        match fields_of os with Some l => PFields l | None => PUnknown end
      else PUnknown
  | AOk _ _ _ => PUnknown
  | ASyntax => PError
  | AOutside | AOutOfFuel => PUnknown
  end.

Definition agrees (p : prediction) (r : reading) : bool :=
  match p, r with
  | PFields l, Some l' => list_eqb str_eqb l l'
  | PFields _, None => false
  | PError, None => true
  | PError, Some _ => false
  | PUnknown, _ => true
  end.

(* ---- one quoted string ------------------------------------------------- *)

(* The oracle looks only at what the real shell read.  Whether the quoter's
   text is one of the three notations ([spec_reads]) is part of the model
   agreement: a different notation that the shell still reads back correctly
   breaks the correspondence, not the property. *)
Definition quote_oracle (s : str) (r_arg r_assign r_decl r_argeq : reading) : list bool :=
  [ reading_eqb r_arg (Some [s]);
    reading_eqb r_assign (Some [s]);
    reading_eqb r_decl (Some [s]);
    reading_eqb r_argeq (Some [s_x_eq ++ s]) ].

Definition quote_model_agrees (s q : str) (r_arg r_assign r_decl r_argeq : reading) : bool :=
  str_eqb (quote ws s) q
  && spec_reads ws q s
  && agrees (predict_args q) r_arg
  && agrees (predict_assign q) r_assign
  && agrees (predict_decl q) r_decl
  && agrees (predict_args (s_x_eq ++ q)) r_argeq.

Fixpoint first_false (k : N) (l : list bool) : option N :=
  match l with
  | [] => None
  | b :: t => if b then first_false (k + 1) t else Some k
  end.

(* ---- bounded-exhaustive blocks ---------------------------------------- *)

Fixpoint all_strs (alphabet : str) (depth : nat) : list str :=
  match depth with
  | O => [[]]
  | S d => flat_map (fun c => map (cons c) (all_strs alphabet d)) alphabet
  end.

Definition shape_of_code (k : N) : option shape :=
  match k with
  | 0 => Some Bare
  | 1 => Some Single
  | 2 => Some Double
  | _ => None
  end.

(* verdict for one string of a block.  The harness has compared the four real
   readings with [s] (bit 2); that the reader model predicts exactly [s] for
   the rendering of the model's shape is a theorem (quote_read_back and its variants), so only
   the shape is compared here. *)
Definition exh_one (s : str) (code : N) : verdict :=
  if N.testbit code 2 then 2                 (* a real reading was not exactly [s] *)
  else
    match shape_of_code code with
    | None => 1                              (* not a rendering of the three shapes *)
    | Some sh => if shape_eqb (quote_shape ws s) sh then 0 else 1
    end.

Fixpoint exh_all (ss : list str) (codes : list N) (acc : verdict) : verdict :=
  match ss, codes with
  | [], [] => acc
  | s :: ss, c :: codes =>
      let v := exh_one s c in
      if 2 <=? v then v else exh_all ss codes (if N.eqb acc 0 then v else acc)
  | _, _ => 99
  end.

(* ---- listings ----------------------------------------------------------- *)

Definition s_trap_dd : str := [116; 114; 97; 112; 32; 45; 45; 32].   (* "trap -- " *)
Definition s_trap : str := [116; 114; 97; 112].
Definition s_alias : str := [97; 108; 105; 97; 115].
Definition s_dd : str := [45; 45].                                     (* "--" *)

(* how the harness hands the alias listing to the fresh shell: one [alias]
   command with [--] and every entry as an operand *)
Definition alias_eval_text (st : snapshot) : str :=
  s_alias ++ spaced (s_dd :: map (fun p => quote ws (fst p) ++ c_eq :: quote ws (snd p)) st).

(* the text the printers produce for the simple formats *)
(* alias: Qname=Qvalue *)
Definition alias_text (st : snapshot) : str :=
  flat_map (fun p => quote ws (fst p) ++ c_eq :: quote ws (snd p) ++ [c_nl]) st.
(* set: name=Qvalue *)
Definition set_text (st : snapshot) : str :=
  flat_map (fun p => fst p ++ c_eq :: quote ws (snd p) ++ [c_nl]) st.
(* trap: trap -- Qaction COND; the snapshot is (condition, action) *)
Definition trap_text (st : snapshot) : str :=
  flat_map (fun p => s_trap_dd ++ quote ws (snd p) ++ c_sp :: fst p ++ [c_nl]) st.

(* set +o:  set +o portable / [#]set -o|+o NAME ... / set -o portable if it was on;
   the snapshot is (option name, "on"|"off") in the order of Option::iter() *)
Definition s_set : str := [115; 101; 116].
Definition s_minus_o : str := [45; 111].
Definition s_plus_o : str := [43; 111].
Definition s_on : str := [111; 110].
Definition s_portable : str := [112; 111; 114; 116; 97; 98; 108; 101].
(* Option::is_modifiable is false for cmdline, interactive, stdin *)
Definition unmodifiable : list str :=
  [[99; 109; 100; 108; 105; 110; 101]; [105; 110; 116; 101; 114; 97; 99; 116; 105; 118; 101];
   [115; 116; 100; 105; 110]].

Definition set_o_line (flag name : str) : str := s_set ++ c_sp :: flag ++ c_sp :: name ++ [c_nl].
Definition opt_flag (p : str * str) : str := if str_eqb (snd p) s_on then s_minus_o else s_plus_o.
Definition opt_line (p : str * str) : str :=
  if str_eqb (fst p) s_portable then []
  else (if existsb (str_eqb (fst p)) unmodifiable then [c_hash] else [])
       ++ set_o_line (opt_flag p) (fst p).
Definition portable_on (st : snapshot) : bool :=
  existsb (fun p => str_eqb (fst p) s_portable && str_eqb (snd p) s_on) st.
Definition set_o_text (st : snapshot) : str :=
  set_o_line s_plus_o s_portable ++ flat_map opt_line st
  ++ (if portable_on st then set_o_line s_minus_o s_portable else []).

Definition model_listing (kind : N) (st : snapshot) : option str :=
  match kind with
  | 0 => Some (alias_text st)
  | 1 => Some (set_text st)
  | 2 => Some (trap_text st)
  | 6 => Some (set_o_text st)
  | _ => None
  end.

(* ---- verdict ------------------------------------------------------------ *)

Definition run_case (c : case) : verdict :=
  match c with
  | KQuote s q r1 r2 r3 r4 =>
      match first_false 0 (quote_oracle s r1 r2 r3 r4) with
      | Some k => 2 + k
      | None => if quote_model_agrees s q r1 r2 r3 r4 then 0 else 1
      end
  | KLine kind text r =>
      let p := match kind with
               | 0 => predict_args text
               | 1 => predict_assign text
               | 2 => predict_decl text
               | 3 => predict_array text
               | _ => PUnknown
               end in
      if 4 <=? kind then 99 else if agrees p r then 0 else 1
  | KWs table delims =>
      if list_eqb N.eqb table ws_table && forallb ws ws_table
         && list_eqb N.eqb delims delim_table && forallb (is_token_delimiter ws) delim_table
      then 0 else 1
  | KExh alphabet prefix depth codes =>
      exh_all (map (app prefix) (all_strs alphabet depth)) codes 0
  | KPair n v line r =>
      if negb (reading_eqb r (Some [n ++ c_eq :: v])) then 7
      else if str_eqb (quote ws n ++ c_eq :: quote ws v) line
              && agrees (predict_args line) r then 0 else 1
  | KUmask bits oct sym operand result =>
      let expected := match umask_set bits operand with
                      | ROk v => Some v
                      | RErr => Some bits
                      | RFuel => None
                      end in
      if str_eqb (show_octal bits) oct && str_eqb (show_symbolic bits) sym
         && option_eqb N.eqb expected (Some result)
      then 0 else 1
  | KListing kind printed before after =>
      if negb (snapshot_eqb before after) then 8
      else match model_listing kind before with
           | Some t => if str_eqb t printed then 0 else 1
           | None => 0
           end
  end.

Definition run_cases := run_cases_with run_case.
