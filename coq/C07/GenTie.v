(* C07 — the quoter's decision tables are those of the source.

   Gen/Gen_C07.v is regenerated from yash-quote/src/lib.rs on every run by
   translator/c07_quote.py (which also compares the shape of
   char_needs_quoting, str_needs_quoting and Display for Quoted with the
   skeleton the model mirrors and fails closed).  Here the quoter is written
   once more, directly over the generated tables ([quote_src]), and proved
   equal to the hand-written model [Model.quote] for every white-space
   predicate and every string.  Every theorem about [quote] (the round trips of
   Properties.v) is thereby a theorem about the tables the code contains now: a
   change of a table in the source breaks [quote_is_source_quote]. *)
From Coq Require Import NArith List Bool.
From Yv Require Import Common.Base C07.Model Gen.Gen_C07.
Import ListNotations.
Local Open Scope N_scope.

(* the tables, definitionally *)
Lemma always_quoted_is_source_table : always_quoted = gen_always_quoted.
Proof. reflexivity. Qed.

Lemma dq_escaped_is_source_table : dq_escaped = gen_dq_escaped.
Proof. reflexivity. Qed.

Section Src.
  Variable qws : N -> bool.

  Definition char_needs_quoting_src (c : N) : bool := mem c gen_always_quoted || qws c.

  Definition str_needs_quoting_src (s : str) : bool :=
    match s with
    | [] => true
    | c :: _ =>
        mem c gen_first_chars
        || existsb char_needs_quoting_src s
        || has_pair (fst gen_needle) (snd gen_needle) s
        || existsb (fun oc => open_then_close (fst oc) (snd oc) s) gen_open_close
    end.

  Definition quote_src (s : str) : str :=
    if negb (str_needs_quoting_src s) then s
    else if negb (mem gen_dq_selector s) then gen_dq_selector :: s ++ [gen_dq_selector]
    else c_dq :: flat_map (fun c => if mem c gen_dq_escaped then [c_bs; c] else [c]) s ++ [c_dq].

  Lemma str_needs_quoting_is_source : forall s, str_needs_quoting qws s = str_needs_quoting_src s.
  Proof.
    intros [|c t]; [reflexivity|].
    unfold str_needs_quoting, str_needs_quoting_src.
    change (existsb (fun oc => open_then_close (fst oc) (snd oc) (c :: t)) gen_open_close)
      with (open_then_close c_lbrace c_rbrace (c :: t)
            || (open_then_close c_lbrk c_rbrk (c :: t) || false)).
    change (mem c gen_first_chars) with (N.eqb c c_hash || (N.eqb c c_tilde || false)).
    change (has_pair (fst gen_needle) (snd gen_needle)) with (has_pair c_colon c_tilde).
    change (existsb char_needs_quoting_src) with (existsb (char_needs_quoting qws)).
    rewrite !orb_false_r, !orb_assoc. reflexivity.
  Qed.

  Lemma quote_is_source_quote : forall s, quote qws s = quote_src s.
  Proof.
    intros s. unfold quote, quote_shape, quote_src.
    rewrite str_needs_quoting_is_source.
    destruct (str_needs_quoting_src s); [|reflexivity].
    cbn [negb].
    change (mem gen_dq_selector s) with (mem c_sq s).
    destruct (mem c_sq s); reflexivity.
  Qed.
End Src.

(* THE ROUND TRIP OVER THE SOURCE'S TABLES: the command line made of a command
   name and the strings quoted with the tables read from yash-quote/src/lib.rs
   reads back as exactly those fields *)
From Yv Require Import C07.Spec C07.Proofs C07.Run.
Lemma source_quote_read_back_lemma : forall qws lws, (forall c, lws c = true -> qws c = true) ->
  ascii_ok lws -> forall cmd ss rest,
  plain_cmd cmd = true -> rest_ok rest ->
  run_line lws (cmd ++ spaced (map (quote_src qws) ss) ++ rest)
  = COk (mkSimple [] (OField cmd :: map OField ss)) rest.
Proof.
  intros qws lws Hsub Hok cmd ss rest Hc Hr.
  rewrite <- (map_ext _ _ (quote_is_source_quote qws)).
  apply quote_args_lemma; assumption.
Qed.
