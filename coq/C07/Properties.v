(* C07 — property theorems only.  Each is closed by [exact] of a lemma from
   Proofs.v / OracleProofs.v; the driver pins the statements with [Check] and
   prints the assumptions on every run.

   Reading guide.  [qws] is the white-space predicate of the quoter, [lws]
   that of the lexer (both are [char::is_whitespace] in yash-rs, = [rust_ws],
   theorem [rust_whitespace_table]); the only relation the round trip needs is
   [forall c, lws c = true -> qws c = true] — every blank of the lexer is
   white space for the quoter — plus ASCII facts about [lws] ([ascii_ok]).
   [run_line lws text] is the reader model: the simple command at the start of
   [text] as assignments and fields, [OField f] = exactly the field [f]
   whatever HOME and the file system contain. *)
From Yv Require Import Common.Base C07.Model C07.Spec C07.Proofs C07.Run C07.OracleProofs C07.UmaskProofs C07.GenTie Gen.Gen_C07.
Local Open Scope N_scope.

(* the model's white-space table is the 25 code points of Unicode White_Space *)
Theorem rust_whitespace_table : forall c, rust_ws c = true <-> In c ws_table.
Proof. exact rust_ws_table. Qed.

(* the ASCII facts assumed of the lexer's predicate hold of the real one *)
Theorem rust_ws_is_ascii_ok : ascii_ok rust_ws.
Proof. exact rust_ws_ascii_ok. Qed.

(* the lexer's token delimiters (operator characters and blanks) and its
   blanks: white space except the newline - CR, VT and FF are blanks *)
Theorem rust_delimiter_table : forall c, is_token_delimiter rust_ws c = true <-> In c delim_table.
Proof. exact rust_delim_table. Qed.

Theorem rust_blank_class : forall c, is_blank rust_ws c = true <-> In c ws_table /\ c <> c_nl.
Proof. exact rust_blank_class. Qed.

(* every delimiter of the lexer is a character the quoter quotes *)
Theorem delimiter_needs_quoting : forall qws lws, (forall c, lws c = true -> qws c = true) ->
  forall c, is_token_delimiter lws c = true -> char_needs_quoting qws c = true.
Proof. exact delimiter_needs_quoting. Qed.
Example cr_vt_ff_are_blanks_and_quoted :
  forallb (fun c => is_blank rust_ws c && char_needs_quoting rust_ws c
                    && shape_eqb (quote_shape rust_ws [97; c; 98]) Single) [13; 11; 12; 9; 32; 160] = true.
Proof. reflexivity. Qed.

(* no tilde position in a bare word: not in front, not after ANY colon *)
Theorem bare_no_tilde_position : forall qws s, str_needs_quoting qws s = false ->
  (forall t, s <> c_tilde :: t) /\ (forall a b, s <> a ++ c_colon :: c_tilde :: b).
Proof. exact bare_no_tilde_position_lemma. Qed.

(* a quoted word is lexed as units that are never subject to tilde expansion
   (front or after colons) nor to pathname expansion, and strip to [s] *)
Theorem quoted_word_is_literal : forall qws lws, (forall c, lws c = true -> qws c = true) ->
  ascii_ok lws -> forall s,
  exists U,
    (forall rest, terminator_ok lws rest -> lex lws MUnq (quote qws s ++ rest) = LWord U rest)
    /\ tilde_front U = false /\ tilde_everywhere U = false
    /\ glob_active U = false /\ strip U = s.
Proof. exact quote_units_lemma. Qed.

(* what the quoter leaves bare has nothing special in it *)
Theorem bare_is_inert : forall qws lws, (forall c, lws c = true -> qws c = true) ->
  forall s, str_needs_quoting qws s = false -> inert lws s = true.
Proof. exact bare_inert. Qed.
Example bare_is_inert_nonvacuous : str_needs_quoting rust_ws [97; 58; 47; 91; 123] = false.
Proof. reflexivity. Qed.

(* the quoter's output is one of the three notations for its argument *)
Theorem quote_meets_spec : forall qws lws, (forall c, lws c = true -> qws c = true) ->
  forall s, spec_reads lws (quote qws s) s = true.
Proof. exact quote_meets_spec_lemma. Qed.

(* the reader model reads every word the specification accepts as that field:
   as command arguments ... *)
Theorem spec_words_read_back : forall lws, ascii_ok lws -> forall cmd qs ss rest,
  plain_cmd cmd = true ->
  Forall2 (fun q s => spec_reads lws q s = true) qs ss ->
  rest_ok rest ->
  run_line lws (cmd ++ spaced qs ++ rest) = COk (mkSimple [] (OField cmd :: map OField ss)) rest.
Proof. exact spec_args_lemma. Qed.
Example spec_words_read_back_nonvacuous :
  plain_cmd s_args = true /\ rest_ok [c_nl; 97]
  /\ Forall2 (fun q s => spec_reads rust_ws q s = true)
       [[39; 97; 32; 42; 39]; [34; 39; 92; 36; 34]; [45; 120]] [[97; 32; 42]; [39; 36]; [45; 120]].
Proof. repeat split; try discriminate; repeat constructor. Qed.

(* ... as the value of an assignment ... *)
Theorem spec_assign_reads_back : forall lws, ascii_ok lws -> forall name q s rest,
  simple_word name = true -> spec_reads lws q s = true -> rest_ok rest ->
  run_line lws (name ++ c_eq :: q ++ rest) = COk (mkSimple [(name, OField s)] []) rest.
Proof. exact spec_assign_lemma. Qed.

(* ... behind name= in an operand of a declaration utility ... *)
Theorem spec_decl_reads_back : forall lws, ascii_ok lws -> forall d name q s rest,
  decl_cmd d = true -> simple_word name = true -> spec_reads lws q s = true -> rest_ok rest ->
  run_line lws (d ++ c_sp :: name ++ c_eq :: q ++ rest)
  = COk (mkSimple [] [OField d; OField (name ++ c_eq :: s)]) rest.
Proof. exact spec_decl_lemma. Qed.

(* ... and behind name= in an operand of any other command *)
Theorem spec_argeq_reads_back : forall lws, ascii_ok lws -> forall cmd name q s rest,
  plain_cmd cmd = true -> simple_word name = true -> spec_reads lws q s = true -> rest_ok rest ->
  run_line lws (cmd ++ c_sp :: name ++ c_eq :: q ++ rest)
  = COk (mkSimple [] [OField cmd; OField (name ++ c_eq :: s)]) rest.
Proof. exact spec_argeq_lemma. Qed.
Example spec_contexts_nonvacuous :
  simple_word [120; 95; 49] = true /\ decl_cmd s_typeset = true /\ decl_cmd s_export = true
  /\ decl_cmd s_readonly = true /\ spec_reads rust_ws [39; 126; 39] [126] = true.
Proof. repeat split. Qed.

(* THE ROUND TRIP: for every list of strings, the command line made of a
   command name and the quoted strings reads back as exactly those fields *)
Theorem quote_read_back : forall qws lws, (forall c, lws c = true -> qws c = true) ->
  ascii_ok lws -> forall cmd ss rest,
  plain_cmd cmd = true -> rest_ok rest ->
  run_line lws (cmd ++ spaced (map (quote qws) ss) ++ rest)
  = COk (mkSimple [] (OField cmd :: map OField ss)) rest.
Proof. exact quote_args_lemma. Qed.

Example quote_read_back_nonvacuous :
  (forall c, rust_ws c = true -> rust_ws c = true) /\ ascii_ok rust_ws
  /\ plain_cmd s_args = true /\ rest_ok [c_semi; 97]
  /\ run_line rust_ws (s_args ++ spaced (map (quote rust_ws) [[97; 32; 98]; [39; 36]; []; [126]; [97; 12288]]) ++ [c_semi; 97])
     = COk (mkSimple [] (map OField [s_args; [97; 32; 98]; [39; 36]; []; [126]; [97; 12288]])) [c_semi; 97].
Proof.
  split; [auto|]. split; [exact rust_ws_ascii_ok|]. split; [reflexivity|].
  split; [repeat split; discriminate|]. vm_compute. reflexivity.
Qed.

Theorem quote_read_back_assign : forall qws lws, (forall c, lws c = true -> qws c = true) ->
  ascii_ok lws -> forall name s rest,
  simple_word name = true -> rest_ok rest ->
  run_line lws (name ++ c_eq :: quote qws s ++ rest) = COk (mkSimple [(name, OField s)] []) rest.
Proof. exact quote_assign_lemma. Qed.

Theorem quote_read_back_decl : forall qws lws, (forall c, lws c = true -> qws c = true) ->
  ascii_ok lws -> forall d name s rest,
  decl_cmd d = true -> simple_word name = true -> rest_ok rest ->
  run_line lws (d ++ c_sp :: name ++ c_eq :: quote qws s ++ rest)
  = COk (mkSimple [] [OField d; OField (name ++ c_eq :: s)]) rest.
Proof. exact quote_decl_lemma. Qed.

Theorem quote_read_back_argeq : forall qws lws, (forall c, lws c = true -> qws c = true) ->
  ascii_ok lws -> forall cmd name s rest,
  plain_cmd cmd = true -> simple_word name = true -> rest_ok rest ->
  run_line lws (cmd ++ c_sp :: name ++ c_eq :: quote qws s ++ rest)
  = COk (mkSimple [] [OField cmd; OField (name ++ c_eq :: s)]) rest.
Proof. exact quote_argeq_lemma. Qed.

(* different strings have different quotations *)
Theorem quote_injective : forall qws lws, (forall c, lws c = true -> qws c = true) ->
  forall s1 s2, quote qws s1 = quote qws s2 -> s1 = s2.
Proof. exact quote_injective_lemma. Qed.

(* the fuel of the word loop is enough for every input *)
Theorem words_fuel_suffices : forall lws inp, read_words lws (words_fuel inp) inp <> WOutOfFuel.
Proof. exact words_fuel_suffices_lemma. Qed.

(* ORACLE SOUNDNESS: if the implementation returns what the model returns and
   the shell reads what the theorems say, the run-time check answers 0 *)
Theorem oracle_sound_quote : forall s,
  run_case (KQuote s (quote ws s) (Some [s]) (Some [s]) (Some [s]) (Some [s_x_eq ++ s])) = 0%N.
Proof. exact oracle_sound_quote_lemma. Qed.

Theorem oracle_sound_exh : forall s, exh_one s (shape_code (quote_shape ws s)) = 0%N.
Proof. exact oracle_sound_exh_lemma. Qed.

(* Qname=Qvalue as an operand of an ordinary command (the alias listing
   format): read back as name=value unless the bare name has an opening
   bracket and the value a closing one *)
Theorem quote_pairs_read_back : forall qws lws, (forall c, lws c = true -> qws c = true) ->
  ascii_ok lws -> forall cmd st rest,
  plain_cmd cmd = true -> rest_ok rest ->
  Forall (fun p => pair_safe qws (fst p) (snd p) = true) st ->
  run_line lws (cmd ++ spaced (map (fun p => quote qws (fst p) ++ c_eq :: quote qws (snd p)) st) ++ rest)
  = COk (mkSimple [] (OField cmd :: map (fun p => OField (fst p ++ c_eq :: snd p)) st)) rest.
Proof. exact quote_pairs_lemma. Qed.
Example quote_pairs_read_back_nonvacuous :
  Forall (fun p => pair_safe rust_ws (fst p) (snd p) = true)
    [([97; 91], [120]); ([97; 32; 91], [93]); ([97], [93; 91])].
Proof. repeat constructor. Qed.

(* the lines `export -p`, `readonly -p` and `typeset -p` print for variables
   with ordinary names:  <utility> [-x] [-r] [--] name=Qvalue  or  ... name .
   Every operand is a quoted word or name=Qvalue; the line reads back as the
   utility with exactly those operands *)
Theorem decl_line_reads_back : forall qws lws, (forall c, lws c = true -> qws c = true) ->
  ascii_ok lws -> forall d os rest,
  decl_cmd d = true -> rest_ok rest -> forallb operand_ok os = true ->
  run_line lws (d ++ spaced (map (operand_text qws) os) ++ rest)
  = COk (mkSimple [] (OField d :: map (fun o => OField (operand_field o)) os)) rest.
Proof. exact decl_line_lemma. Qed.
Example decl_line_reads_back_nonvacuous :
  forallb operand_ok [OpWord [45; 120]; OpWord [45; 114]; OpWord [45; 45]; OpAssign [110; 49] [97; 32; 126]; OpWord [97; 32; 98]] = true
  /\ run_line rust_ws (s_typeset ++ spaced (map (operand_text rust_ws)
        [OpWord [45; 120]; OpWord [45; 45]; OpAssign [110; 49] [97; 58; 126]]) ++ [c_nl])
     = COk (mkSimple [] (map OField [s_typeset; [45; 120]; [45; 45]; [110; 49; 61; 97; 58; 126]])) [c_nl].
Proof. split; [reflexivity | vm_compute; reflexivity]. Qed.
(* names that need quoting, with the -- separator:  typeset -r -- '-r x'=3 *)
Example decl_line_quoted_name :
  run_line rust_ws (s_typeset ++ spaced (map (operand_text rust_ws)
        [OpWord [45; 114]; OpWord [45; 45]; OpPair [45; 114; 32; 120] [51]; OpPair [99; 91] [93]]) ++ [c_nl])
  = COk (mkSimple [] (map OField [s_typeset; [45; 114]; [45; 45]; [45; 114; 32; 120; 61; 51]; [99; 91; 61; 93]])) [c_nl].
Proof. vm_compute. reflexivity. Qed.

(* ARRAYS.  name=(Q1 Q2 ...) as `set`, `typeset -p`, ... print an array: the
   reader model reads it as the array assignment with exactly those elements
   (elements are expanded like command words; none is a pattern or a tilde) *)
Theorem array_line_reads_back : forall qws lws, (forall c, lws c = true -> qws c = true) ->
  ascii_ok lws -> forall name vs rest,
  simple_word name = true ->
  run_array_line lws (name ++ c_eq :: c_lpar :: array_body (map (quote qws) vs) ++ c_rpar :: rest)
  = AOk name (map OField vs) rest.
Proof. exact array_line_lemma. Qed.
Example array_line_nonvacuous :
  run_array_line rust_ws ([97; 114; 114] ++ c_eq :: c_lpar
        :: array_body (map (quote rust_ws) [[49]; []; [39; 92]; [42]; [126]; [97; 13; 98]]) ++ [c_rpar; c_nl])
  = AOk [97; 114; 114] (map OField [[49]; []; [39; 92]; [42]; [126]; [97; 13; 98]]) [c_nl]
  /\ run_array_line rust_ws ([120] ++ c_eq :: c_lpar :: array_body [] ++ [c_rpar]) = AOk [120] [] [].
Proof. split; vm_compute; reflexivity. Qed.

(* LISTINGS.  The texts [set_text] / [trap_text] / [alias_text] are what the
   model says `set`, `trap` and `alias` print for a state (compared with the
   real output on every run); the reader model reads them back as that state. *)
Theorem set_listing_reads_back : forall st,
  Forall (fun p => simple_word (fst p) = true) st ->
  run_lines ws (lines_fuel (set_text st)) (set_text st)
  = Some (map (fun p => mkSimple [(fst p, OField (snd p))] []) st).
Proof. exact set_listing_fuel_lemma. Qed.

Theorem trap_listing_reads_back : forall st,
  Forall (fun p => simple_word (fst p) = true) st ->
  run_lines ws (lines_fuel (trap_text st)) (trap_text st)
  = Some (map (fun p => mkSimple [] [OField s_trap; OField s_dd; OField (snd p); OField (fst p)]) st).
Proof. exact trap_listing_fuel_lemma. Qed.
Example listing_nonvacuous :
  Forall (fun p => simple_word (fst p) = true) [([73; 78; 84], [101; 99; 104; 111; 32; 39; 34]); ([69; 88; 73; 84], [])].
Proof. repeat constructor. Qed.

(* the `set +o` listing (first `set +o portable`, unmodifiable options as
   comments, `set -o portable` last if it was on) reads back as those commands *)
Theorem set_o_listing_reads_back : forall st,
  Forall (fun p => simple_word (fst p) = true) st ->
  run_lines ws (lines_fuel (set_o_text st)) (set_o_text st) = Some (set_o_cmds st).
Proof. exact set_o_listing_lemma. Qed.
Example set_o_listing_nonvacuous :
  run_lines ws (lines_fuel (set_o_text [(s_portable, s_on); ([115; 116; 100; 105; 110], [111; 102; 102]); ([118; 105], s_on)]))
    (set_o_text [(s_portable, s_on); ([115; 116; 100; 105; 110], [111; 102; 102]); ([118; 105], s_on)])
  = Some [set_cmd s_plus_o s_portable; mkSimple [] []; set_cmd s_minus_o [118; 105]; set_cmd s_minus_o s_portable].
Proof. vm_compute. reflexivity. Qed.

(* UMASK (bound in the statement: masks below 0o1000).  Whatever the current
   mask is, giving the output of `umask -S` / `umask` for the mask [m] back to
   `umask` sets the mask [m]: printer, operand parser and clause evaluation of
   the model, all 512 x 512 combinations evaluated by vm_compute *)
Theorem umask_symbolic_round_trip : forall m cur, (m < 512)%N -> (cur < 512)%N ->
  umask_set cur (show_symbolic m) = ROk m.
Proof. exact umask_symbolic_lemma. Qed.

Theorem umask_octal_round_trip : forall m cur, (m < 512)%N -> (cur < 512)%N ->
  umask_set cur (show_octal m) = ROk m.
Proof. exact umask_octal_lemma. Qed.

(* the fuel of the operand parser is enough for every operand *)
Theorem umask_fuel_suffices : forall bits operand, umask_set bits operand <> RFuel.
Proof. exact umask_set_fuel. Qed.

(* the alias listing, given to one `alias --` command as the harness does *)
Theorem alias_listing_reads_back : forall st,
  Forall (fun p => pair_safe ws (fst p) (snd p) = true) st ->
  run_line ws (alias_eval_text st)
  = COk (mkSimple [] (OField s_alias :: OField s_dd
                        :: map (fun p => OField (fst p ++ c_eq :: snd p)) st)) [].
Proof. exact alias_listing_lemma. Qed.

(* without that condition it is false of the faithful model: alias "a[" with
   value "]x" is listed as  a[=]x , a pattern (finding F15) *)
Theorem alias_listing_refuted : exists n v,
  run_line ws (alias_eval_text [(n, v)])
  = COk (mkSimple [] [OField s_alias; OField s_dd; OGlob]) [].
Proof. exact alias_listing_refuted_lemma. Qed.

(* TIE TO THE SOURCE BY TRANSLATION: the quoter written over the tables that
   translator/c07_quote.py reads out of yash-quote/src/lib.rs on every run
   (Gen/Gen_C07.v) is the model's quoter, and the round trip holds of it *)
Theorem always_quoted_is_source_table : always_quoted = gen_always_quoted.
Proof. exact always_quoted_is_source_table. Qed.
Theorem dq_escaped_is_source_table : dq_escaped = gen_dq_escaped.
Proof. exact dq_escaped_is_source_table. Qed.
Theorem quote_is_source_quote : forall qws s, quote qws s = quote_src qws s.
Proof. exact quote_is_source_quote. Qed.
Theorem source_quote_read_back : forall qws lws, (forall c, lws c = true -> qws c = true) ->
  ascii_ok lws -> forall cmd ss rest,
  plain_cmd cmd = true -> rest_ok rest ->
  run_line lws (cmd ++ spaced (map (quote_src qws) ss) ++ rest)
  = COk (mkSimple [] (OField cmd :: map OField ss)) rest.
Proof. exact source_quote_read_back_lemma. Qed.

Print Assumptions rust_whitespace_table.
Print Assumptions rust_ws_is_ascii_ok.
Print Assumptions bare_is_inert.
Print Assumptions quote_meets_spec.
Print Assumptions spec_words_read_back.
Print Assumptions spec_assign_reads_back.
Print Assumptions spec_decl_reads_back.
Print Assumptions spec_argeq_reads_back.
Print Assumptions quote_read_back.
Print Assumptions quote_read_back_assign.
Print Assumptions quote_read_back_decl.
Print Assumptions quote_read_back_argeq.
Print Assumptions quote_injective.
Print Assumptions words_fuel_suffices.
Print Assumptions oracle_sound_quote.
Print Assumptions oracle_sound_exh.
Print Assumptions quote_pairs_read_back.
Print Assumptions set_listing_reads_back.
Print Assumptions trap_listing_reads_back.
Print Assumptions alias_listing_reads_back.
Print Assumptions alias_listing_refuted.
Print Assumptions decl_line_reads_back.
Print Assumptions rust_delimiter_table.
Print Assumptions rust_blank_class.
Print Assumptions delimiter_needs_quoting.
Print Assumptions bare_no_tilde_position.
Print Assumptions quoted_word_is_literal.
Print Assumptions set_o_listing_reads_back.
Print Assumptions umask_symbolic_round_trip.
Print Assumptions umask_octal_round_trip.
Print Assumptions umask_fuel_suffices.
Print Assumptions array_line_reads_back.
Print Assumptions always_quoted_is_source_table.
Print Assumptions dq_escaped_is_source_table.
Print Assumptions quote_is_source_quote.
Print Assumptions source_quote_read_back.
