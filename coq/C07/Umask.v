(* C07 — MODEL of the umask built-in (yash-builtin/src/umask.rs, umask/eval.rs,
   umask/format.rs, umask/symbol.rs, umask/syntax.rs): the two printers, the
   operand parser (octal and symbolic) and the evaluation of the clauses.
   Masks are numbers; [u16] negation is [not16]. *)
From Yv Require Import Common.Base.

Local Open Scope N_scope.

Definition not16 (x : N) : N := N.lxor (N.land x 65535) 65535.

(* ---- umask/symbol.rs ---------------------------------------------------- *)

Inductive uop := UAdd | URemove | USet.

Inductive perm :=
| PCopyUser | PCopyGroup | PCopyOther
| PLiteral (mask : N) (conditional_executable : bool).

Record clause := mkClause { cl_who : N; cl_actions : list (uop * perm) }.

Inductive res (A : Type) :=
| ROk (a : A)
| RErr                  (* the operand is rejected *)
| RFuel.                (* out of fuel (never, see [parse_clauses_fuel]) *)
Arguments ROk {A}. Arguments RErr {A}. Arguments RFuel {A}.

(* 'u' 'g' 'o' 'r' 'w' 'x' 'X' 's' *)
Definition perm_alpha (c : N) : bool :=
  existsb (N.eqb c) [117; 103; 111; 114; 119; 120; 88; 115].

Fixpoint span (p : N -> bool) (s : str) : str * str :=
  match s with
  | [] => ([], [])
  | c :: r => if p c then let (a, b) := span p r in (c :: a, b) else ([], s)
  end.

(* Who::parse *)
Fixpoint parse_who (s : str) (mask : N) : N * str :=
  match s with
  | c :: r =>
      if N.eqb c 117 then parse_who r (N.lor mask 448)        (* u: 0o700 *)
      else if N.eqb c 103 then parse_who r (N.lor mask 56)    (* g: 0o070 *)
      else if N.eqb c 111 then parse_who r (N.lor mask 7)     (* o: 0o007 *)
      else if N.eqb c 97 then parse_who r (N.lor mask 511)    (* a: 0o777 *)
      else (mask, s)
  | [] => (mask, s)
  end.

Definition who_of (s : str) : N * str :=
  let (m, r) := parse_who s 0 in ((if N.eqb m 0 then 511 else m), r).

(* Operator::parse *)
Definition parse_op (s : str) : option (uop * str) :=
  match s with
  | c :: r =>
      if N.eqb c 43 then Some (UAdd, r)
      else if N.eqb c 45 then Some (URemove, r)
      else if N.eqb c 61 then Some (USet, r)
      else None
  | [] => None
  end.

(* Permission::parse; [None] = InvalidCombination *)
Definition parse_perm (s : str) : option (perm * str) :=
  let (al, rest) := span perm_alpha s in
  if existsb (fun c => N.eqb c 117 || N.eqb c 103 || N.eqb c 111) al then
    match al with
    | [c] =>
        if N.eqb c 117 then Some (PCopyUser, rest)
        else if N.eqb c 103 then Some (PCopyGroup, rest)
        else Some (PCopyOther, rest)
    | _ => None
    end
  else
    Some (PLiteral
            (fold_left (fun m c =>
                          if N.eqb c 114 then N.lor m 292          (* r: 0o444 *)
                          else if N.eqb c 119 then N.lor m 146     (* w: 0o222 *)
                          else if N.eqb c 120 then N.lor m 73      (* x: 0o111 *)
                          else m) al 0)
            (existsb (N.eqb 88) al),
          rest).

(* the actions of one clause: Clause::parse after Who::parse *)
Fixpoint parse_actions (fuel : nat) (s : str) (acc : list (uop * perm)) : res (list (uop * perm) * str) :=
  match fuel with
  | O => RFuel
  | S fuel =>
      match parse_op s with
      | None => match acc with [] => RErr | _ :: _ => ROk (rev acc, s) end
      | Some (o, r) =>
          match parse_perm r with
          | None => RErr
          | Some (p, r') => parse_actions fuel r' ((o, p) :: acc)
          end
      end
  end.

(* parse_clauses *)
Fixpoint parse_clauses_from (fuel : nat) (s : str) (acc : list clause) : res (list clause) :=
  match fuel with
  | O => RFuel
  | S fuel =>
      let (w, r) := who_of s in
      match parse_actions (S (length r)) r [] with
      | ROk (acts, r') =>
          let acc' := mkClause w acts :: acc in
          match r' with
          | [] => ROk (rev acc')
          | c :: r'' => if N.eqb c 44 then parse_clauses_from fuel r'' acc' else RErr
          end
      | RErr => RErr
      | RFuel => RFuel
      end
  end.

Definition parse_clauses (s : str) : res (list clause) := parse_clauses_from (S (length s)) s [].

(* ---- umask/eval.rs ---------------------------------------------------------- *)

Definition copy3 (m : N) : N :=
  let m := N.land m 7 in N.lor (N.lor (N.shiftl m 6) (N.shiftl m 3)) m.

Definition and16 (a b : N) := N.land (N.land a b) 65535.

Definition eval_clauses (current : N) (cls : list clause) : N :=
  fold_left
    (fun result cl =>
       fold_left
         (fun result (a : uop * perm) =>
            let resolution :=
              match snd a with
              | PCopyUser => copy3 (N.shiftr current 6)
              | PCopyGroup => copy3 (N.shiftr current 3)
              | PCopyOther => copy3 current
              | PLiteral mask cx =>
                  N.lor mask (if cx && negb (N.eqb (N.land current 73) 0) then 73 else 0)
              end in
            let who := cl_who cl in
            match fst a with
            | UAdd => N.lor (N.land resolution who) result
            | URemove => N.land (not16 (N.land resolution who)) result
            | USet => N.lor (N.land resolution who) (N.land result (not16 who))
            end)
         (cl_actions cl) result)
    cls current.

(* ---- umask/syntax.rs: the operand -------------------------------------------- *)

Definition is_octal_digit (c : N) : bool := (48 <=? c) && (c <=? 55).
Definition is_ascii_digit (c : N) : bool := (48 <=? c) && (c <=? 57).

(* u16::from_str_radix(s, 8) *)
Definition parse_octal (s : str) : option N :=
  if forallb is_octal_digit s then
    let v := fold_left (fun a c => a * 8 + (c - 48)) s 0 in
    if v <=? 65535 then Some v else None
  else None.

Definition parse_operand (s : str) : res (list clause) :=
  match s with
  | c :: _ =>
      if is_ascii_digit c then
        match parse_octal s with
        | Some mask => ROk [mkClause 511 [(USet, PLiteral (not16 mask) false)]]
        | None => RErr
        end
      else parse_clauses s
  | [] => parse_clauses s
  end.

(* `umask OPERAND` when the file creation mask is [bits]: the new mask, or
   [None] if the operand is rejected (the mask stays) *)
Definition umask_set (bits : N) (operand : str) : res N :=
  match parse_operand operand with
  | ROk cls => ROk (not16 (eval_clauses (not16 bits) cls))
  | RErr => RErr
  | RFuel => RFuel
  end.

(* ---- umask/format.rs and the octal printer -------------------------------- *)

Definition sym3 (m : N) (r w x : N) : str :=
  (if N.eqb (N.land m r) 0 then [] else [114])
  ++ (if N.eqb (N.land m w) 0 then [] else [119])
  ++ (if N.eqb (N.land m x) 0 then [] else [120]).

(* format_symbolic(new_mask) where new_mask = !bits *)
Definition format_symbolic (allowed : N) : str :=
  [117; 61] ++ sym3 allowed 256 128 64
  ++ [44; 103; 61] ++ sym3 allowed 32 16 8
  ++ [44; 111; 61] ++ sym3 allowed 4 2 1.

(* `umask -S` and `umask` for a mask below 0o1000 *)
Definition show_symbolic (bits : N) : str := format_symbolic (not16 bits).
Definition show_octal (bits : N) : str :=
  [48 + N.land (N.shiftr bits 6) 7; 48 + N.land (N.shiftr bits 3) 7; 48 + N.land bits 7].

Fixpoint N_range (n : nat) : list N :=
  match n with
  | O => []
  | S k => N_range k ++ [N.of_nat k]
  end.
