(* C07 — lemmas. *)
From Yv Require Import Common.Base C07.Model C07.Spec.
From Coq Require Import ZifyBool.

Local Open Scope N_scope.

(* ---- small tools ---------------------------------------------------- *)

Lemma mem_true_iff c l : mem c l = true <-> In c l.
Proof.
  unfold mem. rewrite existsb_exists. split.
  - intros [x [Hin Hx]]. apply N.eqb_eq in Hx. subst; assumption.
  - intros Hin. exists c. split; [assumption | apply N.eqb_refl].
Qed.

Lemma mem_false_iff c l : mem c l = false <-> ~ In c l.
Proof.
  rewrite <- mem_true_iff. destruct (mem c l); split; intros H; congruence.
Qed.

Lemma mem_app c l1 l2 : mem c (l1 ++ l2) = mem c l1 || mem c l2.
Proof. unfold mem. apply existsb_app. Qed.

Lemma mem_cons c x l : mem c (x :: l) = N.eqb c x || mem c l.
Proof. reflexivity. Qed.

(* ---- the white-space table -------------------------------------------- *)

Lemma rust_ws_table c : rust_ws c = true <-> In c ws_table.
Proof.
  unfold rust_ws. rewrite orb_true_iff, mem_true_iff, andb_true_iff, !N.leb_le.
  unfold ws_table. cbn [In]. split.
  - intros [H | [H1 H2]].
    + repeat (destruct H as [H | H]; [subst; tauto | ]). contradiction.
    + assert (E : c = 8192 \/ c = 8193 \/ c = 8194 \/ c = 8195 \/ c = 8196 \/ c = 8197
                  \/ c = 8198 \/ c = 8199 \/ c = 8200 \/ c = 8201 \/ c = 8202) by lia.
      repeat (destruct E as [E | E]; [subst; tauto | ]). subst; tauto.
  - intros H.
    repeat (destruct H as [H | H]; [subst; first [left; tauto | right; lia] | ]).
    contradiction.
Qed.

(* the lexer's delimiter class for the real predicate *)
Lemma rust_delim_table c : is_token_delimiter rust_ws c = true <-> In c delim_table.
Proof.
  unfold is_token_delimiter, is_blank, is_operator_char.
  rewrite orb_true_iff, andb_true_iff, negb_true_iff, mem_true_iff, rust_ws_table.
  unfold operator_chars, ws_table, delim_table, c_nl, c_amp, c_lpar, c_rpar, c_semi, c_lt, c_gt, c_bar.
  cbn [In]. rewrite N.eqb_neq. split.
  - intros [H | [Hn H]]; repeat (destruct H as [H | H]; [subst; tauto | ]); contradiction.
  - intros H.
    repeat (destruct H as [H | H];
            [subst c; first [left; tauto | right; split; [discriminate | tauto]] | ]).
    contradiction.
Qed.

(* the blanks of the lexer: white space except the newline (so CR, VT and FF
   are blanks) *)
Lemma rust_blank_class c : is_blank rust_ws c = true <-> In c ws_table /\ c <> c_nl.
Proof.
  unfold is_blank. rewrite andb_true_iff, negb_true_iff, N.eqb_neq, rust_ws_table. tauto.
Qed.

(* ===================================================================== *)
(* Part A: what the quoter lets through is inert                          *)
(* ===================================================================== *)

Section Agreement.
  Variables qws lws : N -> bool.
  (* the agreement the property is about: every blank of the lexer is
     white space for the quoter *)
  Hypothesis Hsub : forall c, lws c = true -> qws c = true.

  Lemma unquoted_char_plain c :
    char_needs_quoting qws c = false -> plain_char lws c = true.
  Proof.
    unfold char_needs_quoting. rewrite orb_false_iff. intros [Hm Hq].
    assert (Hl : lws c = false).
    { destruct (lws c) eqn:E; [apply Hsub in E; congruence | reflexivity]. }
    unfold always_quoted, mem in Hm. cbn [existsb] in Hm.
    rewrite !orb_false_iff in Hm.
    unfold plain_char, is_token_delimiter, is_operator_char, is_blank, operator_chars, mem.
    cbn [existsb]. rewrite Hl.
    repeat match goal with H : _ /\ _ |- _ => destruct H end.
    repeat match goal with H : N.eqb c _ = false |- _ => rewrite H; clear H end.
    reflexivity.
  Qed.

  Lemma delimiter_needs_quoting c :
    is_token_delimiter lws c = true -> char_needs_quoting qws c = true.
  Proof.
    intros H. destruct (char_needs_quoting qws c) eqn:E; [reflexivity|].
    apply unquoted_char_plain in E. unfold plain_char in E. rewrite H in E. discriminate.
  Qed.

  Lemma has_pair_colon_tilde s : colon_tilde s = has_pair c_colon c_tilde s.
  Proof.
    induction s as [|a t IH]; [reflexivity|].
    destruct t as [|b t'].
    - cbn. rewrite andb_false_r. reflexivity.
    - change (colon_tilde (a :: b :: t')) with
        ((N.eqb a c_colon && N.eqb b c_tilde) || colon_tilde (b :: t')).
      rewrite IH. reflexivity.
  Qed.

  Lemma no_close_no_hazard t : mem c_rbrk t = false -> bracket_hazard t = false.
  Proof.
    induction t as [|x t IH]; [reflexivity|].
    rewrite mem_cons, orb_false_iff. intros [_ Hm].
    cbn [bracket_hazard]. rewrite Hm, andb_false_r, IH by assumption. reflexivity.
  Qed.

  Lemma open_close_hazard s :
    open_then_close c_lbrk c_rbrk s = false -> bracket_hazard s = false.
  Proof.
    unfold open_then_close. induction s as [|x t IH]; [reflexivity|].
    cbn [after_first bracket_hazard]. destruct (N.eqb x c_lbrk) eqn:E.
    - intros Hm. rewrite Hm, andb_false_r. cbn. apply no_close_no_hazard; assumption.
    - intros H. cbn. apply IH; assumption.
  Qed.

  Lemma has_pair_at a b x y : has_pair a b (x ++ a :: b :: y) = true.
  Proof.
    induction x as [|c x IH]; cbn [app has_pair].
    - rewrite !N.eqb_refl. reflexivity.
    - rewrite IH. apply orb_true_r.
  Qed.

  Lemma bare_no_tilde_position_lemma s :
    str_needs_quoting qws s = false ->
    (forall t, s <> c_tilde :: t) /\ (forall a b, s <> a ++ c_colon :: c_tilde :: b).
  Proof.
    destruct s as [|c t]; [discriminate|]. unfold str_needs_quoting.
    rewrite !orb_false_iff. intros [[[[[_ H2] _] H4] _] _]. split.
    - intros t' E. injection E as -> _. discriminate H2.
    - intros a b E. rewrite E, has_pair_at in H4. discriminate.
  Qed.

  Lemma bare_inert s : str_needs_quoting qws s = false -> inert lws s = true.
  Proof.
    destruct s as [|c t]; [discriminate|].
    unfold str_needs_quoting, inert. rewrite !orb_false_iff.
    intros [[[[[H1 H2] H3] H4] H5] H6].
    rewrite H1, H2, has_pair_colon_tilde, H4, open_close_hazard by assumption.
    cbn [negb andb]. rewrite andb_true_r, andb_true_r.
    apply forallb_forall. intros x Hx.
    apply unquoted_char_plain.
    destruct (char_needs_quoting qws x) eqn:E; [|reflexivity].
    assert (existsb (char_needs_quoting qws) (c :: t) = true)
      by (apply existsb_exists; exists x; auto).
    congruence.
  Qed.
End Agreement.

(* ===================================================================== *)
(* Part B: the quoter's output meets the specification                    *)
(* ===================================================================== *)

Lemma split_last_snoc l x : split_last (l ++ [x]) = Some (l, x).
Proof.
  induction l as [|a l IH]; [reflexivity|].
  cbn [app split_last]. rewrite IH. destruct (l ++ [x]) eqn:E.
  - destruct l; discriminate.
  - reflexivity.
Qed.

Lemma dq_escaped_facts d :
  mem d dq_escaped = true -> N.eqb d c_nl = false.
Proof.
  rewrite mem_true_iff. unfold dq_escaped. cbn [In].
  intros H. repeat (destruct H as [H | H]; [subst; reflexivity | ]). contradiction.
Qed.

Lemma dq_unescaped_facts c :
  mem c dq_escaped = false ->
  N.eqb c c_bs = false /\ (N.eqb c c_dq || N.eqb c c_dollar || N.eqb c c_bq) = false.
Proof.
  unfold dq_escaped, mem. cbn [existsb]. rewrite !orb_false_iff. tauto.
Qed.

Lemma dq_decode_escape s : dq_decode (dq_escape s) = Some s.
Proof.
  induction s as [|c s IH]; [reflexivity|].
  unfold dq_escape. cbn [flat_map]. fold (dq_escape s).
  destruct (mem c dq_escaped) eqn:E.
  - cbn [app dq_decode]. rewrite N.eqb_refl, (dq_escaped_facts c E), E, IH. reflexivity.
  - destruct (dq_unescaped_facts c E) as [H1 H2].
    cbn [app dq_decode]. rewrite H1, H2, IH. reflexivity.
Qed.

Lemma plain_char_facts lws c :
  plain_char lws c = true ->
  is_token_delimiter lws c = false
  /\ N.eqb c c_sq = false /\ N.eqb c c_dq = false /\ N.eqb c c_bs = false
  /\ N.eqb c c_dollar = false /\ N.eqb c c_bq = false
  /\ N.eqb c c_star = false /\ N.eqb c c_quest = false.
Proof.
  unfold plain_char, mem. cbn [existsb].
  rewrite andb_true_iff, !negb_true_iff, !orb_false_iff. tauto.
Qed.

Section QuoteSpec.
  Variables qws lws : N -> bool.
  Hypothesis Hsub : forall c, lws c = true -> qws c = true.

  Lemma quote_meets_spec_lemma s : spec_reads lws (quote qws s) s = true.
  Proof.
    assert (Hrefl : str_eqb s s = true) by (apply str_eqb_eq; reflexivity).
    unfold spec_reads, quote, quote_shape.
    destruct (str_needs_quoting qws s) eqn:Hn; cbn [negb].
    - destruct (mem c_sq s) eqn:Hs; cbn [negb render].
      + unfold spec_decode. change (N.eqb c_dq c_sq) with false. cbn iota.
        rewrite N.eqb_refl, split_last_snoc, N.eqb_refl, dq_decode_escape.
        exact Hrefl.
      + unfold spec_decode. rewrite N.eqb_refl, split_last_snoc, N.eqb_refl, Hs.
        exact Hrefl.
    - cbn [render]. pose proof (bare_inert qws lws Hsub s Hn) as Hi.
      destruct s as [|c t]; [discriminate|].
      assert (Hp : plain_char lws c = true).
      { unfold inert in Hi. rewrite !andb_true_iff in Hi.
        destruct Hi as [[[_ Hf] _] _]. cbn [forallb] in Hf.
        apply andb_true_iff in Hf. tauto. }
      destruct (plain_char_facts lws c Hp) as (_ & H1 & H2 & _).
      unfold spec_decode. rewrite H1, H2, Hi. exact Hrefl.
  Qed.
End QuoteSpec.

(* ===================================================================== *)
(* Part C: the reader model on words the specification accepts            *)
(* ===================================================================== *)

Definition cons_all (us : list wunit) (r : lexres) : lexres := fold_right cons_u r us.

Lemma cons_all_word us us' rest : cons_all us (LWord us' rest) = LWord (us ++ us') rest.
Proof. induction us as [|u us IH]; [reflexivity|]. cbn [cons_all fold_right app]. fold (cons_all us (LWord us' rest)). rewrite IH. reflexivity. Qed.

Lemma cons_all_app a b r : cons_all (a ++ b) r = cons_all a (cons_all b r).
Proof. unfold cons_all. apply fold_right_app. Qed.

Lemma cons_all_cons u a r : cons_all (u :: a) r = cons_u u (cons_all a r).
Proof. reflexivity. Qed.

Section Reader.
  Variable lws : N -> bool.
  Hypothesis Hok : ascii_ok lws.

  Lemma Hsp : lws c_sp = true.
  Proof. apply Hok. Qed.

  Lemma Hnq c : mem c [c_bs; c_sq; c_dq; c_dollar; c_bq] = true -> lws c = false.
  Proof.
    intros H. apply (ok_special lws Hok). rewrite mem_true_iff in *. cbn [In] in *.
    repeat (destruct H as [H | H]; [subst; tauto | ]). contradiction.
  Qed.

  Notation lex := (lex lws).

  (* a character the unquoted mode turns into [Lit] *)
  Definition lit_char (c : N) : bool :=
    negb (mem c [c_bs; c_sq; c_dq; c_dollar; c_bq]) && negb (is_token_delimiter lws c).

  Lemma plain_lit c : plain_char lws c = true -> lit_char c = true.
  Proof.
    intros H. destruct (plain_char_facts lws c H) as (H0 & H1 & H2 & H3 & H4 & H5 & _).
    unfold lit_char, mem. cbn [existsb]. rewrite H0, H1, H2, H3, H4, H5. reflexivity.
  Qed.

  Lemma lex_lit c r : lit_char c = true -> lex MUnq (c :: r) = cons_u (Lit c) (lex MUnq r).
  Proof.
    unfold lit_char, mem. cbn [existsb].
    rewrite andb_true_iff, !negb_true_iff, !orb_false_iff.
    intros [(H1 & H2 & H3 & H4 & H5 & _) H6].
    cbn [Model.lex]. rewrite H1, H2, H3, H4, H5, H6. reflexivity.
  Qed.

  Lemma lex_lits p r :
    forallb lit_char p = true -> lex MUnq (p ++ r) = cons_all (map Lit p) (lex MUnq r).
  Proof.
    induction p as [|c p IH]; [reflexivity|].
    cbn [forallb]. rewrite andb_true_iff. intros [Hc Hp].
    cbn [app map]. rewrite lex_lit, IH by assumption. reflexivity.
  Qed.

  (* in front of a delimiter (or at the end) the word is complete *)
  Lemma lex_stop rest : terminator_ok lws rest -> lex MUnq rest = LWord [] rest.
  Proof.
    destruct rest as [|c r]; [reflexivity|].
    intros [Hd _]. cbn [Model.lex].
    assert (Hs : mem c [c_bs; c_sq; c_dq; c_dollar; c_bq] = false).
    { destruct (mem c [c_bs; c_sq; c_dq; c_dollar; c_bq]) eqn:E; [|reflexivity].
      pose proof (Hnq c E) as Hl. rewrite mem_true_iff in E.
      unfold is_token_delimiter, is_blank in Hd. rewrite Hl, andb_false_r, orb_false_r in Hd.
      cbn [In] in E.
      repeat (destruct E as [E | E]; [subst c; discriminate Hd | ]). contradiction. }
    unfold mem in Hs. cbn [existsb] in Hs. rewrite !orb_false_iff in Hs.
    destruct Hs as (H1 & H2 & H3 & H4 & H5 & _).
    rewrite H1, H2, H3, H4, H5, Hd. reflexivity.
  Qed.

  (* single quotes *)
  Lemma lex_sq_body s r :
    mem c_sq s = false -> lex MSq (s ++ c_sq :: r) = cons_all (map Quo s) (lex MUnq r).
  Proof.
    induction s as [|c s IH].
    - intros _. cbn [app Model.lex map]. rewrite N.eqb_refl. reflexivity.
    - rewrite mem_cons, orb_false_iff. intros [Hc Hs].
      cbn [app Model.lex map]. rewrite N.eqb_sym, Hc, IH by assumption. reflexivity.
  Qed.

  Lemma lex_sq_open r : lex MUnq (c_sq :: r) = cons_u Mark (lex MSq r).
  Proof. reflexivity. Qed.

  Lemma lex_dq_open r : lex MUnq (c_dq :: r) = cons_u Mark (lex MDq r).
  Proof. reflexivity. Qed.

  (* double quotes *)
  Lemma lex_dq_body : forall n e, (length e <= n)%nat -> forall s r,
    dq_decode e = Some s ->
    lex MDq (e ++ c_dq :: r) = cons_all (map Quo s) (lex MUnq r).
  Proof.
    induction n as [|n IH]; intros e Hlen s r Hd.
    - destruct e; [|cbn in Hlen; lia]. cbn in Hd. injection Hd as <-. reflexivity.
    - destruct e as [|c e']. { cbn in Hd. injection Hd as <-. reflexivity. }
      cbn [length] in Hlen. cbn [dq_decode] in Hd. cbn [app Model.lex].
      destruct (N.eqb c c_bs) eqn:Ebs.
      + destruct e' as [|d e'']; [discriminate|].
        cbn [length] in Hlen. cbn [app].
        destruct (N.eqb d c_nl) eqn:Enl.
        * apply IH; [lia | assumption].
        * destruct (mem d dq_escaped) eqn:Eesc.
          -- destruct (dq_decode e'') as [s'|] eqn:Ed; [|discriminate].
             cbn in Hd. injection Hd as <-.
             rewrite (IH e'' ltac:(lia) s' r Ed). reflexivity.
          -- destruct (dq_decode (d :: e'')) as [s'|] eqn:Ed; [|discriminate].
             cbn [option_map] in Hd. injection Hd as <-.
             change (d :: e'' ++ c_dq :: r) with ((d :: e'') ++ c_dq :: r).
             rewrite (IH (d :: e'') ltac:(cbn [length]; lia) s' r Ed). reflexivity.
      + destruct (N.eqb c c_dq || N.eqb c c_dollar || N.eqb c c_bq) eqn:Esp; [discriminate|].
        rewrite !orb_false_iff in Esp. destruct Esp as [[E1 E2] E3].
        rewrite E1, E2, E3. cbn [orb].
        destruct (dq_decode e') as [s'|] eqn:Ed; [|discriminate].
        cbn in Hd. injection Hd as <-.
        rewrite (IH e' ltac:(lia) s' r Ed). reflexivity.
  Qed.

  (* ---- the units of a word the specification accepts ------------------- *)

  Definition units_of (q s : str) : list wunit :=
    match q with
    | c :: _ => if N.eqb c c_sq || N.eqb c c_dq then Mark :: map Quo s else map Lit s
    | [] => []
    end.

  Lemma split_last_inv l b z : split_last l = Some (b, z) -> l = b ++ [z].
  Proof.
    revert b. induction l as [|x t IH]; intros b; [discriminate|].
    cbn [split_last]. destruct t as [|y t'].
    - intros H. injection H as <- <-. reflexivity.
    - destruct (split_last (y :: t')) as [[b' z']|] eqn:E; [|discriminate].
      intros H. injection H as <- <-. rewrite (IH b' eq_refl). reflexivity.
  Qed.

  Lemma inert_plain q : inert lws q = true -> forallb (plain_char lws) q = true.
  Proof.
    destruct q as [|c t]; [discriminate|]. unfold inert. rewrite !andb_true_iff. tauto.
  Qed.

  Lemma forallb_impl {A} (f g : A -> bool) l :
    (forall x, f x = true -> g x = true) -> forallb f l = true -> forallb g l = true.
  Proof. intros H. rewrite !forallb_forall. auto. Qed.

  Lemma lex_spec q s :
    spec_decode lws q = Some s ->
    forall r, lex MUnq (q ++ r) = cons_all (units_of q s) (lex MUnq r).
  Proof.
    destruct q as [|c q']; [discriminate|].
    unfold spec_decode, units_of.
    destruct (N.eqb c c_sq) eqn:Esq.
    - apply N.eqb_eq in Esq. subst c.
      destruct (split_last q') as [[body z]|] eqn:El; [|discriminate].
      destruct (N.eqb z c_sq) eqn:Ez; [|discriminate].
      destruct (mem c_sq body) eqn:Em; [discriminate|].
      cbn [andb negb orb]. intros H r. injection H as <-.
      apply N.eqb_eq in Ez. subst z. apply split_last_inv in El. subst q'.
      cbn [app]. rewrite lex_sq_open, <- app_assoc. cbn [app].
      rewrite lex_sq_body by assumption. reflexivity.
    - destruct (N.eqb c c_dq) eqn:Edq.
      + apply N.eqb_eq in Edq. subst c.
        destruct (split_last q') as [[body z]|] eqn:El; [|discriminate].
        destruct (N.eqb z c_dq) eqn:Ez; [|discriminate].
        intros H r. apply N.eqb_eq in Ez. subst z. apply split_last_inv in El. subst q'.
        cbn [app orb]. rewrite lex_dq_open, <- app_assoc. cbn [app].
        rewrite (lex_dq_body (length body) body (Nat.le_refl _) s r H). reflexivity.
      + destruct (inert lws (c :: q')) eqn:Ei; [|discriminate].
        intros H r. injection H as <-. cbn [orb].
        apply lex_lits. apply (forallb_impl (plain_char lws)); [apply plain_lit|].
        apply inert_plain; assumption.
  Qed.

  Lemma strip_lits s : strip (map Lit s) = s.
  Proof.
    induction s as [|c s IH]; [reflexivity|].
    cbn [map]. change (strip (Lit c :: map Lit s)) with (c :: strip (map Lit s)).
    rewrite IH. reflexivity.
  Qed.

  Lemma strip_quos s : strip (map Quo s) = s.
  Proof.
    induction s as [|c s IH]; [reflexivity|].
    cbn [map]. change (strip (Quo c :: map Quo s)) with (c :: strip (map Quo s)).
    rewrite IH. reflexivity.
  Qed.

  Lemma strip_app a b : strip (a ++ b) = strip a ++ strip b.
  Proof. unfold strip. apply flat_map_app. Qed.

  Definition no_lit (us : list wunit) : Prop :=
    forall u, In u us -> match u with Lit _ => False | _ => True end.

  Lemma no_lit_quos s : no_lit (Mark :: map Quo s).
  Proof.
    intros u [<- | H]; [exact I|]. apply in_map_iff in H. destruct H as [x [<- _]]. exact I.
  Qed.

  Lemma no_lit_is_lit us c u : no_lit us -> In u us -> is_lit c u = false.
  Proof. intros H Hin. specialize (H u Hin). destruct u; [contradiction | reflexivity | reflexivity]. Qed.

  Lemma no_lit_existsb us c : no_lit us -> existsb (is_lit c) us = false.
  Proof.
    intros H. destruct (existsb (is_lit c) us) eqn:E; [|reflexivity].
    apply existsb_exists in E. destruct E as [u [Hin Hu]].
    rewrite (no_lit_is_lit us c u H Hin) in Hu. discriminate.
  Qed.

  Lemma no_lit_tail u us : no_lit (u :: us) -> no_lit us.
  Proof. intros H x Hx. apply H. right; assumption. Qed.

  Lemma no_lit_tilde_after_colon us : no_lit us -> tilde_after_colon us = false.
  Proof.
    induction us as [|u us IH]; [reflexivity|]. intros H.
    cbn [tilde_after_colon]. rewrite (no_lit_is_lit _ c_colon u H (or_introl eq_refl)).
    cbn [andb orb]. apply IH. eapply no_lit_tail; eassumption.
  Qed.

  Lemma no_lit_bracket_pair us : no_lit us -> bracket_pair us = false.
  Proof.
    induction us as [|u us IH]; [reflexivity|]. intros H.
    cbn [bracket_pair]. rewrite (no_lit_is_lit _ c_lbrk u H (or_introl eq_refl)).
    cbn [andb orb]. apply IH. eapply no_lit_tail; eassumption.
  Qed.

  Lemma no_lit_glob us : no_lit us -> glob_active us = false.
  Proof.
    intros H. unfold glob_active.
    rewrite !no_lit_existsb, no_lit_bracket_pair by assumption. reflexivity.
  Qed.

  (* bare words *)
  Lemma lits_existsb k s :
    existsb (is_lit k) (map Lit s) = mem k s.
  Proof.
    induction s as [|c s IH]; [reflexivity|].
    cbn [map existsb is_lit]. rewrite IH, mem_cons, (N.eqb_sym c k). reflexivity.
  Qed.

  Lemma lits_has_char k s :
    existsb (has_char k) (map Lit s) = mem k s.
  Proof.
    induction s as [|c s IH]; [reflexivity|].
    cbn [map existsb has_char]. rewrite IH, mem_cons, (N.eqb_sym c k). reflexivity.
  Qed.

  Lemma lits_bracket_pair s : bracket_pair (map Lit s) = bracket_hazard s.
  Proof.
    induction s as [|c s IH]; [reflexivity|].
    cbn [map bracket_pair bracket_hazard is_lit]. rewrite IH, lits_has_char. reflexivity.
  Qed.

  Lemma lits_tilde_after_colon s :
    colon_tilde s = false -> tilde_after_colon (map Lit s) = false.
  Proof.
    induction s as [|a t IH]; [reflexivity|].
    destruct t as [|b t'].
    - intros _. cbn. rewrite andb_false_r. reflexivity.
    - change (colon_tilde (a :: b :: t')) with
        ((N.eqb a c_colon && N.eqb b c_tilde) || colon_tilde (b :: t')).
      rewrite orb_false_iff. intros [H1 H2].
      change (map Lit (a :: b :: t')) with (Lit a :: map Lit (b :: t')).
      cbn [tilde_after_colon]. rewrite (IH H2).
      cbn [map tilde_at is_lit].
      destruct (N.eqb a c_colon); [|reflexivity].
      cbn [andb] in H1. rewrite H1. reflexivity.
  Qed.

  Lemma plain_not_mem k s :
    forallb (plain_char lws) s = true ->
    (forall c, plain_char lws c = true -> N.eqb c k = false) ->
    mem k s = false.
  Proof.
    intros Hf Hk. apply mem_false_iff. intros Hin.
    rewrite forallb_forall in Hf. specialize (Hk k (Hf k Hin)).
    rewrite N.eqb_refl in Hk. discriminate.
  Qed.

  Record units_ok (U : list wunit) (s : str) : Prop := {
    uo_strip : strip U = s;
    uo_tilde : forall b, tilde_at b U = false;
    uo_colon : tilde_after_colon U = false;
    uo_glob : glob_active U = false;
    uo_lit : literal_of U = Some s \/ literal_of U = None;
    uo_nonempty : U <> [];
    uo_head : forall u t, U = u :: t -> is_lit c_tilde u = false
  }.

  Lemma literal_of_lits s : literal_of (map Lit s) = Some s.
  Proof. induction s as [|c s IH]; [reflexivity|]. cbn [map literal_of]. rewrite IH. reflexivity. Qed.

  Lemma units_facts q s : spec_decode lws q = Some s -> units_ok (units_of q s) s.
  Proof.
    destruct q as [|c q']; [discriminate|].
    unfold spec_decode, units_of.
    destruct (N.eqb c c_sq) eqn:Esq; [|destruct (N.eqb c c_dq) eqn:Edq]; cbn [orb].
    1,2: intros _; pose proof (no_lit_quos s) as Hn; split;
      [ change (strip (Mark :: map Quo s)) with (strip (map Quo s)); apply strip_quos
      | intros b; reflexivity
      | apply no_lit_tilde_after_colon; assumption
      | apply no_lit_glob; assumption
      | right; reflexivity
      | discriminate
      | intros u t E; injection E as <- _; reflexivity ].
    destruct (inert lws (c :: q')) eqn:Ei; [|discriminate].
    intros H. injection H as <-.
    pose proof (inert_plain _ Ei) as Hp.
    unfold inert in Ei. rewrite !andb_true_iff, !negb_true_iff in Ei.
    destruct Ei as [[[[H1 H2] _] H4] H5].
    split.
    - apply strip_lits.
    - intros b. cbn [map tilde_at is_lit]. rewrite H2. reflexivity.
    - apply lits_tilde_after_colon; assumption.
    - unfold glob_active. rewrite !lits_existsb, lits_bracket_pair, H5.
      rewrite !plain_not_mem; try assumption; try reflexivity.
      + intros x Hx. apply (plain_char_facts lws x Hx).
      + intros x Hx. apply (plain_char_facts lws x Hx).
    - left. apply literal_of_lits.
    - discriminate.
    - intros u t E. cbn [map] in E. injection E as <- _. cbn [is_lit]. exact H2.
  Qed.

  (* ---- reading the words of a command ---------------------------------- *)

  Definition word_start (t : str) : Prop :=
    match t with
    | c :: _ => N.eqb c c_bs = false /\ is_blank lws c = false
                /\ N.eqb c c_hash = false /\ is_operator_char c = false
    | [] => False
    end.

  Definition word_reads (t : str) (U : list wunit) : Prop :=
    word_start t /\ forall r, lex MUnq (t ++ r) = cons_all U (lex MUnq r).

  Lemma skip_blanks_start t r : word_start t -> skip_blanks lws (t ++ r) = t ++ r.
  Proof.
    destruct t as [|c t]; [contradiction|]. intros (H1 & H2 & _).
    cbn [app skip_blanks]. rewrite H1, H2. reflexivity.
  Qed.

  Lemma blank_sp : is_blank lws c_sp = true.
  Proof. unfold is_blank. rewrite Hsp. reflexivity. Qed.

  Lemma read_words_sp fuel inp : read_words lws fuel (c_sp :: inp) = read_words lws fuel inp.
  Proof.
    destruct fuel; [reflexivity|]. cbn [read_words skip_blanks].
    change (N.eqb c_sp c_bs) with false. cbn iota. rewrite blank_sp. reflexivity.
  Qed.

  Lemma operator_char_facts c :
    is_operator_char c = true ->
    N.eqb c c_bs = false /\ N.eqb c c_hash = false /\ is_blank lws c = false.
  Proof.
    unfold is_operator_char, operator_chars. rewrite mem_true_iff. cbn [In]. intros H.
    destruct H as [H | H]; [subst c; repeat split; reflexivity|].
    repeat (destruct H as [H | H];
            [subst c; repeat split; try reflexivity; unfold is_blank;
             rewrite (ok_special lws Hok) by reflexivity; apply andb_false_r | ]).
    contradiction.
  Qed.

  Lemma rest_ok_terminator rest : rest_ok rest -> terminator_ok lws rest.
  Proof.
    destruct rest as [|c r]; [trivial|]. intros (H1 & H2 & H3).
    split; [unfold is_token_delimiter; rewrite H1; reflexivity | auto].
  Qed.

  Lemma read_words_end fuel rest : rest_ok rest -> read_words lws (S fuel) rest = WOk [] rest.
  Proof.
    destruct rest as [|c r]; [reflexivity|]. intros (Ho & _ & _).
    destruct (operator_char_facts c Ho) as (H1 & H2 & Hb).
    cbn [read_words skip_blanks]. rewrite H1, Hb, H2, Ho. reflexivity.
  Qed.

  Lemma read_words_word fuel t U rest :
    word_reads t U -> terminator_ok lws rest ->
    read_words lws (S fuel) (t ++ rest) =
      match read_words lws fuel rest with
      | WOk ws rest' => WOk (U :: ws) rest'
      | e => e
      end.
  Proof.
    intros [Hs Hl] Ht. cbn [read_words]. rewrite skip_blanks_start by assumption.
    destruct t as [|c t']; [contradiction|]. destruct Hs as (H1 & H2 & H3 & H4).
    cbn [app]. rewrite H3, H4. change (c :: t' ++ rest) with ((c :: t') ++ rest).
    rewrite Hl, lex_stop by assumption. rewrite cons_all_word, app_nil_r.
    destruct rest as [|d r].
    - rewrite andb_false_r. reflexivity.
    - destruct Ht as (_ & Hlt & Hgt).
      rewrite (proj2 (N.eqb_neq d c_lt) Hlt), (proj2 (N.eqb_neq d c_gt) Hgt), andb_false_r.
      reflexivity.
  Qed.

  Lemma spaced_cons q qs : spaced (q :: qs) = c_sp :: q ++ spaced qs.
  Proof. reflexivity. Qed.

  Lemma spaced_terminator qs rest : rest_ok rest -> terminator_ok lws (spaced qs ++ rest).
  Proof.
    destruct qs as [|q qs]; [apply rest_ok_terminator|]. intros _.
    rewrite spaced_cons. cbn [app terminator_ok]. split.
    - unfold is_token_delimiter. rewrite blank_sp, orb_true_r. reflexivity.
    - split; discriminate.
  Qed.

  Lemma read_words_spaced : forall ts Us, Forall2 word_reads ts Us ->
    forall rest fuel, rest_ok rest -> (length (spaced ts ++ rest) < fuel)%nat ->
    read_words lws fuel (spaced ts ++ rest) = WOk Us rest.
  Proof.
    induction 1 as [|t U ts Us Ht _ IH]; intros rest fuel Hr Hf.
    - cbn [spaced flat_map app] in *. destruct fuel; [lia|]. apply read_words_end; assumption.
    - rewrite spaced_cons in *. cbn [app] in *. rewrite read_words_sp.
      destruct fuel; [lia|]. rewrite <- app_assoc in *.
      rewrite (read_words_word fuel t U) by (try assumption; apply spaced_terminator; assumption).
      rewrite IH; [reflexivity | assumption |].
      cbn [length] in Hf. rewrite app_length in Hf. lia.
  Qed.

  Lemma read_words_command cmd U ts Us rest :
    word_reads cmd U -> Forall2 word_reads ts Us -> rest_ok rest ->
    read_words lws (words_fuel (cmd ++ spaced ts ++ rest)) (cmd ++ spaced ts ++ rest)
    = WOk (U :: Us) rest.
  Proof.
    intros Hc Hts Hr. unfold words_fuel.
    rewrite (read_words_word _ cmd U) by (try assumption; apply spaced_terminator; assumption).
    rewrite (read_words_spaced ts Us Hts); [reflexivity | assumption |].
    rewrite (app_length cmd).
    destruct cmd as [|c cmd']; [destruct Hc as [[] _]|]. cbn [length]. lia.
  Qed.

  (* ---- which texts read as which units ------------------------------------ *)

  Lemma name_char_facts c :
    name_char c = true ->
    lit_char c = true /\ N.eqb c c_bs = false /\ N.eqb c c_hash = false
    /\ is_operator_char c = false /\ is_blank lws c = false
    /\ N.eqb c c_eq = false /\ N.eqb c c_tilde = false /\ N.eqb c c_star = false
    /\ N.eqb c c_quest = false /\ N.eqb c c_lbrk = false.
  Proof.
    intros H. pose proof (ok_name lws Hok c H) as Hl.
    unfold lit_char, is_token_delimiter, is_blank. rewrite Hl, andb_false_r.
    unfold is_operator_char, operator_chars, mem. cbn [existsb].
    unfold name_char in H.
    unfold c_bs, c_sq, c_dq, c_dollar, c_bq, c_nl, c_amp, c_lpar, c_rpar, c_semi, c_lt, c_gt,
      c_bar, c_hash, c_eq, c_tilde, c_star, c_quest, c_lbrk.
    repeat split; lia.
  Qed.

  Lemma simple_word_reads w : simple_word w = true -> word_reads w (map Lit w).
  Proof.
    destruct w as [|c t]; [discriminate|]. unfold simple_word. intros Hf. split.
    - cbn [forallb] in Hf. apply andb_true_iff in Hf. destruct Hf as [Hc _].
      destruct (name_char_facts c Hc) as (_ & H1 & H2 & H3 & H4 & _).
      repeat split; assumption.
    - intros r. apply lex_lits. apply (forallb_impl name_char); [|assumption].
      intros x Hx. apply (name_char_facts x Hx).
  Qed.

  Lemma spec_word_start q s : spec_decode lws q = Some s -> word_start q.
  Proof.
    destruct q as [|c q']; [discriminate|]. unfold spec_decode.
    destruct (N.eqb c c_sq) eqn:Esq.
    { intros _. apply N.eqb_eq in Esq. subst c. repeat split; try reflexivity.
      unfold is_blank. rewrite (ok_special lws Hok c_sq eq_refl). apply andb_false_r. }
    destruct (N.eqb c c_dq) eqn:Edq.
    { intros _. apply N.eqb_eq in Edq. subst c. repeat split; try reflexivity.
      unfold is_blank. rewrite (ok_special lws Hok c_dq eq_refl). apply andb_false_r. }
    destruct (inert lws (c :: q')) eqn:Ei; [|discriminate]. intros _.
    pose proof (inert_plain _ Ei) as Hp. cbn [forallb] in Hp. apply andb_true_iff in Hp.
    destruct Hp as [Hc _].
    destruct (plain_char_facts lws c Hc) as (Hd & _ & _ & Hbs & _).
    unfold is_token_delimiter in Hd. apply orb_false_iff in Hd. destruct Hd as [Ho Hb].
    unfold inert in Ei. rewrite !andb_true_iff, !negb_true_iff in Ei.
    destruct Ei as [[[[H1 _] _] _] _].
    repeat split; assumption.
  Qed.

  Lemma spec_word_reads q s :
    spec_decode lws q = Some s -> word_reads q (units_of q s).
  Proof. intros H. split; [eapply spec_word_start; eassumption | apply lex_spec; assumption]. Qed.

  Lemma lit_char_eq : lit_char c_eq = true.
  Proof.
    unfold lit_char, is_token_delimiter, is_blank.
    rewrite (ok_special lws Hok c_eq eq_refl). reflexivity.
  Qed.

  (* the word  name=Q *)
  Lemma assign_word_reads name q s :
    simple_word name = true -> spec_decode lws q = Some s ->
    word_reads (name ++ c_eq :: q) (map Lit name ++ Lit c_eq :: units_of q s).
  Proof.
    intros Hn Hq. pose proof (simple_word_reads name Hn) as [Hs Hl]. split.
    - destruct name as [|c t]; [discriminate|]. exact Hs.
    - intros r. rewrite <- app_assoc. rewrite Hl. cbn [app].
      rewrite (lex_lit c_eq) by apply lit_char_eq.
      change (q ++ r) with (q ++ r). rewrite (lex_spec q s Hq).
      rewrite cons_all_app. reflexivity.
  Qed.

  (* ---- from units to the simple command ----------------------------------- *)

  Lemma no_eq_not_keyword l : In c_eq l -> existsb (str_eqb l) keywords = false.
  Proof.
    intros Hin. destruct (existsb (str_eqb l) keywords) eqn:E; [|reflexivity].
    apply existsb_exists in E. destruct E as [k [Hk He]]. apply str_eqb_eq in He. subst k.
    unfold keywords in Hk. cbn [In] in Hk. unfold c_eq in Hin.
    repeat (destruct Hk as [Hk | Hk];
            [subst l; cbn [In] in Hin;
             repeat (destruct Hin as [Hin | Hin]; [discriminate Hin|]); contradiction|]).
    contradiction.
  Qed.

  Lemma literal_of_app_lits a V :
    literal_of (map Lit a ++ V) = option_map (app a) (literal_of V).
  Proof.
    induction a as [|c a IH]; cbn [map app literal_of].
    - destruct (literal_of V); reflexivity.
    - rewrite IH. destruct (literal_of V); reflexivity.
  Qed.

  Lemma names_no_eq name : forallb name_char name = true -> mem c_eq name = false.
  Proof.
    intros H. apply mem_false_iff. intros Hin. rewrite forallb_forall in H.
    specialize (H _ Hin). discriminate H.
  Qed.

  Lemma split_eq_lits_none w : mem c_eq w = false -> split_eq (map Lit w) = None.
  Proof.
    induction w as [|c w IH]; [reflexivity|].
    rewrite mem_cons, orb_false_iff. intros [H1 H2].
    cbn [map split_eq is_lit]. rewrite N.eqb_sym, H1, IH by assumption. reflexivity.
  Qed.

  Lemma split_eq_assign name U :
    mem c_eq name = false ->
    split_eq (map Lit name ++ Lit c_eq :: U) = Some (map Lit name, U).
  Proof.
    induction name as [|c w IH].
    - intros _. reflexivity.
    - rewrite mem_cons, orb_false_iff. intros [H1 H2].
      cbn [map app split_eq is_lit]. rewrite N.eqb_sym, H1, IH by assumption. reflexivity.
  Qed.

  Lemma simple_word_head name :
    simple_word name = true ->
    exists c t, name = c :: t /\ name_char c = true /\ forallb name_char name = true.
  Proof.
    destruct name as [|c t]; [discriminate|]. unfold simple_word. intros H.
    exists c, t. repeat split; try assumption.
    cbn [forallb] in H. apply andb_true_iff in H. tauto.
  Qed.

  Lemma tilde_front_name name V :
    simple_word name = true -> tilde_front (map Lit name ++ V) = false.
  Proof.
    intros H. destruct (simple_word_head name H) as (c & t & -> & Hc & _).
    destruct (name_char_facts c Hc) as (_ & _ & _ & _ & _ & _ & Ht & _).
    unfold tilde_front. cbn [map app tilde_at is_lit]. rewrite Ht. reflexivity.
  Qed.

  Lemma as_assign_word name U :
    simple_word name = true ->
    as_assign (map Lit name ++ Lit c_eq :: U) = Some (name, U).
  Proof.
    intros H. unfold as_assign. rewrite tilde_front_name by assumption.
    destruct (simple_word_head name H) as (c & t & E & _ & Hf).
    rewrite split_eq_assign by (apply names_no_eq; assumption). cbn beta iota.
    pose proof (literal_of_lits name) as L. rewrite E in *. cbn [map] in *.
    rewrite L. reflexivity.
  Qed.

  Lemma as_assign_lits_none w :
    simple_word w = true -> as_assign (map Lit w) = None.
  Proof.
    intros H. unfold as_assign.
    rewrite <- (app_nil_r (map Lit w)), tilde_front_name, app_nil_r by assumption.
    destruct (simple_word_head w H) as (c & t & E & _ & Hf).
    rewrite split_eq_lits_none by (apply names_no_eq; assumption). reflexivity.
  Qed.

  Lemma no_open_no_hazard s : mem c_lbrk s = false -> bracket_hazard s = false.
  Proof.
    induction s as [|c s IH]; [reflexivity|].
    rewrite mem_cons, orb_false_iff. intros [H1 H2].
    cbn [bracket_hazard]. rewrite N.eqb_sym, H1, IH by assumption. reflexivity.
  Qed.

  Lemma names_not_mem k name :
    (forall c, name_char c = true -> N.eqb c k = false) ->
    forallb name_char name = true -> mem k name = false.
  Proof.
    intros Hk Hf. apply mem_false_iff. intros Hin. rewrite forallb_forall in Hf.
    specialize (Hk k (Hf k Hin)). rewrite N.eqb_refl in Hk. discriminate.
  Qed.

  Lemma names_no_glob_chars name :
    forallb name_char name = true ->
    mem c_star name = false /\ mem c_quest name = false /\ mem c_lbrk name = false.
  Proof.
    intros Hf. repeat split; apply names_not_mem; try assumption;
      intros c Hc; apply (name_char_facts c Hc).
  Qed.

  Lemma read_multi_lits w : simple_word w = true -> read_multi (map Lit w) = OField w.
  Proof.
    intros H. unfold read_multi.
    rewrite <- (app_nil_r (map Lit w)), tilde_front_name, app_nil_r by assumption.
    destruct (simple_word_head w H) as (c & t & E & _ & Hf).
    destruct (names_no_glob_chars w Hf) as (H1 & H2 & H3).
    unfold glob_active. rewrite !lits_existsb, lits_bracket_pair, H1, H2.
    rewrite no_open_no_hazard by assumption. rewrite strip_lits. reflexivity.
  Qed.

  Lemma plain_cmd_facts cmd :
    plain_cmd cmd = true ->
    simple_word cmd = true
    /\ is_keyword (map Lit cmd) = false
    /\ names_decl_util (map Lit cmd) = Some false.
  Proof.
    unfold plain_cmd. rewrite !andb_true_iff, !negb_true_iff. intros [[H1 H2] H3].
    split; [assumption|]. unfold is_keyword, names_decl_util. rewrite literal_of_lits.
    split; [assumption|].
    cbn [existsb] in H3. rewrite !orb_false_iff in H3. destruct H3 as (E1 & E2 & E3 & E4 & _).
    rewrite E1, E2, E3, E4. reflexivity.
  Qed.

  Lemma decl_cmd_facts d :
    decl_cmd d = true ->
    simple_word d = true
    /\ is_keyword (map Lit d) = false
    /\ names_decl_util (map Lit d) = Some true.
  Proof.
    unfold decl_cmd. rewrite existsb_exists. intros [k [Hk He]].
    apply str_eqb_eq in He. subst k. cbn [In] in Hk.
    repeat (destruct Hk as [Hk | Hk]; [subst d; repeat split; reflexivity|]). contradiction.
  Qed.

  Lemma read_multi_units q s : spec_decode lws q = Some s -> read_multi (units_of q s) = OField s.
  Proof.
    intros H. destruct (units_facts q s H) as [H1 H2 H3 H4 H5 H6 H7].
    unfold read_multi, tilde_front. rewrite H2, H4, H1. reflexivity.
  Qed.

  Lemma read_value_units q s : spec_decode lws q = Some s -> read_value (units_of q s) = OField s.
  Proof.
    intros H. destruct (units_facts q s H) as [H1 H2 H3 H4 H5 H6 H7].
    unfold read_value, tilde_everywhere. rewrite H2, H3, H1. reflexivity.
  Qed.

  Lemma strip_assign_word name U : strip (map Lit name ++ Lit c_eq :: U) = name ++ c_eq :: strip U.
  Proof. rewrite strip_app, strip_lits. reflexivity. Qed.

  Lemma read_decl_word name q s :
    simple_word name = true -> spec_decode lws q = Some s ->
    read_decl (map Lit name ++ Lit c_eq :: units_of q s) = OField (name ++ c_eq :: s).
  Proof.
    intros Hn H. destruct (units_facts q s H) as [H1 H2 H3 H4 H5 H6 H7].
    unfold read_decl. rewrite tilde_front_name, as_assign_word by assumption.
    unfold tilde_everywhere. rewrite H2, H3, strip_assign_word, H1. reflexivity.
  Qed.

  Lemma existsb_is_lit_app k a b :
    existsb (is_lit k) (a ++ b) = existsb (is_lit k) a || existsb (is_lit k) b.
  Proof. apply existsb_app. Qed.

  Lemma bracket_pair_app a b :
    existsb (is_lit c_lbrk) a = false -> bracket_pair (a ++ b) = bracket_pair b.
  Proof.
    induction a as [|u a IH]; [reflexivity|].
    cbn [existsb]. rewrite orb_false_iff. intros [H1 H2].
    cbn [app bracket_pair]. rewrite H1, IH by assumption. reflexivity.
  Qed.

  Lemma read_multi_word name q s :
    simple_word name = true -> spec_decode lws q = Some s ->
    read_multi (map Lit name ++ Lit c_eq :: units_of q s) = OField (name ++ c_eq :: s).
  Proof.
    intros Hn H. destruct (units_facts q s H) as [H1 H2 H3 H4 H5 H6 H7].
    destruct (simple_word_head name Hn) as (c & t & E & _ & Hf).
    destruct (names_no_glob_chars name Hf) as (G1 & G2 & G3).
    unfold glob_active in H4. rewrite !orb_false_iff in H4. destruct H4 as [[K1 K2] K3].
    unfold read_multi. rewrite tilde_front_name by assumption.
    change (map Lit name ++ Lit c_eq :: units_of q s)
      with (map Lit name ++ [Lit c_eq] ++ units_of q s).
    rewrite app_assoc.
    unfold glob_active.
    rewrite !(existsb_is_lit_app _ (map Lit name ++ [Lit c_eq])), K1, K2.
    rewrite bracket_pair_app, K3.
    - rewrite !existsb_is_lit_app, !lits_existsb, G1, G2. cbn [existsb is_lit orb].
      change (N.eqb c_eq c_star) with false. change (N.eqb c_eq c_quest) with false.
      cbn [orb]. rewrite <- app_assoc. cbn [app]. rewrite strip_assign_word, H1. reflexivity.
    - rewrite existsb_is_lit_app, lits_existsb, G3. reflexivity.
  Qed.

  Lemma keyword_assign_word name U :
    is_keyword (map Lit name ++ Lit c_eq :: U) = false.
  Proof.
    unfold is_keyword. rewrite literal_of_app_lits. cbn [literal_of].
    destruct (literal_of U) as [u|]; cbn [option_map]; [|reflexivity].
    apply no_eq_not_keyword. apply in_or_app. right. left. reflexivity.
  Qed.

  (* ---- the theorems about one simple command -------------------------------- *)

  Definition reads_as (q s : str) : Prop := spec_decode lws q = Some s.

  Lemma operands_units : forall qs ss, Forall2 reads_as qs ss ->
    exists Us, Forall2 word_reads qs Us /\ map read_multi Us = map OField ss.
  Proof.
    induction 1 as [|q s qs ss Hq _ [Us [IH1 IH2]]].
    - exists []. split; constructor.
    - exists (units_of q s :: Us). split.
      + constructor; [apply spec_word_reads; assumption | assumption].
      + cbn [map]. rewrite read_multi_units, IH2 by assumption. reflexivity.
  Qed.

  Lemma run_line_args cmd qs ss rest :
    plain_cmd cmd = true -> Forall2 reads_as qs ss -> rest_ok rest ->
    run_line lws (cmd ++ spaced qs ++ rest)
    = COk (mkSimple [] (OField cmd :: map OField ss)) rest.
  Proof.
    intros Hc Hq Hr. destruct (plain_cmd_facts cmd Hc) as (Hw & Hk & Hd).
    destruct (operands_units qs ss Hq) as [Us [HU HM]].
    unfold run_line.
    rewrite (read_words_command cmd (map Lit cmd) qs Us rest (simple_word_reads cmd Hw) HU Hr).
    unfold build_simple. rewrite Hk. cbn [take_assigns].
    rewrite as_assign_lits_none by assumption. rewrite Hd.
    rewrite read_multi_lits, HM by assumption. reflexivity.
  Qed.

  Lemma run_line_assign name q s rest :
    simple_word name = true -> reads_as q s -> rest_ok rest ->
    run_line lws (name ++ c_eq :: q ++ rest)
    = COk (mkSimple [(name, OField s)] []) rest.
  Proof.
    intros Hn Hq Hr. unfold run_line.
    pose proof (read_words_command (name ++ c_eq :: q) _ [] [] rest
                  (assign_word_reads name q s Hn Hq) (Forall2_nil _) Hr) as E.
    cbn [spaced flat_map app] in E. rewrite <- app_assoc in E. cbn [app] in E.
    rewrite E. unfold build_simple. rewrite keyword_assign_word. cbn [take_assigns].
    rewrite as_assign_word by assumption. rewrite read_value_units by assumption. reflexivity.
  Qed.

  Lemma run_line_operand cmd name q s rest :
    reads_as q s -> simple_word name = true -> rest_ok rest ->
    forall U, word_reads cmd U ->
    read_words lws (words_fuel (cmd ++ c_sp :: name ++ c_eq :: q ++ rest))
                   (cmd ++ c_sp :: name ++ c_eq :: q ++ rest)
    = WOk [U; map Lit name ++ Lit c_eq :: units_of q s] rest.
  Proof.
    intros Hq Hn Hr U HU.
    pose proof (read_words_command cmd U [name ++ c_eq :: q] _ rest HU
                  (Forall2_cons _ _ (assign_word_reads name q s Hn Hq) (Forall2_nil _)) Hr) as E.
    cbn [spaced flat_map app] in E. rewrite app_nil_r in E.
    rewrite <- app_assoc in E. cbn [app] in E. exact E.
  Qed.

  Lemma run_line_decl d name q s rest :
    decl_cmd d = true -> simple_word name = true -> reads_as q s -> rest_ok rest ->
    run_line lws (d ++ c_sp :: name ++ c_eq :: q ++ rest)
    = COk (mkSimple [] [OField d; OField (name ++ c_eq :: s)]) rest.
  Proof.
    intros Hd Hn Hq Hr. destruct (decl_cmd_facts d Hd) as (Hw & Hk & Hdu).
    unfold run_line.
    rewrite (run_line_operand d name q s rest Hq Hn Hr _ (simple_word_reads d Hw)).
    unfold build_simple. rewrite Hk. cbn [take_assigns].
    rewrite as_assign_lits_none by assumption. rewrite Hdu. cbn [map].
    rewrite read_multi_lits, read_decl_word by assumption. reflexivity.
  Qed.

  Lemma run_line_argeq cmd name q s rest :
    plain_cmd cmd = true -> simple_word name = true -> reads_as q s -> rest_ok rest ->
    run_line lws (cmd ++ c_sp :: name ++ c_eq :: q ++ rest)
    = COk (mkSimple [] [OField cmd; OField (name ++ c_eq :: s)]) rest.
  Proof.
    intros Hc Hn Hq Hr. destruct (plain_cmd_facts cmd Hc) as (Hw & Hk & Hdu).
    unfold run_line.
    rewrite (run_line_operand cmd name q s rest Hq Hn Hr _ (simple_word_reads cmd Hw)).
    unfold build_simple. rewrite Hk. cbn [take_assigns].
    rewrite as_assign_lits_none by assumption. rewrite Hdu. cbn [map].
    rewrite read_multi_lits, read_multi_word by assumption. reflexivity.
  Qed.

  (* ---- operands in general, and the pair  Qname=Qvalue ------------------------ *)

  (* a text that is read as one word and, in ExpansionMode::Multiple, becomes
     exactly the field [f] *)
  Definition multi_word (t f : str) : Prop :=
    exists U, word_reads t U /\ read_multi U = OField f.

  Lemma multi_words_units : forall ts fs, Forall2 multi_word ts fs ->
    exists Us, Forall2 word_reads ts Us /\ map read_multi Us = map OField fs.
  Proof.
    induction 1 as [|t f ts fs [U [HU HR]] _ [Us [IH1 IH2]]].
    - exists []. split; constructor.
    - exists (U :: Us). split; [constructor; assumption|]. cbn [map]. rewrite HR, IH2. reflexivity.
  Qed.

  Lemma run_line_multi cmd ts fs rest :
    plain_cmd cmd = true -> Forall2 multi_word ts fs -> rest_ok rest ->
    run_line lws (cmd ++ spaced ts ++ rest)
    = COk (mkSimple [] (OField cmd :: map OField fs)) rest.
  Proof.
    intros Hc Hq Hr. destruct (plain_cmd_facts cmd Hc) as (Hw & Hk & Hd).
    destruct (multi_words_units ts fs Hq) as [Us [HU HM]].
    unfold run_line.
    rewrite (read_words_command cmd (map Lit cmd) ts Us rest (simple_word_reads cmd Hw) HU Hr).
    unfold build_simple. rewrite Hk. cbn [take_assigns].
    rewrite as_assign_lits_none by assumption. rewrite Hd.
    rewrite read_multi_lits, HM by assumption. reflexivity.
  Qed.

  Lemma spec_multi_word q s : reads_as q s -> multi_word q s.
  Proof.
    intros H. exists (units_of q s). split; [apply spec_word_reads | apply read_multi_units]; assumption.
  Qed.

  Lemma bracket_pair_split a b :
    bracket_pair (a ++ b)
    = bracket_pair a || (existsb (is_lit c_lbrk) a && existsb (has_char c_rbrk) b) || bracket_pair b.
  Proof.
    induction a as [|u a IH]; [reflexivity|].
    cbn [app bracket_pair existsb]. rewrite IH, existsb_app.
    destruct (is_lit c_lbrk u), (existsb (has_char c_rbrk) a), (existsb (has_char c_rbrk) b),
      (bracket_pair a), (existsb (is_lit c_lbrk) a), (bracket_pair b); reflexivity.
  Qed.

  Lemma quoted_units_no_lbrk q s :
    spec_decode lws q = Some s ->
    (match q with c :: _ => N.eqb c c_sq || N.eqb c c_dq | [] => false end) = true ->
    existsb (is_lit c_lbrk) (units_of q s) = false.
  Proof.
    intros _ Hq. destruct q as [|c q']; [discriminate|]. unfold units_of. rewrite Hq.
    apply no_lit_existsb. apply no_lit_quos.
  Qed.

  Lemma units_lbrk q s :
    spec_decode lws q = Some s -> mem c_lbrk s = false ->
    existsb (is_lit c_lbrk) (units_of q s) = false.
  Proof.
    intros Hq Hm. destruct q as [|c q']; [discriminate|]. unfold units_of.
    destruct (N.eqb c c_sq || N.eqb c c_dq).
    - apply no_lit_existsb. apply no_lit_quos.
    - rewrite lits_existsb. assumption.
  Qed.

  Lemma units_rbrk q s :
    mem c_rbrk s = false -> existsb (has_char c_rbrk) (units_of q s) = false.
  Proof.
    intros Hm. destruct q as [|c q']; [reflexivity|]. unfold units_of.
    assert (Hq : existsb (has_char c_rbrk) (map Quo s) = false).
    { clear - Hm. induction s as [|x s IH]; [reflexivity|].
      rewrite mem_cons, orb_false_iff in Hm. destruct Hm as [H1 H2].
      cbn [map existsb has_char]. rewrite N.eqb_sym, H1, IH by assumption. reflexivity. }
    destruct (N.eqb c c_sq || N.eqb c c_dq).
    - cbn [existsb has_char]. exact Hq.
    - rewrite lits_has_char. assumption.
  Qed.

  (* the units-level condition under which the pair is not a pattern *)
  Lemma pair_multi_word qn n qv v :
    reads_as qn n -> reads_as qv v ->
    existsb (is_lit c_lbrk) (units_of qn n) = false
    \/ existsb (has_char c_rbrk) (units_of qv v) = false ->
    multi_word (qn ++ c_eq :: qv) (n ++ c_eq :: v).
  Proof.
    intros Hn Hv Hsafe.
    destruct (units_facts qn n Hn) as [N1 N2 N3 N4 N5 N6 N7].
    destruct (units_facts qv v Hv) as [V1 V2 V3 V4 V5 V6 V7].
    exists (units_of qn n ++ Lit c_eq :: units_of qv v). split.
    - split.
      + pose proof (spec_word_start qn n Hn) as Hs.
        destruct qn as [|c t]; [contradiction|]. exact Hs.
      + intros r. rewrite <- app_assoc. rewrite (lex_spec qn n Hn). cbn [app].
        rewrite (lex_lit c_eq) by apply lit_char_eq. rewrite (lex_spec qv v Hv).
        rewrite cons_all_app. reflexivity.
    - unfold read_multi.
      assert (Ht : tilde_front (units_of qn n ++ Lit c_eq :: units_of qv v) = false).
      { destruct (units_of qn n) as [|u t] eqn:E; [contradiction N6; reflexivity|].
        unfold tilde_front. cbn [app tilde_at]. rewrite (N7 u t eq_refl). reflexivity. }
      rewrite Ht.
      unfold glob_active in N4, V4. rewrite !orb_false_iff in N4, V4.
      destruct N4 as [[A1 A2] A3]. destruct V4 as [[B1 B2] B3].
      unfold glob_active. rewrite !existsb_app. cbn [existsb is_lit].
      rewrite A1, A2, B1, B2.
      change (N.eqb c_eq c_star) with false. change (N.eqb c_eq c_quest) with false. cbn [orb].
      rewrite bracket_pair_split, A3. cbn [bracket_pair is_lit existsb has_char].
      change (N.eqb c_eq c_lbrk) with false. change (N.eqb c_eq c_rbrk) with false.
      cbn [andb orb]. rewrite B3.
      assert (Hmid : existsb (is_lit c_lbrk) (units_of qn n)
                     && existsb (has_char c_rbrk) (units_of qv v) = false).
      { destruct Hsafe as [H | H]; rewrite H; [reflexivity | apply andb_false_r]. }
      rewrite Hmid. cbn [orb].
      rewrite strip_app. cbn [strip flat_map app]. fold (strip (units_of qv v)).
      rewrite N1, V1. reflexivity.
  Qed.

  Lemma simple_multi_word w : simple_word w = true -> multi_word w w.
  Proof.
    intros H. exists (map Lit w). split; [apply simple_word_reads | apply read_multi_lits]; assumption.
  Qed.

  (* ---- operands of a declaration utility ------------------------------------ *)

  Definition decl_word (t f : str) : Prop :=
    exists U, word_reads t U /\ read_decl U = OField f.

  Lemma decl_words_units : forall ts fs, Forall2 decl_word ts fs ->
    exists Us, Forall2 word_reads ts Us /\ map read_decl Us = map OField fs.
  Proof.
    induction 1 as [|t f ts fs [U [HU HR]] _ [Us [IH1 IH2]]].
    - exists []. split; constructor.
    - exists (U :: Us). split; [constructor; assumption|]. cbn [map]. rewrite HR, IH2. reflexivity.
  Qed.

  Lemma run_line_decls d ts fs rest :
    decl_cmd d = true -> Forall2 decl_word ts fs -> rest_ok rest ->
    run_line lws (d ++ spaced ts ++ rest)
    = COk (mkSimple [] (OField d :: map OField fs)) rest.
  Proof.
    intros Hc Hq Hr. destruct (decl_cmd_facts d Hc) as (Hw & Hk & Hd).
    destruct (decl_words_units ts fs Hq) as [Us [HU HM]].
    unfold run_line.
    rewrite (read_words_command d (map Lit d) ts Us rest (simple_word_reads d Hw) HU Hr).
    unfold build_simple. rewrite Hk. cbn [take_assigns].
    rewrite as_assign_lits_none by assumption. rewrite Hd.
    rewrite read_multi_lits, HM by assumption. reflexivity.
  Qed.

  Lemma assign_decl_word name q s :
    simple_word name = true -> reads_as q s ->
    decl_word (name ++ c_eq :: q) (name ++ c_eq :: s).
  Proof.
    intros Hn Hq. exists (map Lit name ++ Lit c_eq :: units_of q s).
    split; [apply assign_word_reads | apply read_decl_word]; assumption.
  Qed.

  (* a word without an unquoted [=] is read like any other operand *)
  Lemma plain_decl_word q s :
    reads_as q s -> split_eq (units_of q s) = None -> decl_word q s.
  Proof.
    intros Hq He. exists (units_of q s). split; [apply spec_word_reads; assumption|].
    destruct (units_facts q s Hq) as [H1 H2 H3 H4 H5 H6 H7].
    unfold read_decl, as_assign, tilde_front. rewrite H2, He.
    unfold read_multi, tilde_front. rewrite H2, H4, H1. reflexivity.
  Qed.

  Lemma no_lit_split_eq us : no_lit us -> split_eq us = None.
  Proof.
    induction us as [|u us IH]; [reflexivity|]. intros H.
    cbn [split_eq]. rewrite (no_lit_is_lit _ c_eq u H (or_introl eq_refl)).
    rewrite IH by (eapply no_lit_tail; eassumption). reflexivity.
  Qed.

  (* Qname=Qvalue as an operand of a declaration utility *)
  Lemma no_lit_split_eq_app a b : no_lit a -> split_eq (a ++ Lit c_eq :: b) = Some (a, b).
  Proof.
    induction a as [|u a IH]; intros H; [reflexivity|].
    cbn [app split_eq]. rewrite (no_lit_is_lit _ c_eq u H (or_introl eq_refl)).
    rewrite IH by (eapply no_lit_tail; eassumption). reflexivity.
  Qed.

  Lemma pair_word_reads qn n qv v :
    reads_as qn n -> reads_as qv v ->
    word_reads (qn ++ c_eq :: qv) (units_of qn n ++ Lit c_eq :: units_of qv v).
  Proof.
    intros Hn Hv. split.
    - pose proof (spec_word_start qn n Hn) as Hs. destruct qn as [|c t]; [contradiction|]. exact Hs.
    - intros r. rewrite <- app_assoc. rewrite (lex_spec qn n Hn). cbn [app].
      rewrite (lex_lit c_eq) by apply lit_char_eq. rewrite (lex_spec qv v Hv).
      rewrite cons_all_app. reflexivity.
  Qed.

  Lemma decl_pair_quoted qn n qv v :
    reads_as qn n -> reads_as qv v ->
    units_of qn n = Mark :: map Quo n ->
    decl_word (qn ++ c_eq :: qv) (n ++ c_eq :: v).
  Proof.
    intros Hn Hv HU. exists (units_of qn n ++ Lit c_eq :: units_of qv v).
    split; [apply pair_word_reads; assumption|].
    assert (Hnl : no_lit (units_of qn n)) by (rewrite HU; apply no_lit_quos).
    destruct (pair_multi_word qn n qv v Hn Hv (or_introl (no_lit_existsb _ c_lbrk Hnl)))
      as [U' [[_ HL'] HR']].
    (* the units are determined by the lexer *)
    assert (U' = units_of qn n ++ Lit c_eq :: units_of qv v) as ->.
    { pose proof (HL' []) as E1. destruct (pair_word_reads qn n qv v Hn Hv) as [_ HL].
      pose proof (HL []) as E2. rewrite E1 in E2. cbn [Model.lex] in E2.
      rewrite !cons_all_word, !app_nil_r in E2. injection E2 as ->. reflexivity. }
    unfold read_decl, as_assign.
    rewrite no_lit_split_eq_app by assumption.
    set (W := units_of qn n ++ Lit c_eq :: units_of qv v) in *.
    assert (Ht : tilde_front W = false) by (unfold W; rewrite HU; reflexivity).
    rewrite Ht. rewrite HU. cbn [literal_of]. exact HR'.
  Qed.

  Lemma decl_pair_bare n qv v :
    reads_as n n -> reads_as qv v ->
    units_of n n = map Lit n -> mem c_eq n = false ->
    decl_word (n ++ c_eq :: qv) (n ++ c_eq :: v).
  Proof.
    intros Hn Hv HU He. exists (units_of n n ++ Lit c_eq :: units_of qv v).
    split; [apply pair_word_reads; assumption|].
    destruct (units_facts n n Hn) as [N1 N2 N3 N4 N5 N6 N7].
    destruct (units_facts qv v Hv) as [V1 V2 V3 V4 V5 V6 V7].
    rewrite HU in *. destruct n as [|c t]; [contradiction N6; reflexivity|].
    assert (Ht : tilde_front (map Lit (c :: t) ++ Lit c_eq :: units_of qv v) = false).
    { unfold tilde_front. cbn [map app tilde_at]. rewrite (N7 _ _ eq_refl). reflexivity. }
    unfold read_decl, as_assign. rewrite Ht, split_eq_assign by assumption. cbn beta iota.
    pose proof (literal_of_lits (c :: t)) as L. cbn [map] in *. rewrite L.
    unfold tilde_everywhere. rewrite V2, V3.
    change (Lit c :: map Lit t) with (map Lit (c :: t)).
    rewrite strip_assign_word, V1. reflexivity.
  Qed.

  (* ---- array assignments ------------------------------------------------------ *)

  Lemma read_elems_sp fuel inp : read_elems lws fuel (c_sp :: inp) = read_elems lws fuel inp.
  Proof.
    destruct fuel; [reflexivity|]. cbn [read_elems skip_blanks].
    change (N.eqb c_sp c_bs) with false. cbn iota. rewrite blank_sp. reflexivity.
  Qed.

  Lemma read_elems_end fuel rest : read_elems lws (S fuel) (c_rpar :: rest) = EOk [] rest.
  Proof.
    destruct (operator_char_facts c_rpar eq_refl) as (H1 & H2 & Hb).
    cbn [read_elems skip_blanks]. rewrite H1, Hb, H2. reflexivity.
  Qed.

  Lemma read_elems_word fuel t U rest :
    word_reads t U -> terminator_ok lws rest ->
    read_elems lws (S fuel) (t ++ rest) =
      match read_elems lws fuel rest with
      | EOk ws rest' => EOk (U :: ws) rest'
      | e => e
      end.
  Proof.
    intros [Hs Hl] Ht. cbn [read_elems]. rewrite skip_blanks_start by assumption.
    destruct t as [|c t']; [contradiction|]. destruct Hs as (H1 & H2 & H3 & H4).
    cbn [app]. rewrite H3.
    assert (Hnl : N.eqb c c_nl = false).
    { destruct (N.eqb c c_nl) eqn:E; [|reflexivity]. apply N.eqb_eq in E. subst c. discriminate H4. }
    assert (Hrp : N.eqb c c_rpar = false).
    { destruct (N.eqb c c_rpar) eqn:E; [|reflexivity]. apply N.eqb_eq in E. subst c. discriminate H4. }
    rewrite Hnl, Hrp, H4. change (c :: t' ++ rest) with ((c :: t') ++ rest).
    rewrite Hl, lex_stop by assumption. rewrite cons_all_word, app_nil_r.
    destruct rest as [|d r].
    - rewrite andb_false_r. reflexivity.
    - destruct Ht as (_ & Hlt & Hgt).
      rewrite (proj2 (N.eqb_neq d c_lt) Hlt), (proj2 (N.eqb_neq d c_gt) Hgt), andb_false_r.
      reflexivity.
  Qed.

  Lemma rpar_terminator rest : terminator_ok lws (c_rpar :: rest).
  Proof. cbn. repeat split; discriminate. Qed.

  Lemma spaced_rpar_terminator qs rest : terminator_ok lws (spaced qs ++ c_rpar :: rest).
  Proof.
    destruct qs as [|q qs]; [apply rpar_terminator|].
    rewrite spaced_cons. cbn [app terminator_ok]. split.
    - unfold is_token_delimiter. rewrite blank_sp, orb_true_r. reflexivity.
    - split; discriminate.
  Qed.

  Lemma read_elems_spaced : forall ts Us, Forall2 word_reads ts Us ->
    forall rest fuel, (length (spaced ts ++ c_rpar :: rest) <= fuel)%nat ->
    read_elems lws fuel (spaced ts ++ c_rpar :: rest) = EOk Us rest.
  Proof.
    induction 1 as [|t U ts Us Ht _ IH]; intros rest fuel Hf.
    - cbn [spaced flat_map app] in *. destruct fuel; [cbn in Hf; lia|]. apply read_elems_end.
    - rewrite spaced_cons in *. cbn [app] in *. rewrite read_elems_sp.
      destruct fuel; [cbn in Hf; lia|]. rewrite <- app_assoc in *.
      rewrite (read_elems_word fuel t U) by (try assumption; apply spaced_rpar_terminator).
      rewrite IH; [reflexivity|]. cbn [length] in Hf. rewrite app_length in Hf. lia.
  Qed.

  Lemma read_elems_body ts Us rest :
    Forall2 word_reads ts Us ->
    read_elems lws (S (length (array_body ts ++ c_rpar :: rest))) (array_body ts ++ c_rpar :: rest)
    = EOk Us rest.
  Proof.
    intros H. destruct H as [|t U ts Us Ht Hts]; [apply read_elems_end|].
    cbn [array_body]. rewrite <- app_assoc.
    rewrite (read_elems_word _ t U) by (try assumption; apply spaced_rpar_terminator).
    rewrite (read_elems_spaced ts Us Hts); [reflexivity|].
    rewrite (app_length t). destruct Ht as [Hs _]. destruct t; [contradiction|]. cbn [length]. lia.
  Qed.

  Lemma run_array_line_multi name ts fs rest :
    simple_word name = true -> Forall2 multi_word ts fs ->
    run_array_line lws (name ++ c_eq :: c_lpar :: array_body ts ++ c_rpar :: rest)
    = AOk name (map OField fs) rest.
  Proof.
    intros Hn Hts. destruct (multi_words_units ts fs Hts) as [Us [HU HM]].
    pose proof (simple_word_reads name Hn) as [Hs Hl].
    unfold run_array_line.
    rewrite (skip_blanks_start name) by assumption.
    rewrite Hl. cbn [app]. rewrite (lex_lit c_eq) by apply lit_char_eq.
    assert (Hstop : forall x, lex MUnq (c_lpar :: x) = LWord [] (c_lpar :: x)).
    { intros x. apply lex_stop. cbn. repeat split; discriminate. }
    rewrite Hstop. cbn [cons_u]. rewrite cons_all_word.
    rewrite as_assign_word by assumption. rewrite N.eqb_refl.
    rewrite (read_elems_body ts Us rest HU). rewrite HM. reflexivity.
  Qed.
End Reader.

(* ===================================================================== *)
(* Part D: the theorems, for any pair of white-space predicates           *)
(* ===================================================================== *)

Lemma spec_reads_decode lws q s : spec_reads lws q s = true <-> spec_decode lws q = Some s.
Proof. unfold spec_reads. apply option_eqb_spec. apply str_eqb_eq. Qed.

Section Main.
  Variables qws lws : N -> bool.
  Hypothesis Hsub : forall c, lws c = true -> qws c = true.
  Hypothesis Hok : ascii_ok lws.

  Lemma quote_reads_as s : reads_as lws (quote qws s) s.
  Proof. apply spec_reads_decode. apply quote_meets_spec_lemma. assumption. Qed.

  Lemma quotes_read_as ss : Forall2 (reads_as lws) (map (quote qws) ss) ss.
  Proof. induction ss; constructor; [apply quote_reads_as | assumption]. Qed.

  Lemma quote_args_lemma cmd ss rest :
    plain_cmd cmd = true -> rest_ok rest ->
    run_line lws (cmd ++ spaced (map (quote qws) ss) ++ rest)
    = COk (mkSimple [] (OField cmd :: map OField ss)) rest.
  Proof. intros. apply run_line_args; try assumption. apply quotes_read_as. Qed.

  Lemma quote_assign_lemma name s rest :
    simple_word name = true -> rest_ok rest ->
    run_line lws (name ++ c_eq :: quote qws s ++ rest)
    = COk (mkSimple [(name, OField s)] []) rest.
  Proof. intros. apply run_line_assign; try assumption. apply quote_reads_as. Qed.

  Lemma quote_decl_lemma d name s rest :
    decl_cmd d = true -> simple_word name = true -> rest_ok rest ->
    run_line lws (d ++ c_sp :: name ++ c_eq :: quote qws s ++ rest)
    = COk (mkSimple [] [OField d; OField (name ++ c_eq :: s)]) rest.
  Proof. intros. apply run_line_decl; try assumption. apply quote_reads_as. Qed.

  Lemma quote_argeq_lemma cmd name s rest :
    plain_cmd cmd = true -> simple_word name = true -> rest_ok rest ->
    run_line lws (cmd ++ c_sp :: name ++ c_eq :: quote qws s ++ rest)
    = COk (mkSimple [] [OField cmd; OField (name ++ c_eq :: s)]) rest.
  Proof. intros. apply run_line_argeq; try assumption. apply quote_reads_as. Qed.

  Lemma quote_multi_word s : multi_word lws (quote qws s) s.
  Proof. apply spec_multi_word; [assumption | apply quote_reads_as]. Qed.

  Lemma quote_starts_quoted s :
    str_needs_quoting qws s = true ->
    (match quote qws s with c :: _ => N.eqb c c_sq || N.eqb c c_dq | [] => false end) = true.
  Proof.
    intros H. unfold quote, quote_shape. rewrite H. cbn [negb].
    destruct (negb (mem c_sq s)); reflexivity.
  Qed.

  Lemma quote_pair_multi n v :
    pair_safe qws n v = true ->
    multi_word lws (quote qws n ++ c_eq :: quote qws v) (n ++ c_eq :: v).
  Proof.
    intros Hs. apply pair_multi_word; try assumption; try apply quote_reads_as.
    unfold pair_safe in Hs. rewrite !orb_true_iff, !negb_true_iff in Hs.
    destruct Hs as [[Hs | Hs] | Hs].
    - left. apply (quoted_units_no_lbrk lws); [apply quote_reads_as | apply quote_starts_quoted; assumption].
    - left. apply (units_lbrk lws); [apply quote_reads_as | assumption].
    - right. apply units_rbrk; assumption.
  Qed.

  Lemma quote_pairs_lemma cmd st rest :
    plain_cmd cmd = true -> rest_ok rest ->
    Forall (fun p => pair_safe qws (fst p) (snd p) = true) st ->
    run_line lws (cmd ++ spaced (map (fun p => quote qws (fst p) ++ c_eq :: quote qws (snd p)) st) ++ rest)
    = COk (mkSimple [] (OField cmd :: map (fun p => OField (fst p ++ c_eq :: snd p)) st)) rest.
  Proof.
    intros Hc Hr Hst.
    rewrite <- (map_map (fun p => fst p ++ c_eq :: snd p) OField).
    apply run_line_multi; try assumption.
    induction Hst as [|p st Hp _ IH]; constructor; [|exact IH].
    apply quote_pair_multi; assumption.
  Qed.

  Lemma bare_no_eq s : str_needs_quoting qws s = false -> mem c_eq s = false.
  Proof.
    destruct s as [|c t]; [discriminate|]. unfold str_needs_quoting.
    rewrite !orb_false_iff. intros [[[[[_ _] H3] _] _] _].
    apply mem_false_iff. intros Hin.
    assert (E : existsb (char_needs_quoting qws) (c :: t) = true).
    { apply existsb_exists. exists c_eq. split; [assumption | reflexivity]. }
    congruence.
  Qed.

  Lemma quote_decl_word s : decl_word lws (quote qws s) s.
  Proof.
    apply plain_decl_word; [assumption | apply quote_reads_as|].
    unfold quote, quote_shape. destruct (str_needs_quoting qws s) eqn:Hn; cbn [negb].
    - destruct (negb (mem c_sq s)); cbn [render units_of]; rewrite N.eqb_refl;
        [|change (N.eqb c_dq c_sq) with false; cbn [orb]];
        apply no_lit_split_eq; apply no_lit_quos.
    - cbn [render]. destruct s as [|c t]; [discriminate|]. unfold units_of.
      pose proof (quote_reads_as (c :: t)) as Hq. unfold quote, quote_shape in Hq.
      rewrite Hn in Hq. cbn [negb render] in Hq.
      pose proof (bare_inert qws lws Hsub (c :: t) Hn) as Hi.
      pose proof (inert_plain lws _ Hi) as Hp. cbn [forallb] in Hp. apply andb_true_iff in Hp.
      destruct Hp as [Hc _]. destruct (plain_char_facts lws c Hc) as (_ & H1 & H2 & _).
      rewrite H1, H2. cbn [orb]. apply split_eq_lits_none. apply bare_no_eq; assumption.
  Qed.

  Lemma quote_pair_decl_word n v :
    decl_word lws (quote qws n ++ c_eq :: quote qws v) (n ++ c_eq :: v).
  Proof.
    pose proof (quote_reads_as n) as Hn. pose proof (quote_reads_as v) as Hv.
    destruct (str_needs_quoting qws n) eqn:E.
    - apply decl_pair_quoted; try assumption.
      unfold quote, quote_shape. rewrite E. cbn [negb].
      destruct (negb (mem c_sq n)); cbn [render units_of]; rewrite N.eqb_refl;
        [reflexivity | change (N.eqb c_dq c_sq) with false; reflexivity].
    - assert (Eq : quote qws n = n) by (unfold quote, quote_shape; rewrite E; reflexivity).
      rewrite Eq in *. apply decl_pair_bare; try assumption; [|apply bare_no_eq; assumption].
      destruct n as [|c t]; [discriminate|].
      pose proof (bare_inert qws lws Hsub (c :: t) E) as Hi.
      pose proof (inert_plain lws _ Hi) as Hp. cbn [forallb] in Hp. apply andb_true_iff in Hp.
      destruct Hp as [Hc _]. destruct (plain_char_facts lws c Hc) as (_ & H1 & H2 & _).
      unfold units_of. rewrite H1, H2. reflexivity.
  Qed.

  Lemma operand_decl_word o :
    operand_ok o = true -> decl_word lws (operand_text qws o) (operand_field o).
  Proof.
    destruct o as [s | n v | n v]; cbn [operand_ok operand_text operand_field]; intros H.
    - apply quote_decl_word.
    - apply assign_decl_word; [assumption | assumption | apply quote_reads_as].
    - apply quote_pair_decl_word.
  Qed.

  Lemma decl_line_lemma d os rest :
    decl_cmd d = true -> rest_ok rest -> forallb operand_ok os = true ->
    run_line lws (d ++ spaced (map (operand_text qws) os) ++ rest)
    = COk (mkSimple [] (OField d :: map (fun o => OField (operand_field o)) os)) rest.
  Proof.
    intros Hd Hr Hos. rewrite <- (map_map operand_field OField).
    apply run_line_decls; try assumption.
    induction os as [|o os IH]; [constructor|].
    cbn [forallb] in Hos. apply andb_true_iff in Hos. destruct Hos as [Ho Hos].
    constructor; [apply operand_decl_word; assumption | apply IH; assumption].
  Qed.

  (* the units of a quoted word: never a tilde expansion, never a pattern *)
  Lemma quote_units_lemma s :
    exists U,
      (forall rest, terminator_ok lws rest -> lex lws MUnq (quote qws s ++ rest) = LWord U rest)
      /\ tilde_front U = false /\ tilde_everywhere U = false
      /\ glob_active U = false /\ strip U = s.
  Proof.
    pose proof (quote_reads_as s) as Hq.
    destruct (units_facts lws (quote qws s) s Hq) as [H1 H2 H3 H4 H5 H6 H7].
    exists (units_of (quote qws s) s). repeat split; try assumption.
    - intros rest Hr. rewrite (lex_spec lws _ _ Hq), (lex_stop lws Hok) by assumption.
      rewrite cons_all_word, app_nil_r. reflexivity.
    - apply H2.
    - unfold tilde_everywhere. rewrite H2, H3. reflexivity.
  Qed.

  Lemma quotes_multi vs : Forall2 (multi_word lws) (map (quote qws) vs) vs.
  Proof. induction vs; constructor; [apply quote_multi_word | assumption]. Qed.

  Lemma array_line_lemma name vs rest :
    simple_word name = true ->
    run_array_line lws (name ++ c_eq :: c_lpar :: array_body (map (quote qws) vs) ++ c_rpar :: rest)
    = AOk name (map OField vs) rest.
  Proof. intros Hn. apply run_array_line_multi; try assumption. apply quotes_multi. Qed.

  Lemma quote_injective_lemma s1 s2 : quote qws s1 = quote qws s2 -> s1 = s2.
  Proof.
    intros E. pose proof (quote_reads_as s1) as H1. pose proof (quote_reads_as s2) as H2.
    unfold reads_as in *. rewrite E in H1. congruence.
  Qed.
End Main.

(* ---- the concrete predicate ------------------------------------------------ *)

Lemma rust_ws_ascii_ok : ascii_ok rust_ws.
Proof.
  split.
  - reflexivity.
  - intros c H. rewrite mem_true_iff in H. cbn [In] in H.
    repeat (destruct H as [H | H]; [subst c; reflexivity|]). contradiction.
  - intros c H. destruct (rust_ws c) eqn:E; [|reflexivity].
    apply rust_ws_table in E. unfold ws_table in E. cbn [In] in E.
    repeat (destruct E as [E | E]; [subst c; discriminate H|]). contradiction.
Qed.

(* ===================================================================== *)
(* Part E: the fuel of [read_words] never runs out                        *)
(* ===================================================================== *)

Lemma cons_u_inv u r us rest :
  cons_u u r = LWord us rest -> exists us', r = LWord us' rest.
Proof. destruct r; cbn; intros H; try discriminate. injection H as _ <-. eauto. Qed.

Section Fuel.
  Variable lws : N -> bool.

  Lemma lex_length : forall n inp, (length inp <= n)%nat ->
    forall m us rest, lex lws m inp = LWord us rest -> (length rest <= length inp)%nat.
  Proof.
    induction n as [|n IH]; intros inp Hlen m us rest.
    - destruct inp; [|cbn in Hlen; lia]. destruct m; cbn; intros H; try discriminate.
      injection H as _ <-. cbn. lia.
    - destruct inp as [|c r].
      { destruct m; cbn; intros H; try discriminate. injection H as _ <-. cbn. lia. }
      cbn [length] in Hlen.
      assert (IHr : forall m us rest, lex lws m r = LWord us rest -> (length rest <= length r)%nat)
        by (intros; eapply IH; [lia | eassumption]).
      cbn [lex length]. destruct m.
      + (* MUnq *)
        destruct (N.eqb c c_bs).
        { destruct r as [|d r']; [discriminate|]. cbn [length] in *.
          destruct (N.eqb d c_nl).
          - intros H. apply (IH r' ltac:(lia)) in H. lia.
          - intros H. apply cons_u_inv in H. destruct H as [us' H].
            apply (IH r' ltac:(lia)) in H. lia. }
        destruct (N.eqb c c_sq).
        { intros H. apply cons_u_inv in H. destruct H as [us' H]. apply IHr in H. lia. }
        destruct (N.eqb c c_dq).
        { intros H. apply cons_u_inv in H. destruct H as [us' H]. apply IHr in H. lia. }
        destruct (N.eqb c c_dollar || N.eqb c c_bq); [discriminate|].
        destruct (is_token_delimiter lws c).
        { intros H. injection H as _ <-. cbn [length]. lia. }
        intros H. apply cons_u_inv in H. destruct H as [us' H]. apply IHr in H. lia.
      + (* MSq *)
        destruct (N.eqb c c_sq).
        { intros H. apply IHr in H. lia. }
        intros H. apply cons_u_inv in H. destruct H as [us' H]. apply IHr in H. lia.
      + (* MDq *)
        destruct (N.eqb c c_bs).
        { destruct r as [|d r']; [discriminate|]. cbn [length] in *.
          destruct (N.eqb d c_nl).
          - intros H. apply (IH r' ltac:(lia)) in H. lia.
          - destruct (mem d dq_escaped).
            + intros H. apply cons_u_inv in H. destruct H as [us' H].
              apply (IH r' ltac:(lia)) in H. lia.
            + intros H. apply cons_u_inv in H. destruct H as [us' H].
              apply (IH (d :: r') ltac:(cbn [length]; lia)) in H. cbn [length] in H. lia. }
        destruct (N.eqb c c_dq).
        { intros H. apply IHr in H. lia. }
        destruct (N.eqb c c_dollar || N.eqb c c_bq); [discriminate|].
        intros H. apply cons_u_inv in H. destruct H as [us' H]. apply IHr in H. lia.
  Qed.

  (* a word that does not start at a delimiter consumes at least one character *)
  Lemma lex_progress c r us rest :
    N.eqb c c_bs = true \/ is_token_delimiter lws c = false ->
    lex lws MUnq (c :: r) = LWord us rest -> (length rest <= length r)%nat.
  Proof.
    intros Hd. cbn [lex].
    destruct (N.eqb c c_bs).
    { destruct r as [|d r']; [discriminate|]. cbn [length].
      destruct (N.eqb d c_nl).
      - intros H. apply (lex_length (length r') r' (Nat.le_refl _)) in H. lia.
      - intros H. apply cons_u_inv in H. destruct H as [us' H].
        apply (lex_length (length r') r' (Nat.le_refl _)) in H. lia. }
    destruct Hd as [Hd | Hd]; [discriminate|].
    destruct (N.eqb c c_sq).
    { intros H. apply cons_u_inv in H. destruct H as [us' H].
      apply (lex_length (length r) r (Nat.le_refl _)) in H. lia. }
    destruct (N.eqb c c_dq).
    { intros H. apply cons_u_inv in H. destruct H as [us' H].
      apply (lex_length (length r) r (Nat.le_refl _)) in H. lia. }
    destruct (N.eqb c c_dollar || N.eqb c c_bq); [discriminate|].
    rewrite Hd. intros H. apply cons_u_inv in H. destruct H as [us' H].
    apply (lex_length (length r) r (Nat.le_refl _)) in H. lia.
  Qed.

  Lemma skip_blanks_spec : forall n inp, (length inp <= n)%nat ->
    (length (skip_blanks lws inp) <= length inp)%nat
    /\ match skip_blanks lws inp with
       | c :: _ => N.eqb c c_bs = true \/ is_blank lws c = false
       | [] => True
       end.
  Proof.
    induction n as [|n IH]; intros inp Hlen.
    - destruct inp; [|cbn in Hlen; lia]. cbn. split; [lia | exact I].
    - destruct inp as [|c r]; [cbn; split; [lia | exact I]|].
      cbn [length] in Hlen. cbn [skip_blanks].
      destruct (N.eqb c c_bs) eqn:Ebs.
      + destruct r as [|d r'].
        * split; [lia | left; assumption].
        * destruct (N.eqb d c_nl).
          -- cbn [length] in *. destruct (IH r' ltac:(lia)) as [H1 H2]. split; [lia | exact H2].
          -- split; [lia | left; assumption].
      + destruct (is_blank lws c) eqn:Eb.
        * destruct (IH r ltac:(lia)) as [H1 H2]. split; [cbn [length]; lia | exact H2].
        * split; [lia | right; assumption].
  Qed.

  Lemma read_words_fuel : forall fuel inp, (length inp < fuel)%nat ->
    read_words lws fuel inp <> WOutOfFuel.
  Proof.
    induction fuel as [|fuel IH]; intros inp Hlen; [lia|].
    cbn [read_words].
    destruct (skip_blanks_spec (length inp) inp (Nat.le_refl _)) as [H1 H2].
    destruct (skip_blanks lws inp) as [|c r] eqn:Es; [discriminate|].
    destruct (N.eqb c c_hash); [discriminate|].
    destruct (is_operator_char c) eqn:Eo; [discriminate|].
    destruct (lex lws MUnq (c :: r)) as [us rest| |] eqn:El; try discriminate.
    destruct (all_digits us && _); [discriminate|].
    assert (Hp : (length rest <= length r)%nat).
    { eapply lex_progress; [|eassumption].
      destruct H2 as [H2 | H2]; [left; assumption|].
      right. unfold is_token_delimiter. rewrite Eo, H2. reflexivity. }
    cbn [length] in H1.
    specialize (IH rest ltac:(lia)).
    destruct (read_words lws fuel rest); try discriminate. contradiction.
  Qed.

  Lemma words_fuel_suffices_lemma inp : read_words lws (words_fuel inp) inp <> WOutOfFuel.
  Proof. apply read_words_fuel. unfold words_fuel. lia. Qed.
End Fuel.

(* ---- the reader on any word the specification accepts --------------------- *)

Lemma spec_args_lemma lws : ascii_ok lws -> forall cmd qs ss rest,
  plain_cmd cmd = true ->
  Forall2 (fun q s => spec_reads lws q s = true) qs ss ->
  rest_ok rest ->
  run_line lws (cmd ++ spaced qs ++ rest) = COk (mkSimple [] (OField cmd :: map OField ss)) rest.
Proof.
  intros Hok cmd qs ss rest Hc Hq Hr. apply run_line_args; try assumption.
  induction Hq as [|q s qs ss H _ IH]; constructor; [|exact IH].
  apply spec_reads_decode. exact H.
Qed.

Lemma spec_assign_lemma lws : ascii_ok lws -> forall name q s rest,
  simple_word name = true -> spec_reads lws q s = true -> rest_ok rest ->
  run_line lws (name ++ c_eq :: q ++ rest) = COk (mkSimple [(name, OField s)] []) rest.
Proof. intros. apply run_line_assign; try assumption. apply spec_reads_decode; assumption. Qed.

Lemma spec_decl_lemma lws : ascii_ok lws -> forall d name q s rest,
  decl_cmd d = true -> simple_word name = true -> spec_reads lws q s = true -> rest_ok rest ->
  run_line lws (d ++ c_sp :: name ++ c_eq :: q ++ rest)
  = COk (mkSimple [] [OField d; OField (name ++ c_eq :: s)]) rest.
Proof. intros. apply run_line_decl; try assumption. apply spec_reads_decode; assumption. Qed.

Lemma spec_argeq_lemma lws : ascii_ok lws -> forall cmd name q s rest,
  plain_cmd cmd = true -> simple_word name = true -> spec_reads lws q s = true -> rest_ok rest ->
  run_line lws (cmd ++ c_sp :: name ++ c_eq :: q ++ rest)
  = COk (mkSimple [] [OField cmd; OField (name ++ c_eq :: s)]) rest.
Proof. intros. apply run_line_argeq; try assumption. apply spec_reads_decode; assumption. Qed.
