(* C07 — MODEL: executable re-statement of
     - yash-quote/src/lib.rs            (char_needs_quoting, str_needs_quoting,
                                         Display for Quoted = the three shapes)
     - yash-syntax/src/parser/lex/{core,op,token,word,text,misc,tilde}.rs
                                        (blank / operator / delimiter classes,
                                         line continuation, comments, the word
                                         lexer in its three quoting modes,
                                         tilde recognition)
     - yash-syntax/src/parser/simple_command.rs + syntax/conversions.rs
                                        (assignment words, declaration
                                         utility operands, expansion modes)
     - yash-semantics/src/expansion{.rs,/initial/word.rs,/glob.rs}
                                        (literal words: quote removal; which
                                         words are subject to tilde expansion
                                         and pathname expansion)
   Characters are code points (N), strings are [list N].

   What the reader model does NOT do (it answers "outside" instead of
   guessing): parameter/command/arithmetic expansion ([$], backquote), tilde
   expansion results, pathname expansion results, redirections, compound
   commands, alias substitution.  A word that would be subject to one of the
   environment dependent expansions is reported as [OTilde]/[OGlob]. *)
From Yv Require Import Common.Base.

Local Open Scope N_scope.

(* ---- code points ---------------------------------------------------- *)
Definition c_tab : N := 9.
Definition c_nl : N := 10.
Definition c_sp : N := 32.
Definition c_bang : N := 33.
Definition c_dq : N := 34.
Definition c_hash : N := 35.
Definition c_dollar : N := 36.
Definition c_amp : N := 38.
Definition c_sq : N := 39.
Definition c_lpar : N := 40.
Definition c_rpar : N := 41.
Definition c_star : N := 42.
Definition c_slash : N := 47.
Definition c_colon : N := 58.
Definition c_semi : N := 59.
Definition c_lt : N := 60.
Definition c_eq : N := 61.
Definition c_gt : N := 62.
Definition c_quest : N := 63.
Definition c_lbrk : N := 91.
Definition c_bs : N := 92.
Definition c_rbrk : N := 93.
Definition c_bq : N := 96.
Definition c_lbrace : N := 123.
Definition c_bar : N := 124.
Definition c_rbrace : N := 125.
Definition c_tilde : N := 126.

Definition mem (c : N) (l : list N) : bool := existsb (N.eqb c) l.

(* Rust's [char::is_whitespace] (Unicode White_Space).  The harness compares
   this table with the real function over every code point on each run. *)
Definition rust_ws (c : N) : bool :=
  mem c [9; 10; 11; 12; 13; 32; 133; 160; 5760; 8232; 8233; 8239; 8287; 12288]
  || ((8192 <=? c) && (c <=? 8202)).

(* the 25 white-space code points of Unicode *)
Definition ws_table : list N :=
  [9; 10; 11; 12; 13; 32; 133; 160; 5760;
   8192; 8193; 8194; 8195; 8196; 8197; 8198; 8199; 8200; 8201; 8202;
   8232; 8233; 8239; 8287; 12288].

(* the code points for which lex::is_token_delimiter_char holds: the first
   characters of the operators and the blanks (white space except newline,
   which is an operator) *)
Definition delim_table : list N :=
  [9; 10; 11; 12; 13; 32; 38; 40; 41; 59; 60; 62; 124; 133; 160; 5760;
   8192; 8193; 8194; 8195; 8196; 8197; 8198; 8199; 8200; 8201; 8202;
   8232; 8233; 8239; 8287; 12288].

(* ===================================================================== *)
(* yash-quote                                                            *)
(* ===================================================================== *)

(* the characters listed explicitly in [char_needs_quoting] *)
Definition always_quoted : list N :=
  [c_semi; c_amp; c_bar; c_lpar; c_rpar; c_lt; c_gt; c_sp; c_tab; c_nl;
   c_dollar; c_bq; c_bs; c_dq; c_sq; c_eq; c_star; c_quest].

(* characters that get a backslash inside double quotes *)
Definition dq_escaped : list N := [c_dq; c_bq; c_dollar; c_bs].

Section Quote.
  (* the whitespace predicate used by the quoter: [char::is_whitespace] *)
  Variable qws : N -> bool.

  Definition char_needs_quoting (c : N) : bool := mem c always_quoted || qws c.

  (* [s.contains("ab")] for a two-character needle *)
  Fixpoint has_pair (a b : N) (s : str) : bool :=
    match s with
    | [] => false
    | x :: t => (N.eqb x a && match t with y :: _ => N.eqb y b | [] => false end)
                || has_pair a b t
    end.

  (* [s.find(a)] then the slice after it *)
  Fixpoint after_first (a : N) (s : str) : option str :=
    match s with
    | [] => None
    | x :: t => if N.eqb x a then Some t else after_first a t
    end.

  Definition open_then_close (o c : N) (s : str) : bool :=
    match after_first o s with
    | Some t => mem c t
    | None => false
    end.

  Definition str_needs_quoting (s : str) : bool :=
    match s with
    | [] => true
    | c :: _ =>
        N.eqb c c_hash || N.eqb c c_tilde
        || existsb char_needs_quoting s
        || has_pair c_colon c_tilde s
        || open_then_close c_lbrace c_rbrace s
        || open_then_close c_lbrk c_rbrk s
    end.

  Inductive shape := Bare | Single | Double.

  Definition quote_shape (s : str) : shape :=
    if negb (str_needs_quoting s) then Bare
    else if negb (mem c_sq s) then Single
    else Double.

  Definition dq_escape (s : str) : str :=
    flat_map (fun c => if mem c dq_escaped then [c_bs; c] else [c]) s.

  Definition render (sh : shape) (s : str) : str :=
    match sh with
    | Bare => s
    | Single => c_sq :: s ++ [c_sq]
    | Double => c_dq :: dq_escape s ++ [c_dq]
    end.

  Definition quote (s : str) : str := render (quote_shape s) s.
End Quote.

Definition shape_eqb (a b : shape) : bool :=
  match a, b with
  | Bare, Bare | Single, Single | Double, Double => true
  | _, _ => false
  end.

Definition shape_code (a : shape) : N :=
  match a with Bare => 0 | Single => 1 | Double => 2 end.

(* ===================================================================== *)
(* the lexer                                                             *)
(* ===================================================================== *)

(* first characters of the operators (lex/op.rs OPERATORS) *)
Definition operator_chars : list N := [c_nl; c_amp; c_lpar; c_rpar; c_semi; c_lt; c_gt; c_bar].
Definition is_operator_char (c : N) : bool := mem c operator_chars.

(* What is left of a word after lexing: its characters with the information
   the later stages look at.  [Lit c] = WordUnit::Unquoted(Literal c);
   [Quo c] = a character that is quoted (inside '…' or "…", or after a
   backslash); [Mark] = the opening of a '…' or "…" unit (so that an empty
   quotation still is a unit). *)
Inductive wunit := Lit (c : N) | Quo (c : N) | Mark.

Inductive lexres :=
| LWord (us : list wunit) (rest : str)
| LUnclosed                      (* syntax error: unclosed quotation *)
| LUnsupported.                  (* an expansion the model does not cover *)

Definition cons_u (u : wunit) (r : lexres) : lexres :=
  match r with
  | LWord us rest => LWord (u :: us) rest
  | e => e
  end.

Inductive mode := MUnq | MSq | MDq.

Inductive wordsres :=
| WOk (ws : list (list wunit)) (rest : str)
| WUnclosed
| WUnsupported
| WOutOfFuel.

Section Lexer.
  (* the whitespace predicate used by the lexer: [char::is_whitespace] *)
  Variable lws : N -> bool.

  Definition is_blank (c : N) : bool := negb (N.eqb c c_nl) && lws c.
  Definition is_token_delimiter (c : N) : bool := is_operator_char c || is_blank c.

  (* WordLexer::word with is_token_delimiter_char, WordContext::Word, plus
     Lexer::single_quote and Lexer::double_quote.  In the unquoted and the
     double-quoted mode every peek first skips backslash-newline pairs (line
     continuation); inside single quotes line continuation is disabled. *)
  Fixpoint lex (m : mode) (inp : str) {struct inp} : lexres :=
    match inp with
    | [] =>
        match m with
        | MUnq => LWord [] []
        | MSq | MDq => LUnclosed
        end
    | c :: r =>
        match m with
        | MSq =>
            if N.eqb c c_sq then lex MUnq r else cons_u (Quo c) (lex MSq r)
        | MDq =>
            if N.eqb c c_bs then
              match r with
              | [] => LUnclosed
              | d :: r' =>
                  if N.eqb d c_nl then lex MDq r'
                  else if mem d dq_escaped then cons_u (Quo d) (lex MDq r')
                  else cons_u (Quo c_bs) (lex MDq r)
              end
            else if N.eqb c c_dq then lex MUnq r
            else if N.eqb c c_dollar || N.eqb c c_bq then LUnsupported
            else cons_u (Quo c) (lex MDq r)
        | MUnq =>
            if N.eqb c c_bs then
              match r with
              | [] => LUnsupported      (* a lone backslash at the end of input *)
              | d :: r' =>
                  if N.eqb d c_nl then lex MUnq r'
                  else cons_u (Quo d) (lex MUnq r')
              end
            else if N.eqb c c_sq then cons_u Mark (lex MSq r)
            else if N.eqb c c_dq then cons_u Mark (lex MDq r)
            else if N.eqb c c_dollar || N.eqb c c_bq then LUnsupported
            else if is_token_delimiter c then LWord [] inp
            else cons_u (Lit c) (lex MUnq r)
        end
    end.

  (* Lexer::skip_blanks (peek_char skips line continuations) *)
  Fixpoint skip_blanks (inp : str) : str :=
    match inp with
    | [] => []
    | c :: r =>
        if N.eqb c c_bs then
          match r with
          | d :: r' => if N.eqb d c_nl then skip_blanks r' else inp
          | [] => inp
          end
        else if is_blank c then skip_blanks r
        else inp
    end.

  (* Lexer::skip_comment after the [#]: up to, not including, the newline *)
  Fixpoint skip_comment (inp : str) : str :=
    match inp with
    | [] => []
    | c :: r => if N.eqb c c_nl then inp else skip_comment r
    end.

  Definition is_digit (c : N) : bool := (48 <=? c) && (c <=? 57).
  Definition all_digits (us : list wunit) : bool :=
    forallb (fun u => match u with Lit c => is_digit c | _ => false end) us.

  (* The tokens of one simple command: Parser::require_token = skip blanks and
     a comment, then Lexer::token; stops in front of an operator (the caller
     looks at [rest]).  A word of digits directly followed by [<]/[>] would be
     an IO_NUMBER: outside the model. *)
  Fixpoint read_words (fuel : nat) (inp : str) : wordsres :=
    match fuel with
    | O => WOutOfFuel
    | S fuel =>
        let inp1 := skip_blanks inp in
        match inp1 with
        | [] => WOk [] []
        | c :: r =>
            if N.eqb c c_hash then WOk [] (skip_comment r)
            else if is_operator_char c then WOk [] inp1
            else
              match lex MUnq inp1 with
              | LWord us rest =>
                  if all_digits us
                     && match rest with d :: _ => N.eqb d c_lt || N.eqb d c_gt | [] => false end
                  then WUnsupported
                  else
                    match read_words fuel rest with
                    | WOk ws rest' => WOk (us :: ws) rest'
                    | e => e
                    end
              | LUnclosed => WUnclosed
              | LUnsupported => WUnsupported
              end
        end
    end.

  Definition words_fuel (inp : str) : nat := S (length inp).
End Lexer.

(* ===================================================================== *)
(* from lexed words to fields                                            *)
(* ===================================================================== *)

(* quote removal + attribute stripping of a purely literal word *)
Definition strip (us : list wunit) : str :=
  flat_map (fun u => match u with Lit c | Quo c => [c] | Mark => [] end) us.

Definition is_lit (c : N) (u : wunit) : bool :=
  match u with Lit d => N.eqb d c | _ => false end.

(* Word::to_string_if_literal *)
Fixpoint literal_of (us : list wunit) : option str :=
  match us with
  | [] => Some []
  | Lit c :: t => match literal_of t with Some s => Some (c :: s) | None => None end
  | _ :: _ => None
  end.

(* lex/tilde.rs parse_tilde: does a tilde expansion start at the head of
   [us]?  (Only the fact is modelled, not the name.) *)
Fixpoint tilde_name_ok (delimit_at_colon : bool) (us : list wunit) : bool :=
  match us with
  | [] => true
  | Lit c :: t =>
      if N.eqb c c_slash then true
      else if delimit_at_colon && N.eqb c c_colon then true
      else tilde_name_ok delimit_at_colon t
  | _ :: _ => false
  end.

Definition tilde_at (delimit_at_colon : bool) (us : list wunit) : bool :=
  match us with
  | u :: t => is_lit c_tilde u && tilde_name_ok delimit_at_colon t
  | [] => false
  end.

(* Word::parse_tilde_front finds a tilde expansion *)
Definition tilde_front (us : list wunit) : bool := tilde_at false us.

(* Word::parse_tilde_everywhere_after(0) finds one: at the start or after an
   unquoted colon *)
Fixpoint tilde_after_colon (us : list wunit) : bool :=
  match us with
  | [] => false
  | u :: t => (is_lit c_colon u && tilde_at true t) || tilde_after_colon t
  end.

Definition tilde_everywhere (us : list wunit) : bool :=
  tilde_at true us || tilde_after_colon us.

(* Pathname expansion (expansion/glob.rs) looks at the unquoted characters
   only.  CONSERVATIVE: [true] whenever the word has an unquoted [*] or [?],
   or an unquoted [[] with any []] somewhere after it (yash-fnmatch needs a
   closing bracket for a bracket expression; which brackets exactly form one
   is not modelled). *)
Definition has_char (c : N) (u : wunit) : bool :=
  match u with Lit d | Quo d => N.eqb d c | Mark => false end.

Fixpoint bracket_pair (us : list wunit) : bool :=
  match us with
  | [] => false
  | u :: t => (is_lit c_lbrk u && existsb (has_char c_rbrk) t) || bracket_pair t
  end.

Definition glob_active (us : list wunit) : bool :=
  existsb (is_lit c_star) us || existsb (is_lit c_quest) us || bracket_pair us.

(* What one word of a simple command becomes. *)
Inductive outcome :=
| OField (f : str)        (* exactly this one field, whatever the environment *)
| OTilde                  (* subject to tilde expansion: depends on HOME / users *)
| OGlob.                  (* a pattern: depends on the file system *)

(* ExpansionMode::Multiple: token() has applied parse_tilde_front *)
Definition read_multi (us : list wunit) : outcome :=
  if tilde_front us then OTilde
  else if glob_active us then OGlob
  else OField (strip us).

(* position of the first unquoted [=] *)
Fixpoint split_eq (us : list wunit) : option (list wunit * list wunit) :=
  match us with
  | [] => None
  | u :: t =>
      if is_lit c_eq u then Some ([], t)
      else match split_eq t with
           | Some (a, b) => Some (u :: a, b)
           | None => None
           end
  end.

(* Assign::try_from (after token()'s parse_tilde_front): a non-empty literal
   name, an unquoted [=], the value; tildes are parsed everywhere in the value.
   Outside the portable mode the name is not checked any further. *)
Definition as_assign (us : list wunit) : option (str * list wunit) :=
  if tilde_front us then None
  else
    match split_eq us with
    | Some (a, b) =>
        match a, literal_of a with
        | _ :: _, Some name => Some (name, b)
        | _, _ => None
        end
    | None => None
    end.

Definition read_value (us : list wunit) : outcome :=
  if tilde_everywhere us then OTilde else OField (strip us).

(* determine_expansion_mode: operand of a declaration utility *)
Definition read_decl (us : list wunit) : outcome :=
  if tilde_front us then OTilde
  else
    match as_assign us with
    | Some (name, v) =>
        (* ExpansionMode::Single, tildes everywhere after the [=] *)
        if tilde_everywhere v then OTilde else OField (strip us)
    | None => read_multi us
    end.

(* ---- one simple command ---------------------------------------------- *)

(* "abc" as code points, for the few command names the model knows *)
Definition s_export : str := [101; 120; 112; 111; 114; 116].
Definition s_readonly : str := [114; 101; 97; 100; 111; 110; 108; 121].
Definition s_typeset : str := [116; 121; 112; 101; 115; 101; 116].
Definition s_command : str := [99; 111; 109; 109; 97; 110; 100].

Definition keywords : list str :=
  [ [33]; [91; 91]; [93; 93]; [99; 97; 115; 101]; [100; 111]; [100; 111; 110; 101];
    [101; 108; 105; 102]; [101; 108; 115; 101]; [101; 115; 97; 99]; [102; 105];
    [102; 111; 114]; [102; 117; 110; 99; 116; 105; 111; 110]; [105; 102]; [105; 110];
    [110; 97; 109; 101; 115; 112; 97; 99; 101]; [115; 101; 108; 101; 99; 116];
    [116; 104; 101; 110]; [117; 110; 116; 105; 108]; [119; 104; 105; 108; 101];
    [123]; [125] ].

Definition is_keyword (us : list wunit) : bool :=
  match literal_of us with
  | Some s => existsb (str_eqb s) keywords
  | None => false
  end.

(* Some true = declaration utility, Some false = not, None = not modelled
   ([command]) *)
Definition names_decl_util (us : list wunit) : option bool :=
  match literal_of us with
  | Some s =>
      if str_eqb s s_export || str_eqb s s_readonly || str_eqb s s_typeset then Some true
      else if str_eqb s s_command then None
      else Some false
  | None => Some false
  end.

Record simple := mkSimple {
  sc_assigns : list (str * outcome);
  sc_words : list outcome
}.

Inductive cmdres :=
| COk (c : simple) (rest : str)
| CSyntax                       (* unclosed quotation *)
| COutside.                     (* not covered by the model *)

(* Parser::simple_command on the words of the command (no redirections) *)
Fixpoint take_assigns (ws : list (list wunit)) : list (str * outcome) * list (list wunit) :=
  match ws with
  | [] => ([], [])
  | w :: t =>
      match as_assign w with
      | Some (name, v) =>
          let (a, rest) := take_assigns t in ((name, read_value v) :: a, rest)
      | None => ([], ws)
      end
  end.

Definition build_simple (ws : list (list wunit)) : option simple :=
  match ws with
  | [] => Some (mkSimple [] [])
  | w0 :: _ =>
      if is_keyword w0 then None
      else
        let (assigns, rest) := take_assigns ws in
        match rest with
        | [] => Some (mkSimple assigns [])
        | name :: args =>
            match names_decl_util name with
            | None => None
            | Some d =>
                Some (mkSimple assigns
                        (read_multi name :: map (if d then read_decl else read_multi) args))
            end
        end
  end.

Definition run_line (lws : N -> bool) (inp : str) : cmdres :=
  match read_words lws (words_fuel inp) inp with
  | WOk ws rest =>
      match build_simple ws with
      | Some c => COk c rest
      | None => COutside
      end
  | WUnclosed => CSyntax
  | WUnsupported | WOutOfFuel => COutside
  end.

(* ---- a script of simple commands, one per line ---------------------------- *)

(* read_eval_loop on a text whose lines are simple commands: each command
   ends at a newline operator (or at the end of the text); any other
   separator is outside this model *)
Fixpoint run_lines (lws : N -> bool) (fuel : nat) (inp : str) : option (list simple) :=
  match fuel with
  | O => None
  | S fuel =>
      match inp with
      | [] => Some []
      | _ :: _ =>
          match run_line lws inp with
          | COk c rest =>
              match rest with
              | [] => Some [c]
              | d :: rest' =>
                  if N.eqb d c_nl then option_map (cons c) (run_lines lws fuel rest') else None
              end
          | _ => None
          end
      end
  end.

Definition lines_fuel (inp : str) : nat := S (length inp).

(* ---- array assignment  name=(word ...)  -------------------------------------- *)

Inductive arrres :=
| AOk (name : str) (elems : list outcome) (rest : str)
| ASyntax                 (* unclosed quotation or array value *)
| AOutside                (* not an array assignment the model covers *)
| AOutOfFuel.

Inductive elemsres :=
| EOk (ws : list (list wunit)) (rest : str)
| ESyntax
| EOutside
| EOutOfFuel.

(* Parser::array_values after the opening parenthesis: words separated by
   blanks, comments and newlines up to the closing parenthesis; any other
   operator or the end of input is an error (UnclosedArrayValue) *)
Fixpoint read_elems (lws : N -> bool) (fuel : nat) (inp : str) : elemsres :=
  match fuel with
  | O => EOutOfFuel
  | S fuel =>
      let inp1 := skip_blanks lws inp in
      match inp1 with
      | [] => ESyntax
      | c :: r =>
          if N.eqb c c_hash then read_elems lws fuel (skip_comment r)
          else if N.eqb c c_nl then read_elems lws fuel r
          else if N.eqb c c_rpar then EOk [] r
          else if is_operator_char c then ESyntax
          else
            match lex lws MUnq inp1 with
            | LWord us rest =>
                if all_digits us
                   && match rest with d :: _ => N.eqb d c_lt || N.eqb d c_gt | [] => false end
                then ESyntax             (* an IO_NUMBER token is not a word *)
                else
                  match read_elems lws fuel rest with
                  | EOk ws rest' => EOk (us :: ws) rest'
                  | e => e
                  end
            | LUnclosed => ESyntax
            | LUnsupported => EOutside
            end
      end
  end.

(* Parser::simple_command on  name=( ... ) : the first token is an assignment
   word with an empty value directly followed by the parenthesis; the elements
   are expanded like command words (ExpansionMode::Multiple) *)
Definition run_array_line (lws : N -> bool) (inp : str) : arrres :=
  let inp1 := skip_blanks lws inp in
  match lex lws MUnq inp1 with
  | LWord us rest =>
      match as_assign us, rest with
      | Some (name, []), c :: r =>
          if N.eqb c c_lpar then
            match read_elems lws (S (length r)) r with
            | EOk ws rest' => AOk name (map read_multi ws) rest'
            | ESyntax => ASyntax
            | EOutside => AOutside
            | EOutOfFuel => AOutOfFuel
            end
          else AOutside
      | _, _ => AOutside
      end
  | LUnclosed => ASyntax
  | LUnsupported => AOutside
  end.
