(* C11 — the property as a specification, written without the machinery of
   the implementation (no vacant/occupied entries, no origins, no parent
   states, no "old vs new disposition" bookkeeping):

     per signal the REFERENCE state is just
       - the action the user's `trap` commands ask for (initially: what the
         shell inherited),
       - the disposition the shell itself needs (initially none),
       - whether the signal is still "ignored on entry" (locked),
       - whether a delivery of the signal still waits for its trap to run;

     and the installed disposition must always be the REFERENCE MERGE
         max (need, disposition_of user_action)      Default < Ignore < Catch.

   The boolean ORACLE below replays the operations on the reference state,
   using only what the implementation reported (results, observed states,
   system calls), and checks every clause of the property on it. *)
From Yv Require Import Common.Base C11.Model.

Inductive tri := No | Yes | Unknown.

Record spec := mkSp {
  u_act : action;       (* the user's action in force *)
  u_need : disp;        (* what the shell needs for itself *)
  u_locked : bool;      (* ignored on entry, never overridden by an interactive shell *)
  u_pend : tri          (* a caught delivery whose trap has not run yet *)
}.

Definition act_of_disp (d : disp) : action :=
  match d with Ignore => AIgnore | Default | Catch => ADefault end.

Definition spec_init (d : disp) : spec :=
  mkSp (act_of_disp d) Default (disp_eqb d Ignore) No.

(* the reference merge *)
Definition expected (sp : spec) : disp := dmax (u_need sp) (disp_of (u_act sp)).

(* [r] is the result the implementation reported for the operation.

   [strict]: what happens to an outstanding delivery of a signal trapped with a
   command when that trap is replaced by another command before the action ran.  The property
   says every delivery of a trapped signal makes "its action" run exactly once;
   read strictly, the delivery stays outstanding (the action now in force must
   run).  yash-rs forgets it (TrapSet::set_action installs a state with
   pending = false), so the theorems are proved for the lenient reading
   ([strict = false]: outcome left open) and the strict one is refuted on the
   model (Properties.v); the run-time check uses the strict reading. *)
Definition spec_step (strict : bool) (c : N) (sp : spec) (o : op) (r : res) : spec :=
  match o with
  | OSetAction c' a _ ovr =>
      if N.eqb c c' then
        match r with
        | ROk =>
            mkSp a (u_need sp) (u_locked sp && negb ovr)
                 (match u_pend sp with
                  | Yes => if strict && is_command a && is_command (u_act sp) then Yes else Unknown
                  | p => p
                  end)
        | _ => sp
        end
      else sp
  | OPeek _ => sp
  | OInternal c' d =>
      if N.eqb c c' then mkSp (u_act sp) d (u_locked sp) (u_pend sp) else sp
  | OEnterSubshell ign keep =>
      let forced := (ign && is_int_quit c)
                    || (keep && is_stopper c && negb (disp_eqb (u_need sp) Default)) in
      mkSp (if forced then AIgnore
            else if is_command (u_act sp) then ADefault else u_act sp)
           (if N.eqb c SIGCHLD then u_need sp else Default)
           (u_locked sp)
           (if is_command (u_act sp) then No else u_pend sp)
  | ODeliver c' =>
      (* only a delivery to a signal the user has trapped with a command is a
         "delivery of a trapped signal"; one caught for the shell's own needs
         only (internal disposition) owes no action run, even if a command
         is set for the signal afterwards *)
      if N.eqb c c' && is_command (u_act sp)
      then mkSp (u_act sp) (u_need sp) (u_locked sp) Yes else sp
  | OTakeSig c' =>
      if N.eqb c c' then mkSp (u_act sp) (u_need sp) (u_locked sp) No else sp
  end.

Definition spec_steps (strict : bool) (c : N) (sp : spec) (ops : list op) (r : res) : spec :=
  fold_left (fun sp o => spec_step strict c sp o r) ops sp.

(* ---- observations -------------------------------------------------------- *)
(* what the public API shows for one condition: TrapSet::get_state, and the
   disposition and blocking mask of the (simulated) process *)
Record sobs := mkO {
  ob_cur : option tstate;
  ob_parent : option tstate;
  ob_disp : disp;
  ob_blocked : bool
}.

Definition observe (st : sigst) : sobs :=
  mkO (match s_ent st with Some e => Some (e_cur e) | None => None end)
      (match s_ent st with Some e => e_parent e | None => None end)
      (s_disp st) (s_blocked st).

Definition sobs_eqb (a b : sobs) : bool :=
  option_eqb tstate_eqb (ob_cur a) (ob_cur b)
  && option_eqb tstate_eqb (ob_parent a) (ob_parent b)
  && disp_eqb (ob_disp a) (ob_disp b)
  && Bool.eqb (ob_blocked a) (ob_blocked b).

(* ---- the operations of the public API, resolved by the reported result --- *)
Definition resolve (o : gop) (r : res) : list op :=
  match o with
  | GOp o => [o]
  | GEnableChld => [OInternal SIGCHLD Catch]
  | GEnableTerm => [OInternal SIGINT Catch; OInternal SIGTERM Ignore; OInternal SIGQUIT Ignore]
  | GEnableStop => [OInternal SIGTSTP Ignore; OInternal SIGTTIN Ignore; OInternal SIGTTOU Ignore]
  | GDisableTerm => [OInternal SIGINT Default; OInternal SIGTERM Default; OInternal SIGQUIT Default]
  | GDisableStop => [OInternal SIGTSTP Default; OInternal SIGTTIN Default; OInternal SIGTTOU Default]
  | GDisableAll =>
      [OInternal SIGCHLD Default;
       OInternal SIGINT Default; OInternal SIGTERM Default; OInternal SIGQUIT Default;
       OInternal SIGTSTP Default; OInternal SIGTTIN Default; OInternal SIGTTOU Default]
  | GTakeAny => match r with RTaken c _ => [OTakeSig c] | _ => [] end
  end.

(* ---- the clauses, for one operation seen from one condition --------------- *)

(* clause 2: KILL and STOP can never be trapped *)
Definition cl_kill_stop (c : N) (o : op) (r : res) : bool :=
  match o with
  | OSetAction c' _ _ _ =>
      if N.eqb c' SIGKILL then res_eqb r RErrKill
      else if N.eqb c' SIGSTOP then res_eqb r RErrStop
      else negb (res_eqb r RErrKill) && negb (res_eqb r RErrStop)
  | _ => true
  end.

(* clause 3: ignored on entry + non-interactive => the trap command is refused *)
Definition cl_locked (c : N) (sp : spec) (o : op) (r : res) : bool :=
  match o with
  | OSetAction c' _ _ ovr =>
      if N.eqb c c' && negb ovr && u_locked sp
         && negb (N.eqb c SIGKILL) && negb (N.eqb c SIGSTOP)
      then res_eqb r RErrIgnored else true
  | _ => true
  end.

(* clause 4: a trap command is refused as "ignored" only for a signal ignored
   on entry to the shell, in a non-interactive shell *)
Definition cl_refusal (c : N) (sp : spec) (o : op) (r : res) : bool :=
  match o with
  | OSetAction c' _ _ ovr =>
      if N.eqb c c' && res_eqb r RErrIgnored
      then negb ovr && u_locked sp
      else true
  | _ => true
  end.

(* clause 6: a caught delivery of a trapped signal is handed out exactly once,
   with the user's action *)
Definition cl_take (c : N) (sp : spec) (o : op) (r : res) : bool :=
  match o with
  | OTakeSig c' =>
      if N.eqb c c' then
        match r with
        | RTaken c'' t =>
            N.eqb c'' c && negb (t_pending t)
            && (negb (is_command (u_act sp))
                || (action_eqb (t_action t) (u_act sp)
                    && match u_pend sp with No => false | _ => true end))
        | RNone =>
            negb (is_command (u_act sp)) || match u_pend sp with Yes => false | _ => true end
        | _ => false
        end
      else true
  | _ => true
  end.

(* clause 5: system calls only when the disposition changes (an entry that is
   still vacant may be probed: `set_disposition(Ignore)` tells the initial
   disposition) *)
Definition cl_calls (c : N) (prev new : sobs) (log : list disp) : bool :=
  if negb (is_signal c) then match log with [] => true | _ => false end
  else
    match ob_cur prev, log with
    | _, [] => disp_eqb (ob_disp new) (ob_disp prev)
    | Some _, [d] => negb (disp_eqb d (ob_disp prev)) && disp_eqb (ob_disp new) d
    | None, [d] => disp_eqb (ob_disp new) d
    | None, [Ignore; d] => negb (disp_eqb d Ignore) && disp_eqb (ob_disp new) d
    | _, _ => false
    end.

(* clause 7: what get_state shows is the user's action *)
Definition cl_shown (sp' : spec) (new : sobs) : bool :=
  match ob_cur new with
  | Some t => action_eqb (t_action t) (u_act sp')
  | None => true
  end.

(* clause 8: the parent state is remembered exactly for the traps that
   entering a subshell resets, and forgotten (for every condition) when a
   trap is set *)
Definition cl_parent (c : N) (sp : spec) (o : op) (r : res) (new : sobs) : bool :=
  match o with
  | OEnterSubshell _ _ =>
      match ob_parent new with
      | Some t => is_command (u_act sp) && action_eqb (t_action t) (u_act sp)
      | None => negb (is_command (u_act sp))
      end
  | OSetAction _ _ _ _ =>
      match r with
      | ROk => match ob_parent new with None => true | Some _ => false end
      | _ => true
      end
  | _ => true
  end.

Definition first_failing (l : list (N * bool)) : option N :=
  match filter (fun p => negb (snd p)) l with
  | [] => None
  | (k, _) :: _ => Some k
  end.

(* All clauses for one global operation (resolved into [ops]) seen from
   condition c.  Returns the new reference state and the first failing
   clause.  Only the implementation's outputs (r, prev, new, log) are used. *)
Definition check_sig (strict : bool) (c : N) (sp : spec) (ops : list op) (r : res)
    (prev new : sobs) (log : list disp) : spec * option N :=
  let sp' := spec_steps strict c sp ops r in
  (sp',
   first_failing
     [ (0, negb (is_signal c) || disp_eqb (ob_disp new) (expected sp'));
       (1, negb (is_signal c) || Bool.eqb (ob_blocked new) (disp_eqb (ob_disp new) Catch));
       (2, forallb (fun o => cl_kill_stop c o r) ops);
       (3, forallb (fun o => cl_locked c sp o r) ops);
       (4, forallb (fun o => cl_refusal c sp o r) ops);
       (5, cl_calls c prev new log);
       (6, forallb (fun o => cl_take c sp o r) ops);
       (7, cl_shown sp' new);
       (8, forallb (fun o => cl_parent c sp o r new) ops) ]%N).

(* clause 9 (global): take_caught_signal reports "none" only if no trapped
   signal has a delivery waiting *)
Definition cl_take_any (o : gop) (r : res) (sps : list (N * spec)) : bool :=
  match o, r with
  | GTakeAny, RNone =>
      forallb (fun p => negb (is_signal (fst p) && is_command (u_act (snd p))
                                && match u_pend (snd p) with Yes => true | _ => false end)) sps
  | GTakeAny, RTaken _ _ => true
  | GTakeAny, _ => false
  | _, _ => true
  end.

(* ---- the oracle over a whole history ---------------------------------------- *)
(* One step of a history: the operation, the result the implementation
   returned, the observation of every condition in play after it (in the order
   of the universe), and the `set_disposition` calls it made, in order. *)
Definition step_obs := (gop * res * list (N * sobs) * list (N * disp))%type.

Definition calls_for (c : N) (log : list (N * disp)) : list disp :=
  map snd (filter (fun p => N.eqb (fst p) c) log).

(* all conditions in play: new reference states, first failing clause *)
Fixpoint check_all (strict : bool) (sps : list (N * spec)) (ops : list op) (r : res)
    (prev new : list (N * sobs)) (log : list (N * disp))
    : list (N * spec) * option N :=
  match sps, prev, new with
  | (c, sp) :: sps, (_, p) :: prev, (_, n) :: new =>
      let '(sp', f) := check_sig strict c sp ops r p n (calls_for c log) in
      let '(sps', f') := check_all strict sps ops r prev new log in
      ((c, sp') :: sps', match f with Some k => Some k | None => f' end)
  | _, _, _ => ([], None)
  end.

(* first failing clause over a history; None = the oracle accepts *)
Fixpoint oracle_hist (strict : bool) (sps : list (N * spec)) (prev : list (N * sobs))
    (h : list step_obs) : option N :=
  match h with
  | [] => None
  | (o, r, new, log) :: h =>
      let '(sps', f) := check_all strict sps (resolve o r) r prev new log in
      match f with
      | Some k => Some k
      | None =>
          if negb (cl_take_any o r sps) then Some 9%N
          else oracle_hist strict sps' new h
      end
  end.

Definition spec_inits (univ : list (N * disp)) : list (N * spec) :=
  map (fun p => (fst p, spec_init (snd p))) univ.

Definition obs_inits (univ : list (N * disp)) : list (N * sobs) :=
  map (fun p => (fst p, observe (init_st (snd p)))) univ.

(* ---- the domain of the check ---------------------------------------------------- *)
Definition mem (c : N) (l : list N) : bool := existsb (N.eqb c) l.

Fixpoint sortedb (l : list N) : bool :=
  match l with
  | a :: ((b :: _) as t) => N.ltb a b && sortedb t
  | _ => true
  end.

(* conditions in play: sorted by number, none initially caught, EXIT (which has
   no disposition) listed as Default *)
Definition univ_ok (univ : list (N * disp)) : bool :=
  sortedb (map fst univ)
  && forallb (fun p => negb (disp_eqb (snd p) Catch)
                       && (is_signal (fst p) || disp_eqb (snd p) Default)) univ.

Definition ops_signals (ops : list op) : list N :=
  flat_map (fun o => match o with
                     | OSetAction c _ _ _ | OPeek c | OInternal c _ | ODeliver c | OTakeSig c => [c]
                     | OEnterSubshell ign _ => if ign then [SIGINT; SIGQUIT] else []
                     end) ops.

(* an operation of the public API all of whose conditions are in play *)
Definition gop_ok (keys : list N) (o : gop) : bool :=
  let ops := resolve o RNone in
  forallb op_ok ops && forallb (fun c => mem c keys) (ops_signals ops).

(* ---- what the model itself would report (for the soundness theorem) -------------- *)
Definition model_log (g : gstate) (ops : list op) : list (N * disp) :=
  flat_map (fun p => map (fun d => (fst p, d)) (calls_of (fst p) (snd p) ops)) g.

Fixpoint model_trace (g : gstate) (gops : list gop) : list step_obs :=
  match gops with
  | [] => []
  | o :: rest =>
      (o, gresult g o, map (fun p => (fst p, observe (snd p))) (gstep g o),
       model_log g (expand g o)) :: model_trace (gstep g o) rest
  end.

(* ---- Prop form of the central invariant (what Properties.v is about) ------ *)

(* the disposition a condition's entry stands for *)
Definition merged (init : disp) (st : sigst) : disp :=
  match s_ent st with
  | None => init
  | Some e => dmax (e_internal e) (disp_of (t_action (e_cur e)))
  end.

(* installed disposition = merge, and the signal is blocked iff it is caught *)
Definition DispInv (init : disp) (st : sigst) : Prop :=
  s_disp st = merged init st /\ s_blocked st = disp_eqb (s_disp st) Catch.

(* the abstraction relating an implementation state to the reference state *)
Definition Refines (init : disp) (st : sigst) (sp : spec) : Prop :=
  match s_ent st with
  | None =>
      u_act sp = act_of_disp init /\ u_need sp = Default /\ u_pend sp = No
      /\ u_locked sp = disp_eqb init Ignore
  | Some e =>
      u_act sp = t_action (e_cur e) /\ u_need sp = e_internal e
      /\ (u_pend sp = Yes -> t_pending (e_cur e) = true)
      /\ (u_pend sp = No -> is_command (t_action (e_cur e)) = true ->
          t_pending (e_cur e) = false)
      /\ (u_locked sp = true ->
          t_action (e_cur e) = AIgnore /\ t_origin (e_cur e) = Inherited)
      /\ (t_action (e_cur e) = AIgnore -> t_origin (e_cur e) = Inherited -> u_locked sp = true)
  end.

(* ---- notions used in the statements of Properties.v -------------------------------- *)
(* the caught flag of a condition *)
Definition pending (st : sigst) : bool :=
  match s_ent st with Some e => t_pending (e_cur e) | None => false end.

(* operations a non-interactive shell performs: `trap` never overrides *)
Definition noninteractive (o : op) : bool :=
  match o with OSetAction _ _ _ ovr => negb ovr | _ => true end.

(* the signals whose disposition entering a subshell forces to Ignore *)
Definition forced_ignore (c : N) (ign keep : bool) (internal : disp) : bool :=
  (ign && is_int_quit c) || (keep && is_stopper c && negb (disp_eqb internal Default)).

(* ---- the class of the known finding C11-retrap-pending -------------------------------- *)
(* the operation gives a new command to a condition that has a command and
   whose caught flag is set *)
Definition retrap (c : N) (st : sigst) (o : op) : bool :=
  match o, s_ent st with
  | OSetAction c' a _ _, Some e =>
      N.eqb c c' && is_command a && t_pending (e_cur e) && is_command (t_action (e_cur e))
  | _, _ => false
  end.

(* no step of the history (run on the model) is of that class *)
Fixpoint retrap_class_free (g : gstate) (gops : list gop) : bool :=
  match gops with
  | [] => true
  | o :: rest =>
      forallb (fun p => forallb (fun x => negb (retrap (fst p) (snd p) x)) (expand g o)) g
      && retrap_class_free (gstep g o) rest
  end.
