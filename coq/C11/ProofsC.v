(* C11 — lemmas, part C: the model refines the reference state machine and
   passes every clause of the oracle (no false alarms). *)
From Yv Require Import Common.Base C11.Model C11.Spec C11.Proofs.
Local Arguments N.eqb : simpl never.

Definition Good (c : N) (init : disp) (st : sigst) (sp : spec) : Prop :=
  init <> Catch /\ (c = EXIT -> init = Default) /\
  (c <> EXIT -> DispInv init st) /\ Refines init st sp.

(* what the result of a global operation can be, seen from condition c *)
Definition ResOk (c : N) (o : op) (st : sigst) (r : res) : Prop :=
  (target o = Some c -> r = o_res (step c o st)) /\
  (target o <> Some c -> cl_kill_stop c o r = true).

Ltac unfold_spec :=
  unfold Refines, spec_step, expected, act_of_disp, cl_kill_stop, cl_locked, cl_refusal,
    cl_take, cl_calls, cl_shown, cl_parent, observe, target in *.

Ltac split_hyp H :=
  repeat (cbn in H; match type of H with
  | context [N.eqb ?a ?b] => destruct (N.eqb a b) eqn:?
  | context [negb ?x] => is_var x; destruct x
  | context [if ?x then _ else _] => is_var x; destruct x
  | context [match ?x with _ => _ end] => is_var x; destruct x
  end).

Ltac all_bools :=
  repeat match goal with x : bool |- _ => destruct x end.

Ltac wrapup :=
  all_bools; cbn in *; intuition (subst; cbn in *; try congruence; try discriminate).

Lemma good_init c d :
  d <> Catch -> (c = EXIT -> d = Default) -> Good c d (init_st d) (spec_init d).
Proof.
  intros H1 H2. repeat split; auto.
  - destruct d; cbn; congruence.
Qed.

(* the classes of conditions that enter_subshell distinguishes *)
Lemma class_cases c :
  (c = EXIT /\ is_signal c = false /\ N.eqb c SIGCHLD = false /\ is_int_quit c = false /\ is_stopper c = false)
  \/ (c = SIGCHLD /\ is_signal c = true /\ N.eqb c SIGCHLD = true /\ is_int_quit c = false /\ is_stopper c = false)
  \/ (is_signal c = true /\ N.eqb c SIGCHLD = false /\ is_int_quit c = true /\ is_stopper c = false)
  \/ (is_signal c = true /\ N.eqb c SIGCHLD = false /\ is_int_quit c = false /\ is_stopper c = true)
  \/ (is_signal c = true /\ N.eqb c SIGCHLD = false /\ is_int_quit c = false /\ is_stopper c = false).
Proof.
  unfold is_signal, is_int_quit, is_stopper.
  destruct (N.eqb_spec c EXIT) as [->|H0]; [left; repeat split|].
  destruct (N.eqb_spec c SIGCHLD) as [->|H1]; [right; left; repeat split|].
  destruct (N.eqb_spec c SIGINT) as [->|H2]; [right; right; left; repeat split|].
  destruct (N.eqb_spec c SIGQUIT) as [->|H3]; [right; right; left; repeat split|].
  destruct (N.eqb_spec c SIGTSTP) as [->|H4]; [right; right; right; left; repeat split|].
  destruct (N.eqb_spec c SIGTTIN) as [->|H5]; [right; right; right; left; repeat split|].
  destruct (N.eqb_spec c SIGTTOU) as [->|H6]; [right; right; right; left; repeat split|].
  right; right; right; right. repeat split.
Qed.

Ltac unfold_step2 :=
  unfold step_st, step, o_st, o_calls, o_res, gs_set_action, clear_parent, ts_peek,
    gs_set_internal, ts_enter_subshell, gs_enter_subshell, gs_ignore, ts_deliver, ts_catch,
    ts_take, with_ent, sys_set, from_initial, es_option, op_ok in *.

(* split on the class of c and rewrite the class tests everywhere *)
Ltac classify c :=
  let Hs := fresh "Hs" in let Hk := fresh "Hk" in let Hq := fresh "Hq" in
  let Ht := fresh "Ht" in let He := fresh "He" in
  destruct (class_cases c) as
    [(He & Hs & Hk & Hq & Ht) | [(He & Hs & Hk & Hq & Ht) | [(Hs & Hk & Hq & Ht)
    | [(Hs & Hk & Hq & Ht) | (Hs & Hk & Hq & Ht)]]]];
  rewrite ?Hs, ?Hk, ?Hq, ?Ht in *.

(* the state shapes allowed by Refines, with the reference state rewritten in
   terms of the implementation state *)
Ltac use_refines HR :=
  unfold Refines in HR; cbn in HR;
  match type of HR with
  | _ /\ _ /\ _ /\ _ /\ _ /\ _ =>
      let Hp1 := fresh "Hp1" in let Hp2 := fresh "Hp2" in let Hl := fresh "Hl" in
      let Hl2 := fresh "Hl2" in
      destruct HR as (-> & -> & Hp1 & Hp2 & Hl & Hl2)
  | _ /\ _ /\ _ /\ _ => destruct HR as (-> & -> & -> & ->)
  end.

Ltac cheap :=
  try solve [repeat split; solve [reflexivity | discriminate | congruence
                                 | intros; solve [discriminate | congruence]]].

Ltac mid := neqs; subst; inv_somes; consts; cheap.

(* goals whose last part needs the "locked" implication [Hl] *)
Ltac tail Hl :=
  repeat split;
  try solve [reflexivity | discriminate | congruence | intros; solve [discriminate | congruence]];
  intros;
  repeat match goal with x : bool |- _ => destruct x end; cbn in *; try discriminate;
  try (destruct Hl as [? ?]; [reflexivity|]); subst; cbn in *;
  solve [reflexivity | discriminate | congruence | tauto].

Lemma refines_step c init st sp o r :
  Good c init st sp -> op_ok o = true -> ResOk c o st r ->
  Refines init (step_st c st o) (spec_step false c sp o r).
Proof.
  intros (Hi & H0 & Hinv & HR) Hok [Hr1 Hr2].
  destruct sp as [ua un ul up].
  destruct (N.eqb c EXIT) eqn:Ec.
  - (* the EXIT condition *)
    apply N.eqb_eq in Ec. subst c. specialize (H0 eq_refl). subst init. clear Hinv.
    destruct st as [[[[a og p] par int]|] d b]; use_refines HR;
    destruct o as [c' a' tag ovr | c' | c' d' | [|] [|] | c' | c'];
    unfold_spec; unfold_step; cbn in *;
    try (destruct (N.eqb EXIT c') eqn:E0;
         [ apply N.eqb_eq in E0; subst c'; rewrite (Hr1 eq_refl); clear Hr1 Hr2
         | clear Hr1 ]);
    cbn in *; split_goal; cbn; cheap; mid; try tail Hl; finish.
  - apply N.eqb_neq in Ec. specialize (Hinv Ec). destruct Hinv as [Hd Hb]. clear H0.
    pose proof (is_signal_true c Ec) as Hs.
    destruct st as [[[[a og p] par int]|] d b]; unfold merged in Hd; cbn in Hd, Hb;
    use_refines HR;
    destruct o as [c' a' tag ovr | c' | c' d' | [|] [|] | c' | c'];
    unfold_spec; unfold_step; cbn in *;
    try (destruct (N.eqb c c') eqn:E0;
         [ apply N.eqb_eq in E0; subst c'; rewrite (Hr1 eq_refl); clear Hr1 Hr2
         | clear Hr1 ]);
    cbn in *; rewrite ?Hs; rewrite ?N.eqb_refl; split_goal; cbn; cheap; mid; try tail Hl; finish;
    exfalso; all_actions; all_disps; cbn in *; congruence.
Qed.

