(* C11, second half — "each delivery of a trapped signal makes its action run
   exactly once, at the next command boundary, with $? preserved".

   Executable model of how the shell runs signal traps around commands:
     yash-semantics/src/command.rs   Command::execute runs
                                     run_traps_for_caught_signals after every
                                     (simple, compound, function) command
     yash-semantics/src/trap/signal.rs   run_traps_for_caught_signals: poll,
                                     `in_trap` suppression, loop over
                                     TrapSet::take_caught_signal (lowest signal
                                     number first)
     yash-semantics/src/trap.rs      run_trap: $? saved and restored
     yash-env/src/trap.rs            set_action resets the caught flag;
                                     enter_subshell resets command traps
   on a small command language whose leaves are the harness's instrumented
   built-ins:
     p KEY ST        record (KEY, $?), return ST
     raise SIG ST    record, send SIG to the shell process itself, return ST
     mark SIG ACT; trap ... SIG     record the trap change, then the real `trap`
   Signals here are ones whose default action terminates the process (HUP,
   TERM, USR1, USR2). *)
From Yv Require Import Common.Base.

(* what `trap` installs: `-`, `''`, or the action with this identifier *)
Inductive tact := TDefault | TIgnore | TBody (id : N).

(* straight-line commands (trap actions consist of these) *)
Inductive bcmd :=
| BProbe (k st : N)
| BRaise (sg st : N)
| BTrap (sg : N) (a : tact).

Inductive cmd :=
| CB (b : bcmd)
| CBrace (l : list cmd)                 (* { l; } *)
| CSub (l : list cmd)                   (* ( l ) *)
| CIf (c t e : list cmd).               (* if c; then t; else e; fi *)

(* what the instrumented built-ins record; [before] is $? on entry *)
Inductive ev :=
| EProbe (k before arg : N)
| ERaise (sg before arg : N)
| EMark (sg : N) (a : tact) (before : N).

(* process index (0 = the main shell, 1, 2, ... = subshells in order) *)
Definition event := (N * ev)%type.

Definition tact_eqb (a b : tact) : bool :=
  match a, b with
  | TDefault, TDefault | TIgnore, TIgnore => true
  | TBody x, TBody y => N.eqb x y
  | _, _ => false
  end.

Definition ev_eqb (a b : ev) : bool :=
  match a, b with
  | EProbe k x y, EProbe k' x' y' => N.eqb k k' && N.eqb x x' && N.eqb y y'
  | ERaise k x y, ERaise k' x' y' => N.eqb k k' && N.eqb x x' && N.eqb y y'
  | EMark s a x, EMark s' a' x' => N.eqb s s' && tact_eqb a a' && N.eqb x x'
  | _, _ => false
  end.

Definition table := list (N * list bcmd).

Fixpoint body_of (tbl : table) (id : N) : list bcmd :=
  match tbl with
  | [] => []
  | (i, b) :: tbl => if N.eqb i id then b else body_of tbl id
  end.

Fixpoint trap_of (traps : list (N * tact)) (sg : N) : tact :=
  match traps with
  | [] => TDefault
  | (s, a) :: traps => if N.eqb s sg then a else trap_of traps sg
  end.

Fixpoint set_trap (traps : list (N * tact)) (sg : N) (a : tact) : list (N * tact) :=
  match traps with
  | [] => [(sg, a)]
  | (s, x) :: traps => if N.eqb s sg then (s, a) :: traps else (s, x) :: set_trap traps sg a
  end.

(* caught flags: the set of signals whose flag is set, kept sorted *)
Fixpoint insert_sig (sg : N) (l : list N) : list N :=
  match l with
  | [] => [sg]
  | x :: l' => if N.ltb sg x then sg :: l else if N.eqb sg x then l else x :: insert_sig sg l'
  end.

Definition remove_sig (sg : N) (l : list N) : list N := filter (fun x => negb (N.eqb x sg)) l.

Record sh := mkSh {
  traps : list (N * tact);
  pend : list N;
  status : N;          (* $? *)
  pid : N;
  nextpid : N;
  tr : list event      (* most recent first *)
}.

Inductive sres :=
| SOk (s : sh)
| SDead (sg : N) (s : sh)     (* the process was terminated by signal sg *)
| SFuel.

Definition emit (e : ev) (s : sh) : list event := (pid s, e) :: tr s.

(* one instrumented built-in *)
Definition do_b (b : bcmd) (s : sh) : sres :=
  match b with
  | BProbe k st =>
      SOk (mkSh (traps s) (pend s) st (pid s) (nextpid s) (emit (EProbe k (status s) st) s))
  | BRaise sg st =>
      let t := emit (ERaise sg (status s) st) s in
      match trap_of (traps s) sg with
      | TBody _ => SOk (mkSh (traps s) (insert_sig sg (pend s)) st (pid s) (nextpid s) t)
      | TIgnore => SOk (mkSh (traps s) (pend s) st (pid s) (nextpid s) t)
      | TDefault => SDead sg (mkSh (traps s) (pend s) st (pid s) (nextpid s) t)
      end
  | BTrap sg a =>
      (* `mark` returns 0, then `trap`: TrapSet::set_action installs a fresh
         TrapState (pending = false) *)
      SOk (mkSh (set_trap (traps s) sg a) (remove_sig sg (pend s)) 0 (pid s) (nextpid s)
               (emit (EMark sg a (status s)) s))
  end.

(* a trap action: run_traps_for_caught_signals is called after each of its
   commands but does nothing while in a trap *)
Fixpoint run_body (l : list bcmd) (s : sh) : sres :=
  match l with
  | [] => SOk s
  | b :: l => match do_b b s with SOk s' => run_body l s' | r => r end
  end.

Definition with_status (s : sh) (st : N) : sh :=
  mkSh (traps s) (pend s) st (pid s) (nextpid s) (tr s).

(* run_traps_for_caught_signals outside a trap:
   `while let Some((signal, state)) = env.traps.take_caught_signal()` *)
Fixpoint boundary (tbl : table) (fuel : nat) (s : sh) : sres :=
  match pend s with
  | [] => SOk s
  | sg :: rest =>
      match fuel with
      | O => SFuel
      | S f =>
          let s1 := mkSh (traps s) rest (status s) (pid s) (nextpid s) (tr s) in
          match trap_of (traps s) sg with
          | TBody id =>
              match run_body (body_of tbl id) s1 with
              | SOk s2 => boundary tbl f (with_status s2 (status s))   (* $? restored *)
              | r => r
              end
          | _ => boundary tbl f s1
          end
      end
  end.

(* TrapSet::enter_subshell: command traps are reset, ignored signals stay *)
Definition reset_traps (traps : list (N * tact)) : list (N * tact) :=
  map (fun p => (fst p, match snd p with TBody _ => TDefault | a => a end)) traps.

(* a list of commands, given how one command is executed *)
Definition exec_list_with (ex : cmd -> sh -> sres) : list cmd -> sh -> sres :=
  fix go (l : list cmd) (s : sh) : sres :=
    match l with
    | [] => SOk s
    | c :: l => match ex c s with SOk s' => go l s' | r => r end
    end.

Section Exec.
  Variable tbl : table.
  Variable bfuel : nat.

  (* Command::execute: the command, then run_traps_for_caught_signals *)
  Fixpoint exec (c : cmd) (s : sh) : sres :=
    match c with
    | CB b => match do_b b s with SOk s' => boundary tbl bfuel s' | r => r end
    | CBrace l =>
        match exec_list_with exec l s with SOk s' => boundary tbl bfuel s' | r => r end
    | CSub l =>
        let child := mkSh (reset_traps (traps s)) [] (status s) (nextpid s) (nextpid s + 1) (tr s) in
        match exec_list_with exec l child with
        | SOk c' =>
            boundary tbl bfuel (mkSh (traps s) (pend s) (status c') (pid s) (nextpid c') (tr c'))
        | SDead sg c' =>
            boundary tbl bfuel (mkSh (traps s) (pend s) (384 + sg) (pid s) (nextpid c') (tr c'))
        | SFuel => SFuel
        end
    | CIf c t e =>
        match exec_list_with exec c s with
        | SOk s1 =>
            match (if N.eqb (status s1) 0 then exec_list_with exec t s1
                   else exec_list_with exec e s1) with
            | SOk s2 => boundary tbl bfuel s2
            | r => r
            end
        | r => r
        end
    end.

  Definition exec_list : list cmd -> sh -> sres := exec_list_with exec.
End Exec.

Definition init_sh : sh := mkSh [] [] 0 0 1 [].

(* outcome of a script: the trace (oldest first) and whether the main shell
   was killed *)
Definition run_script (tbl : table) (bfuel : nat) (main : list cmd) : option (list event * bool) :=
  match exec_list tbl bfuel main init_sh with
  | SOk s => Some (rev (tr s), false)
  | SDead _ s => Some (rev (tr s), true)
  | SFuel => None
  end.
