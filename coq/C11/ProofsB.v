(* C11 — lemmas, part B: subshell entry, system calls, the caught flag. *)
From Yv Require Import Common.Base C11.Model C11.Spec C11.Proofs.
Local Arguments N.eqb : simpl never.

(* ---- entering a subshell ------------------------------------------------------- *)
Lemma enter_subshell_thm c init ops ign keep :
  c <> EXIT -> init <> Catch ->
  let st := run c init ops in
  let st' := step_st c st (OEnterSubshell ign keep) in
  match s_ent st with
  | None =>
      if ign && is_int_quit c
      then s_disp st' = Ignore /\
           exists e', s_ent st' = Some e' /\ t_action (e_cur e') = AIgnore /\
                      e_parent e' = None /\ e_internal e' = Default
      else st' = st
  | Some e =>
      exists e', s_ent st' = Some e' /\
        t_action (e_cur e') =
          (if forced_ignore c ign keep (e_internal e) then AIgnore
           else if is_command (t_action (e_cur e)) then ADefault
           else t_action (e_cur e)) /\
        e_parent e' = (if is_command (t_action (e_cur e)) then Some (e_cur e) else None) /\
        e_internal e' = (if N.eqb c SIGCHLD then e_internal e else Default) /\
        (is_command (t_action (e_cur e)) = true -> t_pending (e_cur e') = false) /\
        s_disp st' = dmax (e_internal e') (disp_of (t_action (e_cur e')))
  end.
Proof.
  intros Hc Hi st st'.
  pose proof (disp_inv_run c init ops Hc Hi) as Hinv. fold st in Hinv.
  pose proof (disp_inv_step c init (OEnterSubshell ign keep) st Hc Hi Hinv) as [Hd' _].
  fold st' in Hd'. subst st'. clearbody st. clear Hinv.
  pose proof (is_signal_true c Hc) as Hs.
  destruct st as [[[[a og p] par int]|] d b]; unfold merged in Hd'.
  - revert Hd'. unfold forced_ignore. destruct ign, keep; unfold_step; cbn; rewrite ?Hs; cbn;
      split_goal; intros Hd'; eexists; (split; [reflexivity|]); cbn;
      all_actions; cbn in *; finish; repeat split; finish.
  - clear Hd'. destruct ign; unfold_step; cbn; split_goal; cbn; finish;
    (split; [reflexivity|]; eexists; split; [reflexivity|]; repeat split).
Qed.

(* ---- system calls only on change ------------------------------------------------ *)
Lemma syscall_thm c init ops o :
  c <> EXIT -> init <> Catch ->
  let st := run c init ops in
  let calls := o_calls (step c o st) in
  let st' := step_st c st o in
  match s_ent st with
  | Some _ =>
      (calls = [] /\ s_disp st' = s_disp st)
      \/ (exists d, calls = [d] /\ d <> s_disp st /\ s_disp st' = d)
  | None =>
      (calls = [] /\ s_disp st' = s_disp st)
      \/ (exists d, calls = [d] /\ s_disp st' = d)
      \/ (exists d, calls = [Ignore; d] /\ d <> Ignore /\ s_disp st' = d)
  end.
Proof.
  intros Hc Hi st.
  pose proof (disp_inv_run c init ops Hc Hi) as [Hd _]. fold st in Hd. clearbody st.
  pose proof (is_signal_true c Hc) as Hs.
  destruct st as [[[[a og p] par int]|] d b]; unfold merged in Hd; cbn in Hd; subst;
  destruct o as [c' a' tag ovr | c' | c' d' | [|] [|] | c' | c'];
  unfold_step; cbn; rewrite ?Hs; cbn; split_goal; cbn;
  try (left; split; reflexivity);
  try (right; left; eexists; split; [reflexivity|]; reflexivity);
  try (right; eexists; split; [reflexivity|]; split; [|reflexivity]; finish;
       all_disps; all_actions; cbn in *; congruence);
  try (right; right; eexists; split; [reflexivity|]; split; [|reflexivity]; finish).
Qed.

Lemma exit_no_syscall o st : op_ok o = true -> o_calls (step EXIT o st) = [].
Proof.
  intros Hok.
  destruct st as [[[[a og p] par int]|] d b];
  destruct o as [c' a' tag ovr | c' | c' d' | [|] [|] | c' | c'];
  unfold_step; cbn in *; split_goal; cbn; finish.
Qed.

(* ---- the caught flag -------------------------------------------------------------- *)
Lemma pending_set_thm c o st :
  pending st = false -> pending (step_st c st o) = true ->
  o = ODeliver c /\ s_disp st = Catch.
Proof.
  destruct st as [[[[a og p] par int]|] d b];
  destruct o as [c' a' tag ovr | c' | c' d' | [|] [|] | c' | c'];
  unfold pending; unfold_step; cbn; split_goal; cbn; intros; finish.
  all: try (split; congruence).
Qed.

Lemma pending_deliver_thm c init ops :
  c <> EXIT -> init <> Catch ->
  let st := run c init ops in
  s_disp st = Catch -> pending (step_st c st (ODeliver c)) = true.
Proof.
  intros Hc Hi st. pose proof (disp_inv_run c init ops Hc Hi) as [Hd _].
  fold st in Hd. clearbody st. intros HC.
  destruct st as [[[[a og p] par int]|] d b]; unfold merged in Hd; cbn in *; subst.
  - unfold pending; unfold_step. rewrite N.eqb_refl. cbn. rewrite HC. reflexivity.
  - congruence.
Qed.

Lemma pending_take_thm c st :
  c <> EXIT ->
  let x := step c (OTakeSig c) st in
  pending (o_st x) = false /\
  o_calls x = [] /\
  (pending st = true ->
     exists e, s_ent st = Some e /\
       o_res x = RTaken c (mkT (t_action (e_cur e)) (t_origin (e_cur e)) false)) /\
  (pending st = false -> o_res x = RNone /\ o_st x = st) /\
  o_res (step c (OTakeSig c) (o_st x)) = RNone.
Proof.
  intros Hc. destruct st as [[[[a og [|]] par int]|] d b];
  unfold pending; unfold_step; rewrite ?N.eqb_refl; cbn; rewrite ?N.eqb_refl; cbn;
  repeat split; try congruence; try discriminate.
  intros _. eexists; split; reflexivity.
Qed.

(* a pending flag disappears only when the signal is taken, the trap is set
   anew, or a subshell resets the trap *)
Lemma pending_cleared_thm c o st :
  pending st = true -> pending (step_st c st o) = false ->
  o = OTakeSig c
  \/ (exists a tag ovr, o = OSetAction c a tag ovr /\ o_res (step c o st) = ROk)
  \/ (exists ign keep e, o = OEnterSubshell ign keep /\ s_ent st = Some e
                         /\ is_command (t_action (e_cur e)) = true).
Proof.
  destruct st as [[[[a og p] par int]|] d b];
  destruct o as [c' a' tag ovr | c' | c' d' | ign keep | c' | c'];
  unfold pending; cbn; try discriminate.
  - intros -> H. right; left. revert H. unfold_step; cbn; split_goal; cbn; intros; finish;
    do 3 eexists; split; reflexivity.
  - unfold_step; cbn; split_goal; cbn; intros; finish.
  - unfold_step; cbn; split_goal; cbn; intros; finish.
  - intros -> H. right; right. exists ign, keep. eexists. split; [reflexivity|]. split; [reflexivity|].
    revert H. unfold_step; cbn. destruct a; cbn; try reflexivity; split_goal; cbn; intros; finish.
  - unfold_step; cbn; split_goal; cbn; intros; finish.
  - intros -> H. left. revert H. unfold_step; cbn; split_goal; cbn; intros; finish.
Qed.
