(* C11 — proofs about the model of `wait` interrupted by a trapped signal. *)
From Coq Require Import Lia Sorted.
From Yv Require Import Common.Base C11.ScriptModel C11.ScriptProofs C11.WaitModel C11.WaitSpec.

Lemma memN_In x l : memN x l = true <-> In x l.
Proof.
  unfold memN. rewrite existsb_exists. split.
  - intros [y [Hy He]]. apply N.eqb_eq in He. subst. exact Hy.
  - intros H. exists x. split; [exact H|apply N.eqb_refl].
Qed.

Lemma in_catch_all l : forall p x, In x (catch_all l p) <-> In x l \/ In x p.
Proof.
  unfold catch_all. induction l as [|a l IH]; intros p x; cbn.
  - tauto.
  - rewrite IH, in_insert_sig. intuition congruence.
Qed.

Lemma sorted_catch_all l : forall p, StronglySorted N.lt p -> StronglySorted N.lt (catch_all l p).
Proof.
  unfold catch_all. induction l as [|a l IH]; intros p Hp; cbn; [exact Hp|].
  apply IH, sorted_insert, Hp.
Qed.

Lemma first_trap_head traps pend sg c :
  body_sig traps sg = true -> memN sg pend = true ->
  first_trap traps pend (sg :: c) = (Some sg, remove_sig sg pend).
Proof. intros Hb Hm. cbn. rewrite Hm, Hb. reflexivity. Qed.

Lemma span_quiet_app traps evs q r : span_quiet traps evs = (q, r) -> q ++ r = evs.
Proof.
  revert q r. induction evs as [|e evs IH]; intros q r H; cbn in H.
  - inversion H. reflexivity.
  - destruct (quiet traps e).
    + destruct (span_quiet traps evs) as [q' r'] eqn:Hs. inversion H; subst.
      cbn. f_equal. apply IH. reflexivity.
    + inversion H. reflexivity.
Qed.

Lemma span_quiet_spec traps evs q r :
  span_quiet traps evs = (q, r) ->
  forallb (quiet traps) q = true /\ match r with [] => True | e :: _ => quiet traps e = false end.
Proof.
  revert q r. induction evs as [|e evs IH]; intros q r H; cbn in H.
  - inversion H. cbn. auto.
  - destruct (quiet traps e) eqn:Hq.
    + destruct (span_quiet traps evs) as [q' r'] eqn:Hs. inversion H; subst.
      destruct (IH _ _ eq_refl) as [H1 H2]. cbn. rewrite Hq, H1. auto.
    + inversion H; subst. cbn. auto.
Qed.

(* the step of the specification over one quiet event *)
Lemma wait_spec_quiet traps t js js' e evs :
  tgt_check t js = (None, js') -> quiet traps e = true ->
  wait_spec traps t js (e :: evs) = consume e (wait_spec traps t (jafter js' e) evs).
Proof.
  intros Hc Hq. unfold wait_spec. cbn [span_quiet]. rewrite Hq.
  destruct (span_quiet traps evs) as [q r] eqn:Hs.
  cbn [scan_done]. rewrite Hc.
  destruct (scan_done t (jafter js' e) q) as [[[[st js2] used] lft]|js2].
  - reflexivity.
  - destruct r as [|e' r'].
    + reflexivity.
    + destruct (span_quiet_spec _ _ _ _ Hs) as [_ Hne].
      unfold quiet in Hne.
      destruct (classify traps e') eqn:Hcl; try discriminate; reflexivity.
Qed.

Lemma wait_spec_stop traps t js js' e evs :
  tgt_check t js = (None, js') -> quiet traps e = false ->
  wait_spec traps t js (e :: evs) =
  match classify traps e with
  | Lethal => (WKilled, js', [], [e], evs)
  | Intr sg c => (WIntr sg, jafter js' e, remove_sig sg (sort_dedup c), [e], evs)
  | Quiet => (WStuck, js', [], [], e :: evs)
  end.
Proof.
  intros Hc Hq. unfold wait_spec. cbn [span_quiet]. rewrite Hq.
  cbn [scan_done]. rewrite Hc. destruct (classify traps e); reflexivity.
Qed.

Lemma wait_spec_done traps t js js' st evs :
  tgt_check t js = (Some st, js') ->
  wait_spec traps t js evs = (WDone st, js', [], [], evs).
Proof.
  intros Hc. unfold wait_spec. destruct (span_quiet traps evs) as [q r] eqn:Hs.
  destruct q; cbn [scan_done]; rewrite Hc; rewrite <- (span_quiet_app _ _ _ _ Hs); reflexivity.
Qed.

Theorem wait_model_meets_spec_proof traps t js evs :
  wait_loop traps t js evs = wait_spec traps t js evs.
Proof.
  revert js. induction evs as [|e evs IH]; intros js.
  - cbn [wait_loop]. destruct (tgt_check t js) as [[st|] js'] eqn:Hc.
    + symmetry. apply wait_spec_done. exact Hc.
    + unfold wait_spec. cbn. rewrite Hc. reflexivity.
  - cbn [wait_loop]. destruct (tgt_check t js) as [[st|] js'] eqn:Hc.
    + symmetry. apply wait_spec_done. exact Hc.
    + destruct e as [j l|j st].
      * destruct (existsb (lethal_sig traps) l) eqn:Hl.
        { rewrite (wait_spec_stop _ _ _ _ _ _ Hc).
          - cbn. rewrite Hl. reflexivity.
          - unfold quiet. cbn. rewrite Hl. reflexivity. }
        destruct (filter (body_sig traps) l) as [|sg c] eqn:Hf.
        { cbn [first_trap]. rewrite IH.
          rewrite (wait_spec_quiet _ _ _ _ _ _ Hc).
          - reflexivity.
          - unfold quiet. cbn. rewrite Hl, Hf. reflexivity. }
        assert (Hb : body_sig traps sg = true).
        { assert (Hin : In sg (filter (body_sig traps) l)) by (rewrite Hf; left; reflexivity).
          apply filter_In in Hin. apply Hin. }
        rewrite first_trap_head.
        { rewrite (wait_spec_stop _ _ _ _ _ _ Hc).
          - cbn. rewrite Hl, Hf. reflexivity.
          - unfold quiet. cbn. rewrite Hl, Hf. reflexivity. }
        { exact Hb. }
        { apply memN_In. apply in_catch_all. left. left. reflexivity. }
      * change (catch_all [WCHLD] []) with [WCHLD].
        cbn [first_trap]. unfold memN at 1. cbn [existsb]. rewrite N.eqb_refl. cbn [orb].
        destruct (body_sig traps WCHLD) eqn:Hb.
        { rewrite (wait_spec_stop _ _ _ _ _ _ Hc).
          - cbn. rewrite Hb. reflexivity.
          - unfold quiet. cbn. rewrite Hb. reflexivity. }
        { rewrite IH. rewrite (wait_spec_quiet _ _ _ _ _ _ Hc).
          - reflexivity.
          - unfold quiet. cbn. rewrite Hb. reflexivity. }
Qed.

(* the script level: model and specification agree *)
Lemma wexec_ext c1 c2 atbl :
  (forall traps t js evs, c1 traps t js evs = c2 traps t js evs) ->
  forall cs s, wexec c1 atbl cs s = wexec c2 atbl cs s.
Proof.
  intros H. induction cs as [|c cs IH]; intros s; [reflexivity|].
  destruct c; cbn [wexec]; try apply IH.
  rewrite H. destruct (c2 (w_traps s) t (w_jobs s) (w_evs s)) as [[[[o js] pend] used] rest].
  destruct o; try apply IH; reflexivity.
Qed.

Theorem wait_script_meets_spec_proof atbl cs evs :
  wrun wait_loop atbl cs evs = wrun wait_spec atbl cs evs.
Proof.
  unfold wrun. rewrite (wexec_ext wait_loop wait_spec atbl wait_model_meets_spec_proof).
  reflexivity.
Qed.

Lemma wevt_eqb_refl e : wevt_eqb e e = true.
Proof.
  destruct e; cbn; rewrite ?N.eqb_refl; cbn; try reflexivity.
  destruct a; cbn; rewrite ?N.eqb_refl; reflexivity.
Qed.

Lemma first_diff_refl l : first_diff l l = None.
Proof. induction l as [|e l IH]; cbn; [reflexivity|]. rewrite wevt_eqb_refl. exact IH. Qed.

(* oracle soundness: the oracle accepts what the model produces, for every
   script and every history of events *)
Theorem wait_oracle_sound_proof atbl cs evs :
  let '(e, tr) := wrun wait_loop atbl cs evs in
  wait_oracle atbl cs evs tr (wend_eqb e EndKilled) = None.
Proof.
  rewrite wait_script_meets_spec_proof. unfold wait_oracle.
  destruct (wrun wait_spec atbl cs evs) as [e tr].
  rewrite first_diff_refl. destruct (wend_eqb e EndKilled); reflexivity.
Qed.

(* ---- consequences, stated on the model ---------------------------------------------------- *)

Lemma w_consume e r :
  w_out (consume e r) = w_out r /\ w_pend (consume e r) = w_pend r /\
  w_used (consume e r) = e :: w_used r /\ w_rest (consume e r) = w_rest r.
Proof. destruct r as [[[[o js] p] u] x]. cbn. auto. Qed.

(* the events are used up in order, none lost *)
Theorem wait_used_rest_proof traps t js evs :
  w_used (wait_loop traps t js evs) ++ w_rest (wait_loop traps t js evs) = evs.
Proof.
  revert js. induction evs as [|e evs IH]; intros js; cbn [wait_loop];
    destruct (tgt_check t js) as [[st|] js']; try reflexivity.
  destruct e as [j l|j st].
  - destruct (existsb (lethal_sig traps) l); [reflexivity|].
    destruct (first_trap traps _ _) as [[sg|] p]; [reflexivity|].
    destruct (w_consume (WSigs j l) (wait_loop traps t js' evs)) as (_ & _ & -> & ->).
    cbn. f_equal. apply IH.
  - destruct (first_trap traps _ _) as [[sg|] p]; [reflexivity|].
    destruct (w_consume (WChild j st) (wait_loop traps t (jfinish js' j st) evs)) as (_ & _ & -> & ->).
    cbn. f_equal. apply IH.
Qed.

(* "interrupted exactly when a signal with a command trap is caught before the
   awaited jobs have finished": the events before the interrupting one are all
   quiet, the target is not complete after any prefix of them, and the
   interrupting signal is the first one of its event that has a command trap *)
Theorem wait_interrupted_iff_proof traps t js evs sg :
  w_out (wait_loop traps t js evs) = WIntr sg <->
  exists q e r c js',
    evs = q ++ e :: r /\ forallb (quiet traps) q = true /\
    scan_done t js q = inr js' /\ classify traps e = Intr sg c.
Proof.
  rewrite wait_model_meets_spec_proof. split.
  - unfold wait_spec. destruct (span_quiet traps evs) as [q r] eqn:Hs.
    destruct (span_quiet_spec _ _ _ _ Hs) as [Hq _].
    pose proof (span_quiet_app _ _ _ _ Hs) as Happ.
    destruct (scan_done t js q) as [[[[st js2] used] lft]|js2] eqn:Hd; [discriminate|].
    destruct r as [|e r']; [discriminate|].
    destruct (classify traps e) as [| |sg' c] eqn:Hcl; try discriminate.
    cbn. intros H. inversion H; subst sg'.
    exists q, e, r', c, js2. repeat split; auto.
  - intros (q & e & r & c & js' & -> & Hq & Hd & Hcl).
    assert (Hs : span_quiet traps (q ++ e :: r) = (q, e :: r)).
    { clear Hd. induction q as [|x q IHq]; cbn.
      - unfold quiet. rewrite Hcl. reflexivity.
      - cbn in Hq. apply andb_prop in Hq. destruct Hq as [Hx Hq]. rewrite Hx, (IHq Hq). reflexivity. }
    unfold wait_spec. rewrite Hs, Hd, Hcl. reflexivity.
Qed.

(* a signal that is ignored (or, for SIGCHLD, has no command) never interrupts *)
Theorem quiet_never_interrupts_proof traps t js evs :
  forallb (quiet traps) evs = true ->
  forall sg, w_out (wait_loop traps t js evs) <> WIntr sg.
Proof.
  intros Hq sg H. apply wait_interrupted_iff_proof in H.
  destruct H as (q & e & r & c & js' & -> & _ & _ & Hcl).
  rewrite forallb_app in Hq. apply andb_prop in Hq. destruct Hq as [_ Hq].
  cbn in Hq. unfold quiet in Hq. rewrite Hcl in Hq. discriminate.
Qed.

Theorem quiet_sigs_iff_proof traps j l :
  quiet traps (WSigs j l) = true <-> forall sg, In sg l -> trap_of traps sg = TIgnore.
Proof.
  unfold quiet. cbn. split.
  - destruct (existsb (lethal_sig traps) l) eqn:Hl; [discriminate|].
    destruct (filter (body_sig traps) l) as [|x c] eqn:Hf; [|discriminate].
    intros _ sg Hin.
    assert (H1 : lethal_sig traps sg = false).
    { destruct (lethal_sig traps sg) eqn:E; [|reflexivity].
      assert (existsb (lethal_sig traps) l = true) by (apply existsb_exists; eauto). congruence. }
    assert (H2 : body_sig traps sg = false).
    { destruct (body_sig traps sg) eqn:E; [|reflexivity].
      assert (In sg (filter (body_sig traps) l)) by (apply filter_In; auto).
      rewrite Hf in H. destruct H. }
    unfold lethal_sig in H1. unfold body_sig in H2.
    destruct (trap_of traps sg); try discriminate; reflexivity.
  - intros H.
    assert (Hl : existsb (lethal_sig traps) l = false).
    { destruct (existsb (lethal_sig traps) l) eqn:E; [|reflexivity].
      apply existsb_exists in E. destruct E as [x [Hx Hy]]. unfold lethal_sig in Hy.
      rewrite (H x Hx) in Hy. discriminate. }
    rewrite Hl.
    assert (Hf : filter (body_sig traps) l = []).
    { destruct (filter (body_sig traps) l) as [|x c] eqn:E; [reflexivity|].
      assert (Hin : In x (filter (body_sig traps) l)) by (rewrite E; left; reflexivity).
      apply filter_In in Hin. destruct Hin as [Hx Hy]. unfold body_sig in Hy.
      rewrite (H x Hx) in Hy. discriminate. }
    rewrite Hf. reflexivity.
Qed.

(* when `wait` is interrupted: the caught flags left are exactly the other
   signals of the interrupting event that have a command trap, each once, in
   increasing order *)
Theorem wait_interrupt_leaves_proof traps t js evs sg :
  w_out (wait_loop traps t js evs) = WIntr sg ->
  exists q e,
    w_used (wait_loop traps t js evs) = q ++ [e] /\
    body_sig traps sg = true /\
    StronglySorted N.lt (w_pend (wait_loop traps t js evs)) /\
    forall x, In x (w_pend (wait_loop traps t js evs)) <->
              x <> sg /\ body_sig traps x = true /\
              match e with WSigs _ l => In x l | WChild _ _ => x = WCHLD end.
Proof.
  rewrite wait_model_meets_spec_proof. unfold wait_spec.
  destruct (span_quiet traps evs) as [q r] eqn:Hs.
  destruct (scan_done t js q) as [[[[st js2] used] lft]|js2] eqn:Hd; [discriminate|].
  destruct r as [|e r']; [discriminate|].
  destruct (classify traps e) as [| |sg' c] eqn:Hcl; try discriminate.
  cbn. intros H. inversion H; subst sg'. exists q, e. split; [reflexivity|].
  destruct e as [j l|j st]; cbn in Hcl.
  - destruct (existsb (lethal_sig traps) l); [discriminate|].
    destruct (filter (body_sig traps) l) as [|x c'] eqn:Hf; [discriminate|].
    inversion Hcl; subst x c.
    assert (Hb : body_sig traps sg = true).
    { assert (Hin : In sg (filter (body_sig traps) l)) by (rewrite Hf; left; reflexivity).
      apply filter_In in Hin. apply Hin. }
    split; [exact Hb|]. split.
    + apply sorted_remove, sorted_catch_all. constructor.
    + intros x. rewrite in_remove_sig. unfold sort_dedup. rewrite in_catch_all, <- Hf, filter_In.
      cbn. tauto.
  - destruct (body_sig traps WCHLD) eqn:Hb; [|discriminate].
    inversion Hcl; subst sg c. split; [exact Hb|]. split.
    + apply sorted_remove. change (sort_dedup [WCHLD]) with [WCHLD].
      constructor; constructor.
    + intros x. rewrite in_remove_sig. change (sort_dedup [WCHLD]) with [WCHLD]. cbn.
      split.
      * intros [[<-|[]] Hne]. congruence.
      * intros (Hne & _ & ->). congruence.
Qed.

(* what the script records for an interrupted `wait`: the action of the
   interrupting signal once, with the $? of before the `wait`; the built-in's
   status 384+sg; then the actions of the signals left caught, with that $?,
   which the following command still sees *)
Theorem wait_interrupt_trace_proof core atbl t cs s sg js pend used rest :
  core (w_traps s) t (w_jobs s) (w_evs s) = (WIntr sg, js, pend, used, rest) ->
  wexec core atbl (WcWait t :: cs) s =
  wexec core atbl cs
    (mkW (w_traps s) (sig_status sg) js rest
         (rev (flat_map ev_trace used
               ++ act_probe atbl (w_traps s) (w_status s) sg
               ++ flat_map (act_probe atbl (w_traps s) (sig_status sg)) pend) ++ w_tr s)).
Proof.
  intros H. cbn [wexec]. rewrite H. rewrite !rev_app_distr, <- !app_assoc. reflexivity.
Qed.

Theorem wait_done_trace_proof core atbl t cs s st js pend used rest :
  core (w_traps s) t (w_jobs s) (w_evs s) = (WDone st, js, pend, used, rest) ->
  wexec core atbl (WcWait t :: cs) s =
  wexec core atbl cs (mkW (w_traps s) st js rest (rev (flat_map ev_trace used) ++ w_tr s)).
Proof. intros H. cbn [wexec]. rewrite H. reflexivity. Qed.

(* ---- non-vacuity --------------------------------------------------------------------------- *)
Definition ex_traps : list (N * tact) := [(124, TBody 1); (125, TBody 2); (1, TIgnore); (15, TBody 3)]%N.
Definition ex_jobs : jobs := [(0, None)]%N.
Definition ex_evs : list wev := [WSigs 0 [1; 1]; WSigs 0 [1; 125; 15; 124; 125]; WChild 0 3]%N.

Example ex_wait_interrupted :
  wait_loop ex_traps WAll ex_jobs ex_evs
  = (WIntr 125, ex_jobs, [15; 124], [WSigs 0 [1; 1]; WSigs 0 [1; 125; 15; 124; 125]], [WChild 0 3])%N.
Proof. vm_compute. reflexivity. Qed.

Example ex_wait_quiet :
  forallb (quiet [(1, TIgnore)]%N) [WSigs 0 [1; 1]; WChild 0 3]%N = true
  /\ wait_loop [(1, TIgnore)]%N (WJob 0) ex_jobs [WSigs 0 [1; 1]; WChild 0 3]%N
     = (WDone 3, [], [], [WSigs 0 [1; 1]; WChild 0 3], [])%N.
Proof. vm_compute. auto. Qed.

Example ex_wait_script :
  wrun wait_loop [(1, 0); (2, 5); (3, 0)]%N
    [WcTrap 124 (TBody 1); WcTrap 125 (TBody 2); WcTrap 15 (TBody 3); WcTrap 1 TIgnore;
     WcSpawn 0; WcP 1 7; WcWait WAll; WcP 2 0; WcWait WAll; WcP 3 0]%N ex_evs
  = (EndOk,
     [TMark 124 (TBody 1) 0; TMark 125 (TBody 2) 0; TMark 15 (TBody 3) 0; TMark 1 TIgnore 0;
      TP 1 0 7; TTell 0 1; TTell 0 1; TTell 0 1; TTell 0 125; TTell 0 15; TTell 0 124; TTell 0 125;
      TP 1002 7 5; TP 1003 509 0; TP 1001 509 0; TP 2 509 0; TBye 0 3; TP 3 0 0])%N.
Proof. vm_compute. reflexivity. Qed.
