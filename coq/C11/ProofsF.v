(* C11 — lemmas, part F: outside the class of the known finding
   C11-retrap-pending the strict oracle agrees with the lenient one, hence
   accepts every history of the model. *)
From Yv Require Import Common.Base C11.Model C11.Spec C11.Proofs C11.ProofsB C11.ProofsC
  C11.ProofsD C11.ProofsE.
Local Arguments N.eqb : simpl never.

(* the two readings differ on one operation only in the class *)
Lemma spec_step_strict_eq c init st sp o r :
  Good c init st sp -> retrap c st o = false ->
  spec_step true c sp o r = spec_step false c sp o r.
Proof.
  intros (_ & _ & _ & HR) Hn.
  destruct o as [c' a tag ovr | c' | c' d' | ign keep | c' | c']; try reflexivity.
  cbn [spec_step]. destruct (N.eqb c c') eqn:E; [|reflexivity].
  destruct r; try reflexivity.
  destruct (u_pend sp) eqn:Ep; try reflexivity.
  cbn [andb]. destruct (is_command a) eqn:Ea; [|reflexivity].
  destruct (is_command (u_act sp)) eqn:Eu; [|reflexivity].
  exfalso. unfold Refines in HR. unfold retrap in Hn.
  destruct (s_ent st) as [e|].
  - destruct HR as (Hact & _ & Hy & _). rewrite E, Ea, (Hy Ep), <- Hact, Eu in Hn. discriminate.
  - destruct HR as (_ & _ & Hp & _). congruence.
Qed.

Definition no_setaction (ops : list op) : bool :=
  forallb (fun o => match o with OSetAction _ _ _ _ => false | _ => true end) ops.

Lemma spec_steps_strict_eq_plain c ops r : forall sp,
  no_setaction ops = true -> spec_steps true c sp ops r = spec_steps false c sp ops r.
Proof.
  unfold spec_steps. induction ops as [|o ops IH]; intros sp H; [reflexivity|].
  cbn in H. apply andb_true_iff in H. destruct H as [Ho H]. cbn [fold_left].
  assert (E : spec_step true c sp o r = spec_step false c sp o r) by (destruct o; try discriminate; reflexivity).
  rewrite E. apply IH. exact H.
Qed.

(* the operations of one API call: a single one, or several without trap commands *)
Definition OpsShape (ops : list op) : Prop :=
  (exists o, ops = [o]) \/ no_setaction ops = true.

Lemma check_sig_strict_eq c init st sp ops r prev new log :
  Good c init st sp -> OpsShape ops ->
  forallb (fun x => negb (retrap c st x)) ops = true ->
  check_sig true c sp ops r prev new log = check_sig false c sp ops r prev new log.
Proof.
  intros HG Hshape Hn. unfold check_sig.
  assert (E : spec_steps true c sp ops r = spec_steps false c sp ops r).
  { destruct Hshape as [[o ->] | Hp]; [|apply spec_steps_strict_eq_plain; exact Hp].
    cbn in Hn. rewrite andb_true_r in Hn. apply negb_true_iff in Hn.
    unfold spec_steps. cbn [fold_left]. apply (spec_step_strict_eq c init st sp o r HG Hn). }
  rewrite E. reflexivity.
Qed.

Lemma check_all_strict_eq ops r log u g sps :
  AllGood u g sps -> OpsShape ops ->
  forallb (fun p => forallb (fun x => negb (retrap (fst p) (snd p) x)) ops) g = true ->
  forall new,
  check_all true sps ops r (obs_of g) new log = check_all false sps ops r (obs_of g) new log.
Proof.
  intros HA Hshape. induction HA as [|c d st sp u g s HG HA IH]; intros Hn new; [reflexivity|].
  cbn in Hn. apply andb_true_iff in Hn. destruct Hn as [Hn1 Hn2].
  cbn [obs_of map fst snd check_all]. destruct new as [|[c0 n] new]; [reflexivity|].
  rewrite (check_sig_strict_eq c d st sp ops r (observe st) n (calls_for c log) HG Hshape Hn1).
  fold (obs_of g). rewrite (IH Hn2 new). reflexivity.
Qed.

Lemma expand_shape g o : OpsShape (expand g o).
Proof.
  destruct o as [x| | | | | | |]; cbn;
    try (right; reflexivity); [left; eexists; reflexivity|].
  destruct (first_pending g); right; reflexivity.
Qed.

Lemma resolve_expand g o u sps :
  AllGood u g sps -> NoDup (map fst g) -> resolve o (gresult g o) = expand g o.
Proof.
  intros HA Hnd. destruct o; try reflexivity. cbn.
  destruct (first_pending g) as [c|] eqn:Ef; [|reflexivity].
  destruct (first_pending_some g c Ef) as (st & e & Hin & He & Hp & Hs).
  rewrite (glookup_in g c st Hnd Hin). unfold step. rewrite N.eqb_refl. unfold ts_take.
  rewrite He, Hp. reflexivity.
Qed.

Lemma oracle_strict_gen u gops : forall g sps,
  AllGood u g sps -> NoDup (map fst g) ->
  Forall (fun o => gop_ok (map fst g) o = true) gops ->
  retrap_class_free g gops = true ->
  oracle_hist true sps (obs_of g) (model_trace g gops) = None.
Proof.
  induction gops as [|o gops IH]; intros g sps HA Hnd Hok Hfree; [reflexivity|].
  inversion Hok as [|? ? Ho Hrest]; subst.
  cbn [retrap_class_free] in Hfree. apply andb_true_iff in Hfree. destruct Hfree as [Hf1 Hf2].
  destruct (gop_step_sound u g sps o HA Hnd Ho) as (sps' & E & Ht & HA').
  cbn [model_trace oracle_hist]. fold (obs_of (gstep g o)).
  rewrite (resolve_expand g o u sps HA Hnd) in *.
  rewrite (check_all_strict_eq (expand g o) (gresult g o) (model_log g (expand g o)) u g sps HA
             (expand_shape g o) Hf1 (obs_of (gstep g o))).
  rewrite E, Ht. cbn [negb].
  apply IH; auto.
  - rewrite gstep_gmap, gmap_keys. exact Hnd.
  - rewrite gstep_gmap, gmap_keys. exact Hrest.
Qed.

Lemma oracle_strict_thm univ gops :
  univ_ok univ = true ->
  Forall (fun o => gop_ok (map fst univ) o = true) gops ->
  retrap_class_free (ginit univ) gops = true ->
  oracle_hist true (spec_inits univ) (obs_inits univ) (model_trace (ginit univ) gops) = None.
Proof.
  intros Hu Hok Hfree. unfold univ_ok in Hu. apply andb_true_iff in Hu. destruct Hu as [Hs Hf].
  assert (Hk : map fst (ginit univ) = map fst univ).
  { unfold ginit. rewrite map_map. reflexivity. }
  assert (Eo : obs_inits univ = obs_of (ginit univ)).
  { unfold obs_inits, obs_of, ginit. rewrite map_map. reflexivity. }
  rewrite Eo. apply (oracle_strict_gen univ).
  - apply allgood_init. exact Hf.
  - rewrite Hk. apply sorted_nodup. exact Hs.
  - rewrite Hk. exact Hok.
  - exact Hfree.
Qed.
