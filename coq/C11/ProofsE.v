(* C11 — lemmas, part E: the oracle accepts every history of the model
   (oracle soundness: the check cannot raise a false alarm on an
   implementation that behaves like the model). *)
From Yv Require Import Common.Base C11.Model C11.Spec C11.Proofs C11.ProofsB C11.ProofsC
  C11.ProofsD.
Local Arguments N.eqb : simpl never.

(* ---- operations that do not concern a condition ------------------------------------ *)
Definition irrelevant (c : N) (o : op) : bool :=
  match o with OInternal c' _ => negb (N.eqb c c') | _ => false end.

Lemma irrelevant_step c o st : irrelevant c o = true -> step c o st = (st, [], RNone).
Proof.
  destruct o; cbn; try discriminate. intros H. apply negb_true_iff in H. rewrite H. reflexivity.
Qed.

Lemma irrelevant_spec c o sp r : irrelevant c o = true -> spec_step false c sp o r = sp.
Proof.
  destruct o; cbn; try discriminate. intros H. apply negb_true_iff in H. rewrite H. reflexivity.
Qed.

Definition relevant_ops (c : N) (ops : list op) : list op :=
  filter (fun o => negb (irrelevant c o)) ops.

Lemma fold_relevant c ops st :
  fold_left (step_st c) ops st = fold_left (step_st c) (relevant_ops c ops) st.
Proof.
  revert st. induction ops as [|o ops IH]; intros st; cbn; [reflexivity|].
  destruct (irrelevant c o) eqn:E; cbn.
  - unfold step_st at 2. rewrite (irrelevant_step c o st E). cbn. apply IH.
  - apply IH.
Qed.

Lemma calls_relevant c ops st : calls_of c st ops = calls_of c st (relevant_ops c ops).
Proof.
  revert st. induction ops as [|o ops IH]; intros st; cbn; [reflexivity|].
  destruct (irrelevant c o) eqn:E; cbn.
  - unfold step_st, o_calls. rewrite (irrelevant_step c o st E). cbn. apply IH.
  - rewrite IH. reflexivity.
Qed.

Lemma spec_relevant c ops sp r : spec_steps false c sp ops r = spec_steps false c sp (relevant_ops c ops) r.
Proof.
  unfold spec_steps. revert sp. induction ops as [|o ops IH]; intros sp; cbn; [reflexivity|].
  destruct (irrelevant c o) eqn:E; cbn.
  - rewrite (irrelevant_spec c o sp r E). apply IH.
  - apply IH.
Qed.

Lemma forallb_relevant c (f : op -> bool) ops :
  (forall o, irrelevant c o = true -> f o = true) ->
  forallb f ops = forallb f (relevant_ops c ops).
Proof.
  intros Hf. induction ops as [|o ops IH]; cbn; [reflexivity|].
  destruct (irrelevant c o) eqn:E; cbn.
  - rewrite (Hf o E). exact IH.
  - rewrite IH. reflexivity.
Qed.

Lemma check_sig_relevant c sp ops r prev new log :
  check_sig false c sp ops r prev new log = check_sig false c sp (relevant_ops c ops) r prev new log.
Proof.
  unfold check_sig. rewrite <- (spec_relevant c ops sp r).
  rewrite <- (forallb_relevant c (fun o => cl_kill_stop c o r) ops),
          <- (forallb_relevant c (fun o => cl_locked c sp o r) ops),
          <- (forallb_relevant c (fun o => cl_refusal c sp o r) ops),
          <- (forallb_relevant c (fun o => cl_take c sp o r) ops),
          <- (forallb_relevant c (fun o => cl_parent c sp o r new) ops);
    try reflexivity; intros [] H; cbn in H; try discriminate; reflexivity.
Qed.

(* ---- one condition, one (possibly compound) operation -------------------------------- *)
Lemma first_failing_none l : forallb snd l = true -> first_failing l = None.
Proof.
  intros H. unfold first_failing.
  assert (E : filter (fun p : N * bool => negb (snd p)) l = []).
  { induction l as [|[k b] l IH]; [reflexivity|].
    cbn in H. apply andb_true_iff in H. destruct H as [Hb H]. cbn in Hb. subst b.
    cbn. apply IH. exact H. }
  rewrite E. reflexivity.
Qed.

Lemma good_step c init st sp o r :
  Good c init st sp -> op_ok o = true -> ResOk c o st r ->
  Good c init (step_st c st o) (spec_step false c sp o r).
Proof.
  intros HG Hok Hr. pose proof (refines_step c init st sp o r HG Hok Hr) as HR.
  destruct HG as (Hi & H0 & Hinv & _).
  split; [exact Hi | split; [exact H0 | split; [|exact HR]]].
  intros Hc. apply (disp_inv_step c init o st Hc Hi (Hinv Hc)).
Qed.

Lemma check_sig_nil c init st sp r :
  Good c init st sp ->
  check_sig false c sp [] r (observe st) (observe st) [] = (sp, None).
Proof.
  intros HG. unfold check_sig. cbn [spec_steps fold_left forallb]. f_equal.
  apply first_failing_none. cbn [forallb snd].
  destruct (N.eqb c EXIT) eqn:Ec.
  - apply N.eqb_eq in Ec. subst c. cbn.
    destruct HG as (_ & _ & _ & HR). rewrite (refines_shown _ _ _ HR). reflexivity.
  - apply N.eqb_neq in Ec. rewrite (is_signal_true c Ec). cbn [negb orb].
    pose proof (refines_expected c init st sp HG Ec) as He.
    destruct HG as (Hi & _ & Hinv & HR). destruct (Hinv Ec) as [_ Hb].
    rewrite (refines_shown _ _ _ HR).
    unfold observe; cbn. rewrite <- He, disp_eqb_refl, Hb.
    unfold cl_calls; cbn. rewrite (is_signal_true c Ec). cbn.
    rewrite disp_eqb_refl, Bool.eqb_reflx.
    destruct (s_ent st); reflexivity.
Qed.

Lemma check_sig_single c init st sp o r :
  Good c init st sp -> op_ok o = true -> ResOk c o st r ->
  check_sig false c sp [o] r (observe st) (observe (step_st c st o)) (o_calls (step c o st))
  = (spec_step false c sp o r, None).
Proof.
  intros HG Hok Hr. unfold check_sig. cbn [spec_steps fold_left forallb]. f_equal.
  pose proof (good_step c init st sp o r HG Hok Hr) as HG'.
  destruct (other_clauses_ok c init st sp o r HG Hok Hr) as (H3 & H4 & H6 & H8).
  assert (H2 : cl_kill_stop c o r = true).
  { destruct Hr as [Hr1 Hr2]. destruct (target o) as [c'|] eqn:Et.
    - destruct (N.eqb c' c) eqn:E.
      + apply N.eqb_eq in E. subst c'. rewrite (Hr1 eq_refl). apply kill_stop_ok.
      + apply Hr2. intros H; inversion H; subst. rewrite N.eqb_refl in E. discriminate.
    - apply Hr2. discriminate. }
  assert (H5 : cl_calls c (observe st) (observe (step_st c st o)) (o_calls (step c o st)) = true).
  { destruct HG as (Hi & _ & Hinv & _). apply (calls_ok c init st o Hi Hinv Hok). }
  apply first_failing_none. cbn [forallb snd].
  rewrite H2, H3, H4, H5, H6, H8. cbn [andb].
  destruct (N.eqb c EXIT) eqn:Ec.
  - apply N.eqb_eq in Ec. subst c. cbn.
    destruct HG' as (_ & _ & _ & HR). rewrite (refines_shown _ _ _ HR). reflexivity.
  - apply N.eqb_neq in Ec. rewrite (is_signal_true c Ec). cbn [negb orb].
    pose proof (refines_expected c init _ _ HG' Ec) as He.
    destruct HG' as (Hi & _ & Hinv & HR). destruct (Hinv Ec) as [_ Hb].
    rewrite (refines_shown _ _ _ HR).
    unfold observe at 1 2 3; cbn. rewrite <- He, disp_eqb_refl, Hb, Bool.eqb_reflx. reflexivity.
Qed.

(* a compound operation: at most one of its parts concerns the condition *)
Definition AtMostOne (c : N) (ops : list op) : Prop :=
  relevant_ops c ops = [] \/ exists o, relevant_ops c ops = [o].

Lemma check_sig_ops c init st sp ops r :
  Good c init st sp -> Forall (fun o => op_ok o = true) ops -> AtMostOne c ops ->
  (forall o, relevant_ops c ops = [o] -> ResOk c o st r) ->
  let st' := fold_left (step_st c) ops st in
  check_sig false c sp ops r (observe st) (observe st') (calls_of c st ops)
  = (spec_steps false c sp ops r, None)
  /\ Good c init st' (spec_steps false c sp ops r).
Proof.
  intros HG Hok H1 Hr st'. subst st'.
  rewrite check_sig_relevant, fold_relevant, calls_relevant, spec_relevant.
  destruct H1 as [E | [o E]]; rewrite E in *.
  - cbn. split; [apply (check_sig_nil c init st sp r HG) | exact HG].
  - assert (Ho : op_ok o = true).
    { rewrite Forall_forall in Hok. apply Hok.
      assert (Hin : In o (relevant_ops c ops)) by (rewrite E; left; reflexivity).
      unfold relevant_ops in Hin. apply filter_In in Hin. tauto. }
    specialize (Hr o eq_refl). cbn [fold_left calls_of spec_steps].
    rewrite app_nil_r. split.
    + apply (check_sig_single c init st sp o r HG Ho Hr).
    + apply (good_step c init st sp o r HG Ho Hr).
Qed.

(* ---- all conditions in play ----------------------------------------------------------- *)
Inductive AllGood : list (N * disp) -> gstate -> list (N * spec) -> Prop :=
| AG_nil : AllGood [] [] []
| AG_cons c d st sp u g s :
    Good c d st sp -> AllGood u g s -> AllGood ((c, d) :: u) ((c, st) :: g) ((c, sp) :: s).

Definition obs_of (g : gstate) : list (N * sobs) := map (fun p => (fst p, observe (snd p))) g.

Definition gmap (ops : list op) (g : gstate) : gstate :=
  map (fun p => (fst p, fold_left (step_st (fst p)) ops (snd p))) g.

Lemma gstep_gmap g o : gstep g o = gmap (expand g o) g.
Proof.
  unfold gstep. generalize (expand g o) as ops. intros ops. revert g.
  induction ops as [|x ops IH]; intros g; cbn.
  - unfold gmap. rewrite <- (map_id g) at 1. apply map_ext. intros [c st]; reflexivity.
  - rewrite IH. unfold gmap, gapply. rewrite map_map. apply map_ext. intros [c st]; reflexivity.
Qed.

Lemma check_all_sound ops r log u g sps :
  AllGood u g sps ->
  Forall (fun o => op_ok o = true) ops ->
  (forall c st, In (c, st) g -> calls_for c log = calls_of c st ops) ->
  (forall c st, In (c, st) g ->
     AtMostOne c ops /\ (forall o, relevant_ops c ops = [o] -> ResOk c o st r)) ->
  exists sps',
    check_all false sps ops r (obs_of g) (obs_of (gmap ops g)) log = (sps', None)
    /\ AllGood u (gmap ops g) sps'.
Proof.
  intros HA Hok. induction HA as [|c d st sp u g s HG HA IH]; intros Hlog Hrel.
  - exists []. split; [reflexivity | constructor].
  - destruct IH as (sps' & E & HA').
    + intros c' st' Hin. apply Hlog. right; exact Hin.
    + intros c' st' Hin. apply Hrel. right; exact Hin.
    + destruct (Hrel c st (or_introl eq_refl)) as [H1 H2].
      destruct (check_sig_ops c d st sp ops r HG Hok H1 H2) as [Ec HG'].
      exists ((c, spec_steps false c sp ops r) :: sps'). split.
      * cbn [obs_of gmap map fst snd check_all] in *. rewrite (Hlog c st (or_introl eq_refl)).
        rewrite Ec. unfold obs_of, gmap in E. rewrite E. reflexivity.
      * cbn. constructor; assumption.
Qed.

(* ---- the log of system calls, per condition --------------------------------------------- *)
Lemma calls_for_app c l1 l2 : calls_for c (l1 ++ l2) = calls_for c l1 ++ calls_for c l2.
Proof. unfold calls_for. rewrite filter_app, map_app. reflexivity. Qed.

Lemma calls_for_same c l : calls_for c (map (fun d => (c, d)) l) = l.
Proof.
  unfold calls_for. induction l as [|d l IH]; cbn; [reflexivity|].
  rewrite N.eqb_refl. cbn. rewrite IH. reflexivity.
Qed.

Lemma calls_for_other c c' l : c' <> c -> calls_for c (map (fun d => (c', d)) l) = [].
Proof.
  intros H. unfold calls_for. induction l as [|d l IH]; cbn; [reflexivity|].
  apply N.eqb_neq in H. rewrite H. exact IH.
Qed.

Lemma calls_for_absent c g ops :
  ~ In c (map fst g) -> calls_for c (model_log g ops) = [].
Proof.
  induction g as [|[c' st'] g IH]; intros Hn; [reflexivity|].
  unfold model_log in *. cbn [flat_map fst snd]. rewrite calls_for_app.
  rewrite calls_for_other.
  - apply IH. intros H. apply Hn. right; exact H.
  - intros ->. apply Hn. left; reflexivity.
Qed.

Lemma calls_for_model_log c st g ops :
  NoDup (map fst g) -> In (c, st) g -> calls_for c (model_log g ops) = calls_of c st ops.
Proof.
  induction g as [|[c' st'] g IH]; intros Hnd Hin; [destruct Hin|].
  inversion Hnd as [|? ? Hnot Hnd']; subst.
  unfold model_log in *. cbn [flat_map fst snd]. rewrite calls_for_app.
  destruct Hin as [E|Hin].
  - inversion E; subst. rewrite calls_for_same.
    fold (model_log g ops). rewrite (calls_for_absent c g ops Hnot). apply app_nil_r.
  - rewrite calls_for_other.
    + apply IH; assumption.
    + intros ->. apply Hnot. apply (in_map fst) in Hin. exact Hin.
Qed.

(* ---- lookups ------------------------------------------------------------------------------ *)
Lemma glookup_in g c st : NoDup (map fst g) -> In (c, st) g -> glookup g c = Some st.
Proof.
  induction g as [|[c' st'] g IH]; intros Hnd Hin; [destruct Hin|].
  inversion Hnd as [|? ? Hnot Hnd']; subst. cbn.
  destruct Hin as [E|Hin].
  - inversion E; subst. rewrite N.eqb_refl. reflexivity.
  - destruct (N.eqb c' c) eqn:E.
    + apply N.eqb_eq in E. subst. exfalso. apply Hnot.
      apply (in_map fst) in Hin. exact Hin.
    + apply IH; assumption.
Qed.

Lemma glookup_mem (g : gstate) c : mem c (map fst g) = true -> exists st, In (c, st) g.
Proof.
  unfold mem. intros H. apply existsb_exists in H. destruct H as (x & Hin & E).
  apply N.eqb_eq in E. subst x. apply in_map_iff in Hin. destruct Hin as ([c' st] & E & Hin).
  cbn in E. subst. exists st. exact Hin.
Qed.

Lemma first_pending_some g c :
  first_pending g = Some c ->
  exists st e, In (c, st) g /\ s_ent st = Some e /\ t_pending (e_cur e) = true
               /\ is_signal c = true.
Proof.
  induction g as [|[c' st'] g IH]; cbn; [discriminate|].
  destruct (s_ent st') as [e|] eqn:Ee.
  - destruct (is_signal c' && t_pending (e_cur e)) eqn:Ep.
    + intros H; inversion H; subst. apply andb_true_iff in Ep. destruct Ep as [Hs Hp].
      exists st', e. repeat split; auto.
    + intros H. destruct (IH H) as (st & e0 & Hin & ?). exists st, e0. split; [right; exact Hin | assumption].
  - intros H. destruct (IH H) as (st & e0 & Hin & ?). exists st, e0. split; [right; exact Hin | assumption].
Qed.

Lemma first_pending_none g c st :
  first_pending g = None -> In (c, st) g -> is_signal c = true -> pending st = false.
Proof.
  induction g as [|[c' st'] g IH]; cbn; intros H Hin Hs; [destruct Hin|].
  destruct Hin as [E|Hin].
  - inversion E; subst. unfold pending. destruct (s_ent st) as [e|]; [|reflexivity].
    rewrite Hs in H. cbn in H. destruct (t_pending (e_cur e)); [discriminate | reflexivity].
  - apply IH; auto. destruct (s_ent st') as [e|]; [|exact H].
    destruct (is_signal c' && t_pending (e_cur e)); [discriminate | exact H].
Qed.

(* ---- compound operations -------------------------------------------------------------------- *)
Definition is_internal (o : op) : Prop := exists k d, o = OInternal k d.

Lemma atmostone_internals c ops :
  Forall is_internal ops -> NoDup (ops_signals ops) -> AtMostOne c ops.
Proof.
  induction ops as [|o ops IH]; intros Hall Hnd; [left; reflexivity|].
  inversion Hall as [|? ? (k & d & ->) Hall']; subst.
  cbn [ops_signals flat_map app] in Hnd. inversion Hnd as [|? ? Hnot Hnd']; subst.
  unfold AtMostOne, relevant_ops. cbn [filter irrelevant].
  destruct (N.eqb c k) eqn:E; cbn [negb].
  - apply N.eqb_eq in E. subst k. right. exists (OInternal c d). f_equal.
    assert (forall l, Forall is_internal l -> ~ In c (ops_signals l) ->
                      filter (fun o => negb (irrelevant c o)) l = []) as Hf.
    { induction l as [|x l IHl]; intros Hl Hn; [reflexivity|].
      inversion Hl as [|? ? (k' & d' & ->) Hl']; subst. cbn.
      destruct (N.eqb c k') eqn:E'.
      - apply N.eqb_eq in E'. subst. exfalso. apply Hn. left; reflexivity.
      - cbn. apply IHl; auto. intros H. apply Hn. right; exact H. }
    apply Hf; assumption.
  - apply IH; assumption.
Qed.

Lemma atmostone_single c o : AtMostOne c [o].
Proof.
  unfold AtMostOne, relevant_ops. cbn. destruct (irrelevant c o); cbn;
  [left; reflexivity | right; eexists; reflexivity].
Qed.

Lemma resok_internal c k d st r : ResOk c (OInternal k d) st r.
Proof. split; [discriminate | reflexivity]. Qed.

Lemma relevant_in c ops o : relevant_ops c ops = [o] -> In o ops.
Proof.
  intros E. assert (Hin : In o (relevant_ops c ops)) by (rewrite E; left; reflexivity).
  apply filter_In in Hin. tauto.
Qed.

(* the result of a targeted operation, seen from every condition in play *)
Lemma resok_gop g o c st :
  NoDup (map fst g) -> In (c, st) g ->
  forallb (fun c => mem c (map fst g)) (ops_signals [o]) = true ->
  ResOk c o st (gresult g (GOp o)).
Proof.
  intros Hnd Hin Hmem. unfold gresult. destruct (target o) as [c'|] eqn:Et.
  - assert (Hc' : mem c' (map fst g) = true).
    { destruct o; cbn in Et; inversion Et; subst; cbn in Hmem;
      rewrite ?andb_true_r in Hmem; exact Hmem. }
    destruct (glookup_mem g c' Hc') as [st' Hin'].
    rewrite (glookup_in g c' st' Hnd Hin'). split.
    + intros E. rewrite Et in E. inversion E; subst.
      assert (st' = st).
      { pose proof (glookup_in g c st Hnd Hin) as E1.
        pose proof (glookup_in g c st' Hnd Hin') as E2. congruence. }
      subst. reflexivity.
    + intros _. destruct o; cbn in Et; try discriminate; try reflexivity.
      inversion Et; subst. apply (kill_stop_ok c' (OSetAction c' a tag ovr) st').
  - split; [intros E; rewrite Et in E; discriminate|].
    intros _. destruct o; cbn in Et; try discriminate; reflexivity.
Qed.

(* ---- one operation of the public API ---------------------------------------------------------- *)
Lemma allgood_keys u g sps : AllGood u g sps -> map fst g = map fst u.
Proof. induction 1; cbn; congruence. Qed.

Lemma gmap_keys ops g : map fst (gmap ops g) = map fst g.
Proof. unfold gmap. rewrite map_map. reflexivity. Qed.

Lemma take_any_none_ok u g sps :
  AllGood u g sps -> first_pending g = None ->
  forallb (fun p => negb (is_signal (fst p) && is_command (u_act (snd p))
                          && match u_pend (snd p) with Yes => true | _ => false end)) sps = true.
Proof.
  induction 1 as [|c d st sp u g s HG HA IH]; intros Hf; [reflexivity|].
  cbn [forallb fst snd]. rewrite IH.
  - rewrite andb_true_r.
    destruct (is_signal c) eqn:Hs; [|reflexivity].
    pose proof (first_pending_none ((c, st) :: g) c st Hf (or_introl eq_refl) Hs) as Hp.
    destruct HG as (_ & _ & _ & HR). unfold Refines in HR. unfold pending in Hp.
    destruct (s_ent st) as [e|].
    + destruct HR as (_ & _ & Hy & _). destruct (u_pend sp); try (rewrite andb_false_r; reflexivity).
      specialize (Hy eq_refl). congruence.
    + destruct HR as (_ & _ & -> & _). rewrite andb_false_r. reflexivity.
  - cbn in Hf. destruct (s_ent st) as [e|]; [|exact Hf].
    destruct (is_signal c && t_pending (e_cur e)); [discriminate | exact Hf].
Qed.

Lemma group_sound u g sps ops r :
  AllGood u g sps -> NoDup (map fst g) ->
  Forall (fun o => op_ok o = true) ops -> Forall is_internal ops -> NoDup (ops_signals ops) ->
  exists sps',
    check_all false sps ops r (obs_of g) (obs_of (gmap ops g)) (model_log g ops) = (sps', None)
    /\ AllGood u (gmap ops g) sps'.
Proof.
  intros HA Hnd Hok Hint Hnds. apply check_all_sound; auto.
  - intros c st Hin. apply calls_for_model_log; assumption.
  - intros c st Hin. split; [apply atmostone_internals; assumption|].
    intros o E. apply relevant_in in E. rewrite Forall_forall in Hint.
    destruct (Hint o E) as (k & d & ->). apply resok_internal.
Qed.

Ltac group_tac :=
  match goal with
  | |- Forall (fun o => op_ok o = true) _ => repeat constructor
  | |- Forall is_internal _ => repeat (constructor; [eexists; eexists; reflexivity|]); constructor
  | |- NoDup _ =>
      cbn; repeat (constructor; [cbn; unfold SIGINT, SIGQUIT, SIGTERM, SIGCHLD, SIGTSTP, SIGTTIN,
                                   SIGTTOU; intuition discriminate|]); constructor
  end.

Lemma gop_step_sound u g sps o :
  AllGood u g sps -> NoDup (map fst g) -> gop_ok (map fst g) o = true ->
  exists sps',
    check_all false sps (resolve o (gresult g o)) (gresult g o) (obs_of g) (obs_of (gstep g o))
              (model_log g (expand g o)) = (sps', None)
    /\ cl_take_any o (gresult g o) sps = true
    /\ AllGood u (gstep g o) sps'.
Proof.
  intros HA Hnd Hok. rewrite gstep_gmap.
  unfold gop_ok in Hok. apply andb_true_iff in Hok. destruct Hok as [Hok Hmem].
  destruct o as [x| | | | | | |].
  - (* a single targeted or global operation *)
    cbn [resolve expand] in *.
    assert (Hx : Forall (fun o => op_ok o = true) [x]).
    { cbn in Hok. rewrite andb_true_r in Hok. repeat constructor. exact Hok. }
    destruct (check_all_sound [x] (gresult g (GOp x)) (model_log g [x]) u g sps HA Hx)
      as (sps' & E & HA').
    + intros c st Hin. apply calls_for_model_log; assumption.
    + intros c st Hin. split; [apply atmostone_single|].
      intros o E. apply relevant_in in E. destruct E as [<-|[]].
      apply resok_gop; assumption.
    + exists sps'. repeat split; auto.
  - destruct (group_sound u g sps (expand g GEnableChld) (gresult g GEnableChld) HA Hnd)
      as (sps' & E & HA'); try group_tac. exists sps'. repeat split; auto.
  - destruct (group_sound u g sps (expand g GEnableTerm) (gresult g GEnableTerm) HA Hnd)
      as (sps' & E & HA'); try group_tac. exists sps'. repeat split; auto.
  - destruct (group_sound u g sps (expand g GEnableStop) (gresult g GEnableStop) HA Hnd)
      as (sps' & E & HA'); try group_tac. exists sps'. repeat split; auto.
  - destruct (group_sound u g sps (expand g GDisableTerm) (gresult g GDisableTerm) HA Hnd)
      as (sps' & E & HA'); try group_tac. exists sps'. repeat split; auto.
  - destruct (group_sound u g sps (expand g GDisableStop) (gresult g GDisableStop) HA Hnd)
      as (sps' & E & HA'); try group_tac. exists sps'. repeat split; auto.
  - destruct (group_sound u g sps (expand g GDisableAll) (gresult g GDisableAll) HA Hnd)
      as (sps' & E & HA'); try group_tac. exists sps'. repeat split; auto.
  - (* take_caught_signal *)
    cbn [resolve expand gresult]. destruct (first_pending g) as [c|] eqn:Ef.
    + destruct (first_pending_some g c Ef) as (st & e & Hin & He & Hp & Hs).
      rewrite (glookup_in g c st Hnd Hin).
      assert (Er : o_res (step c (OTakeSig c) st)
                   = RTaken c (mkT (t_action (e_cur e)) (t_origin (e_cur e)) false)).
      { unfold step. rewrite N.eqb_refl. unfold ts_take. rewrite He, Hp. reflexivity. }
      rewrite Er. cbn [resolve].
      assert (Hx : Forall (fun o => op_ok o = true) [OTakeSig c]) by (repeat constructor; exact Hs).
      destruct (check_all_sound [OTakeSig c]
                  (RTaken c (mkT (t_action (e_cur e)) (t_origin (e_cur e)) false))
                  (model_log g [OTakeSig c]) u g sps HA Hx) as (sps' & E & HA').
      * intros c' st' Hin'. apply calls_for_model_log; assumption.
      * intros c' st' Hin'. split; [apply atmostone_single|].
        intros o E. apply relevant_in in E. destruct E as [<-|[]].
        rewrite <- Er.
        assert (Eg : gresult g (GOp (OTakeSig c)) = o_res (step c (OTakeSig c) st)).
        { cbn. rewrite (glookup_in g c st Hnd Hin). reflexivity. }
        rewrite <- Eg. apply resok_gop; auto.
        cbn. unfold mem. rewrite andb_true_r. apply existsb_exists. exists c. split.
        -- apply (in_map fst) in Hin. exact Hin.
        -- apply N.eqb_refl.
      * exists sps'. repeat split; auto.
    + destruct (check_all_sound [] RNone (model_log g []) u g sps HA (Forall_nil _))
        as (sps' & E & HA').
      * intros c' st' Hin'. apply calls_for_model_log; assumption.
      * intros c' st' Hin'. split; [left; reflexivity | intros o E; discriminate E].
      * exists sps'. split; [exact E|]. split; [|exact HA'].
        cbn. apply (take_any_none_ok u g sps HA Ef).
Qed.

(* ---- whole histories ----------------------------------------------------------------------------- *)
Lemma sorted_head a l : sortedb (a :: l) = true -> Forall (N.lt a) l.
Proof.
  revert a. induction l as [|b l IH]; intros a H; [constructor|].
  cbn in H. apply andb_true_iff in H. destruct H as [Hab H].
  apply N.ltb_lt in Hab. constructor; [exact Hab|].
  specialize (IH b H). eapply Forall_impl; [|exact IH]. intros x Hx. lia.
Qed.

Lemma sorted_nodup l : sortedb l = true -> NoDup l.
Proof.
  induction l as [|a l IH]; intros H; [constructor|].
  constructor.
  - pose proof (sorted_head a l H) as Hf. rewrite Forall_forall in Hf.
    intros Hin. specialize (Hf a Hin). lia.
  - apply IH. destruct l as [|b l]; [reflexivity|].
    cbn in H. apply andb_true_iff in H. tauto.
Qed.

Lemma allgood_init univ :
  forallb (fun p => negb (disp_eqb (snd p) Catch)
                    && (is_signal (fst p) || disp_eqb (snd p) Default)) univ = true ->
  AllGood univ (ginit univ) (spec_inits univ).
Proof.
  induction univ as [|[c d] univ IH]; intros H; [constructor|].
  cbn in H. apply andb_true_iff in H. destruct H as [H1 H2].
  apply andb_true_iff in H1. destruct H1 as [Hc Hd].
  cbn. constructor; [|apply IH; exact H2].
  apply good_init.
  - intros ->. discriminate.
  - intros ->. cbn in Hd. apply disp_eqb_eq in Hd. exact Hd.
Qed.

Lemma oracle_sound_gen u gops : forall g sps,
  AllGood u g sps -> NoDup (map fst g) ->
  Forall (fun o => gop_ok (map fst g) o = true) gops ->
  oracle_hist false sps (obs_of g) (model_trace g gops) = None.
Proof.
  induction gops as [|o gops IH]; intros g sps HA Hnd Hok; [reflexivity|].
  inversion Hok as [|? ? Ho Hrest]; subst.
  destruct (gop_step_sound u g sps o HA Hnd Ho) as (sps' & E & Ht & HA').
  cbn [model_trace oracle_hist]. fold (obs_of (gstep g o)). rewrite E, Ht. cbn [negb].
  apply IH; auto.
  - rewrite gstep_gmap, gmap_keys. exact Hnd.
  - rewrite gstep_gmap, gmap_keys. exact Hrest.
Qed.

Lemma oracle_sound_thm univ gops :
  univ_ok univ = true ->
  Forall (fun o => gop_ok (map fst univ) o = true) gops ->
  oracle_hist false (spec_inits univ) (obs_inits univ) (model_trace (ginit univ) gops) = None.
Proof.
  intros Hu Hok. unfold univ_ok in Hu. apply andb_true_iff in Hu. destruct Hu as [Hs Hf].
  assert (Hk : map fst (ginit univ) = map fst univ).
  { unfold ginit. rewrite map_map. reflexivity. }
  assert (Eo : obs_inits univ = obs_of (ginit univ)).
  { unfold obs_inits, obs_of, ginit. rewrite map_map. reflexivity. }
  rewrite Eo. apply (oracle_sound_gen univ).
  - apply allgood_init. exact Hf.
  - rewrite Hk. apply sorted_nodup. exact Hs.
  - rewrite Hk. exact Hok.
Qed.

(* ---- every global history is a per-condition history ------------------------------------------------ *)
Fixpoint flatten (g : gstate) (gops : list gop) : list op :=
  match gops with
  | [] => []
  | o :: rest => expand g o ++ flatten (gstep g o) rest
  end.

Lemma gmap_app ops1 ops2 g : gmap (ops1 ++ ops2) g = gmap ops2 (gmap ops1 g).
Proof.
  unfold gmap. rewrite map_map. apply map_ext. intros [c st]. cbn.
  rewrite fold_left_app. reflexivity.
Qed.

Lemma grun_flatten gops : forall g, fold_left gstep gops g = gmap (flatten g gops) g.
Proof.
  induction gops as [|o gops IH]; intros g; cbn.
  - unfold gmap. rewrite <- (map_id g) at 1. apply map_ext. intros [c st]; reflexivity.
  - rewrite IH, gmap_app, gstep_gmap. reflexivity.
Qed.

Lemma expand_ok g o :
  gop_ok (map fst g) o = true -> Forall (fun x => op_ok x = true) (expand g o).
Proof.
  unfold gop_ok. intros H. apply andb_true_iff in H. destruct H as [H _].
  destruct o as [x| | | | | | |].
  1-7: (apply Forall_forall; apply forallb_forall; exact H).
  cbn. destruct (first_pending g) as [c|] eqn:E; [|constructor].
  destruct (first_pending_some g c E) as (st & e & _ & _ & _ & Hs).
  repeat constructor. exact Hs.
Qed.

Lemma flatten_ok gops : forall g,
  Forall (fun o => gop_ok (map fst g) o = true) gops ->
  Forall (fun x => op_ok x = true) (flatten g gops).
Proof.
  induction gops as [|o gops IH]; intros g H; cbn; [constructor|].
  inversion H as [|? ? Ho Hrest]; subst. apply Forall_app. split.
  - apply expand_ok. exact Ho.
  - apply IH. rewrite gstep_gmap, gmap_keys. exact Hrest.
Qed.

Lemma global_projection_thm univ gops :
  exists ops,
    (Forall (fun o => gop_ok (map fst univ) o = true) gops ->
     Forall (fun x => op_ok x = true) ops) /\
    grun univ gops = map (fun p => (fst p, run (fst p) (snd p) ops)) univ.
Proof.
  exists (flatten (ginit univ) gops). split.
  - intros H. apply flatten_ok. unfold ginit. rewrite map_map. exact H.
  - unfold grun. rewrite grun_flatten. unfold gmap, ginit, run. rewrite map_map. reflexivity.
Qed.

Lemma disp_inv_global_thm univ gops c st :
  In (c, st) (grun univ gops) -> c <> EXIT ->
  (forall d, In (c, d) univ -> d <> Catch) ->
  exists d, In (c, d) univ /\ DispInv d st.
Proof.
  intros Hin Hc Hd. destruct (global_projection_thm univ gops) as (ops & _ & E).
  rewrite E in Hin. apply in_map_iff in Hin. destruct Hin as ([c' d] & E' & Hin).
  cbn in E'. inversion E'; subst. exists d. split; [exact Hin|].
  apply disp_inv_run; [exact Hc | apply (Hd d Hin)].
Qed.
