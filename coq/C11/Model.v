(* C11 — executable model of yash-env/src/trap/state.rs (GrandState) and
   yash-env/src/trap.rs (TrapSet) over an explicit per-signal system
   disposition, plus the signal mask kept by
   yash-env/src/system/concurrency/signal.rs (`set_disposition` blocks a signal
   iff it is caught).

   A condition is its raw number: 0 = EXIT, n > 0 = signal n (as
   `From<Condition> for RawNumber`).  Every operation of TrapSet acts on the
   entries of its BTreeMap independently of each other (the only cross-entry
   effects are `clear_parent_states` and the loop of `enter_subshell`, both
   plain maps), so the model is *per condition*: [step c o st] is the effect
   of the TrapSet operation [o] on the entry and on the system state of
   condition [c].  The global state (Run.v) is the list of these over the
   conditions in play; `take_caught_signal` (which searches the map) is
   resolved there into a per-condition [OTakeSig].

   The system calls are assumed to succeed (the simulated OS never fails
   `sigaction`/`sigprocmask`); the Rust panic sites (`set_internal_disposition`
   and `ignore` on the EXIT condition) are excluded by [op_ok]. *)
From Yv Require Import Common.Base.

(* ---- yash_env::system::Disposition, with its derived order ------------- *)
Inductive disp := Default | Ignore | Catch.

Definition disp_eqb (a b : disp) : bool :=
  match a, b with
  | Default, Default | Ignore, Ignore | Catch, Catch => true
  | _, _ => false
  end.

(* Ord::max of the derived order Default < Ignore < Catch *)
Definition dmax (a b : disp) : disp :=
  match a, b with
  | Catch, _ | _, Catch => Catch
  | Ignore, _ | _, Ignore => Ignore
  | Default, Default => Default
  end.

(* ---- trap/state.rs: Action, Origin, TrapState, GrandState -------------- *)
Inductive action := ADefault | AIgnore | ACommand (id : N).

Definition action_eqb (a b : action) : bool :=
  match a, b with
  | ADefault, ADefault | AIgnore, AIgnore => true
  | ACommand x, ACommand y => N.eqb x y
  | _, _ => false
  end.

Definition is_command (a : action) : bool :=
  match a with ACommand _ => true | _ => false end.

(* impl From<&Action> for Disposition *)
Definition disp_of (a : action) : disp :=
  match a with ADefault => Default | AIgnore => Ignore | ACommand _ => Catch end.

(* Origin::User carries a Location; the model keeps a tag that identifies it *)
Inductive origin := Inherited | Subshell | User (tag : N).

Definition origin_eqb (a b : origin) : bool :=
  match a, b with
  | Inherited, Inherited | Subshell, Subshell => true
  | User x, User y => N.eqb x y
  | _, _ => false
  end.

Record tstate := mkT { t_action : action; t_origin : origin; t_pending : bool }.

Definition tstate_eqb (a b : tstate) : bool :=
  action_eqb (t_action a) (t_action b) && origin_eqb (t_origin a) (t_origin b)
  && Bool.eqb (t_pending a) (t_pending b).

Record entry := mkE { e_cur : tstate; e_parent : option tstate; e_internal : disp }.

(* TrapState::from_initial_disposition *)
Definition from_initial (d : disp) : tstate :=
  mkT (match d with Ignore => AIgnore | Default | Catch => ADefault end) Inherited false.

(* ---- per-condition state: map entry + what the system holds ------------ *)
Record sigst := mkS {
  s_ent : option entry;      (* TrapSet.traps.get(cond) *)
  s_disp : disp;             (* disposition installed in the system *)
  s_blocked : bool           (* signal is in the process's blocking mask *)
}.

Definition init_st (d : disp) : sigst := mkS None d false.

Definition with_ent (st : sigst) (e : entry) : sigst :=
  mkS (Some e) (s_disp st) (s_blocked st).

(* SignalSystem::set_disposition of Rc<Concurrent<S>>: Catch => block the
   signal, then sigaction; otherwise sigaction, then unblock. *)
Definition sys_set (st : sigst) (d : disp) : sigst :=
  mkS (s_ent st) d (disp_eqb d Catch).

(* ---- conditions -------------------------------------------------------- *)
Definition EXIT : N := 0.
Definition SIGINT : N := 2.
Definition SIGQUIT : N := 3.
Definition SIGKILL : N := 9.
Definition SIGTERM : N := 15.
Definition SIGCHLD : N := 102.
Definition SIGSTOP : N := 116.
Definition SIGTSTP : N := 120.
Definition SIGTTIN : N := 121.
Definition SIGTTOU : N := 122.

Definition is_signal (c : N) : bool := negb (N.eqb c EXIT).
Definition is_int_quit (c : N) : bool := N.eqb c SIGINT || N.eqb c SIGQUIT.
Definition is_stopper (c : N) : bool :=
  N.eqb c SIGTSTP || N.eqb c SIGTTIN || N.eqb c SIGTTOU.

(* ---- results reported to the caller ------------------------------------ *)
Inductive res :=
| ROk
| RErrIgnored            (* SetActionError::InitiallyIgnored *)
| RErrKill               (* SetActionError::SIGKILL *)
| RErrStop               (* SetActionError::SIGSTOP *)
| RNone                  (* take_*: no signal caught *)
| RTaken (c : N) (t : tstate)   (* take_*: the state handed to the caller *)
| RState (t : tstate).   (* peek_state *)

Definition res_eqb (a b : res) : bool :=
  match a, b with
  | ROk, ROk | RErrIgnored, RErrIgnored | RErrKill, RErrKill | RErrStop, RErrStop
  | RNone, RNone => true
  | RTaken c t, RTaken c' t' => N.eqb c c' && tstate_eqb t t'
  | RState t, RState t' => tstate_eqb t t'
  | _, _ => false
  end.

(* outcome of one operation on one condition: new state, the dispositions
   passed to `set_disposition` for this signal (in order), result *)
Definition outcome := (sigst * list disp * res)%type.

(* ---- GrandState::set_action -------------------------------------------- *)
Definition gs_set_action (c : N) (a : action) (tag : N) (ovr : bool) (st : sigst) : outcome :=
  let d := disp_of a in
  let new_state := mkT a (User tag) false in
  match s_ent st with
  | None =>
      if is_signal c then
        if negb ovr then
          (* set_disposition(signal, Ignore) to learn the initial disposition *)
          let initial := s_disp st in
          let st1 := sys_set st Ignore in
          if disp_eqb initial Ignore then
            (with_ent st1 (mkE (from_initial initial) None Default), [Ignore], RErrIgnored)
          else if negb (disp_eqb d Ignore) then
            (with_ent (sys_set st1 d) (mkE new_state None Default), [Ignore; d], ROk)
          else
            (with_ent st1 (mkE new_state None Default), [Ignore], ROk)
        else
          (with_ent (sys_set st d) (mkE new_state None Default), [d], ROk)
      else
        (with_ent st (mkE new_state None Default), [], ROk)
  | Some e =>
      if negb ovr && action_eqb (t_action (e_cur e)) AIgnore
         && origin_eqb (t_origin (e_cur e)) Inherited
      then (st, [], RErrIgnored)
      else
        let old_d := dmax (e_internal e) (disp_of (t_action (e_cur e))) in
        let new_d := dmax (e_internal e) d in
        let e' := mkE new_state (e_parent e) (e_internal e) in
        if is_signal c && negb (disp_eqb old_d new_d)
        then (with_ent (sys_set st new_d) e', [new_d], ROk)
        else (with_ent st e', [], ROk)
  end.

(* GrandState::clear_parent_state *)
Definition clear_parent (st : sigst) : sigst :=
  match s_ent st with
  | None => st
  | Some e => with_ent st (mkE (e_cur e) None (e_internal e))
  end.

(* GrandState::insert_from_system_if_vacant + TrapSet::peek_state *)
Definition ts_peek (c : N) (st : sigst) : outcome :=
  match s_ent st with
  | None =>
      let d := if is_signal c then s_disp st else Default in
      (with_ent st (mkE (from_initial d) None Default), [], RState (from_initial d))
  | Some e =>
      (st, [], RState (match e_parent e with Some p => p | None => e_cur e end))
  end.

(* GrandState::set_internal_disposition (the condition is a signal) *)
Definition gs_set_internal (d : disp) (st : sigst) : outcome :=
  match s_ent st with
  | None =>
      if disp_eqb d Default then (st, [], ROk)
      else
        let initial := s_disp st in
        (with_ent (sys_set st d) (mkE (from_initial initial) None d), [d], ROk)
  | Some e =>
      let setting := disp_of (t_action (e_cur e)) in
      let old_d := dmax (e_internal e) setting in
      let new_d := dmax d setting in
      let e' := mkE (e_cur e) (e_parent e) d in
      if negb (disp_eqb old_d new_d)
      then (with_ent (sys_set st new_d) e', [new_d], ROk)
      else (with_ent st e', [], ROk)
  end.

(* EnterSubshellOption *)
Inductive esopt := KeepInternal | ClearInternal | EsIgnore.

(* GrandState::enter_subshell *)
Definition gs_enter_subshell (c : N) (opt : esopt) (e : entry) (st : sigst) : outcome :=
  let old_setting := disp_of (t_action (e_cur e)) in
  let old_d := dmax (e_internal e) old_setting in
  let cmd := is_command (t_action (e_cur e)) in
  (* std::mem::replace(&mut self.current_state, ...) into parent_state *)
  let cur1 := if cmd then mkT ADefault Subshell false else e_cur e in
  let parent1 := if cmd then Some (e_cur e) else e_parent e in
  let cur2 :=
    match opt with
    | EsIgnore =>
        (* ignored by the shell, not since its startup: the subshell may still
           set a trap for it (origin Subshell), unless it was ignored already *)
        mkT AIgnore
            (if action_eqb (t_action cur1) AIgnore then t_origin cur1 else Subshell)
            (t_pending cur1)
    | _ => cur1
    end in
  let new_setting := disp_of (t_action cur2) in
  let new_d :=
    match opt with
    | KeepInternal => dmax (e_internal e) new_setting
    | ClearInternal => new_setting
    | EsIgnore => Ignore
    end in
  let internal' :=
    match opt with KeepInternal => e_internal e | _ => Default end in
  let e' := mkE cur2 parent1 internal' in
  if negb (disp_eqb old_d new_d) && is_signal c
  then (with_ent (sys_set st new_d) e', [new_d], ROk)
  else (with_ent st e', [], ROk).

(* GrandState::ignore (vacant entry, the condition is a signal) *)
Definition gs_ignore (st : sigst) : outcome :=
  let initial := s_disp st in
  let org := match initial with Ignore => Inherited | Default | Catch => Subshell end in
  (with_ent (sys_set st Ignore) (mkE (mkT AIgnore org false) None Default), [Ignore], ROk).

(* the option chosen by TrapSet::enter_subshell for an existing entry *)
Definition es_option (c : N) (ign keep : bool) (e : entry) : esopt :=
  if negb (is_signal c) then ClearInternal
  else if N.eqb c SIGCHLD then KeepInternal
  else if ign && is_int_quit c then EsIgnore
  else if keep && is_stopper c && negb (disp_eqb (e_internal e) Default) then EsIgnore
  else ClearInternal.

(* TrapSet::enter_subshell seen from condition c *)
Definition ts_enter_subshell (c : N) (ign keep : bool) (st : sigst) : outcome :=
  let st := clear_parent st in
  match s_ent st with
  | Some e => gs_enter_subshell c (es_option c ign keep e) e st
  | None => if ign && is_int_quit c then gs_ignore st else (st, [], ROk)
  end.

(* GrandState::mark_as_caught through TrapSet::catch_signal *)
Definition ts_catch (st : sigst) : sigst :=
  match s_ent st with
  | None => st
  | Some e =>
      with_ent st (mkE (mkT (t_action (e_cur e)) (t_origin (e_cur e)) true)
                       (e_parent e) (e_internal e))
  end.

(* GrandState::handle_if_caught through TrapSet::take_signal_if_caught *)
Definition ts_take (c : N) (st : sigst) : outcome :=
  match s_ent st with
  | None => (st, [], RNone)
  | Some e =>
      if t_pending (e_cur e) then
        let t := mkT (t_action (e_cur e)) (t_origin (e_cur e)) false in
        (with_ent st (mkE t (e_parent e) (e_internal e)), [], RTaken c t)
      else (st, [], RNone)
  end.

(* A signal sent to the shell process and then noticed by Env::poll_signals
   (Concurrent::peek -> select -> caught_signals -> TrapSet::catch_signal).
   Only a caught signal reaches the trap set; an ignored one vanishes; one
   with the default disposition acts on the process (outside the model:
   [deliver_ok]). *)
Definition ts_deliver (st : sigst) : sigst :=
  match s_disp st with
  | Catch => ts_catch st
  | _ => st
  end.

(* ---- operations --------------------------------------------------------- *)
Inductive op :=
| OSetAction (c : N) (a : action) (tag : N) (ovr : bool)   (* TrapSet::set_action *)
| OPeek (c : N)                                           (* TrapSet::peek_state *)
| OInternal (c : N) (d : disp)                            (* TrapSet::set_internal_disposition *)
| OEnterSubshell (ign keep : bool)                        (* TrapSet::enter_subshell *)
| ODeliver (c : N)                                        (* raise + Env::poll_signals *)
| OTakeSig (c : N).                                       (* TrapSet::take_signal_if_caught *)

(* effect of operation [o] on condition [c] *)
Definition step (c : N) (o : op) (st : sigst) : outcome :=
  match o with
  | OSetAction c' a tag ovr =>
      if N.eqb c' SIGKILL then (st, [], RErrKill)
      else if N.eqb c' SIGSTOP then (st, [], RErrStop)
      else
        let st := clear_parent st in
        if N.eqb c c' then gs_set_action c a tag ovr st else (st, [], RNone)
  | OPeek c' => if N.eqb c c' then ts_peek c st else (st, [], RNone)
  | OInternal c' d => if N.eqb c c' then gs_set_internal d st else (st, [], RNone)
  | OEnterSubshell ign keep => ts_enter_subshell c ign keep st
  | ODeliver c' => if N.eqb c c' then (ts_deliver st, [], ROk) else (st, [], RNone)
  | OTakeSig c' => if N.eqb c c' then ts_take c st else (st, [], RNone)
  end.

Definition o_st (x : outcome) : sigst := fst (fst x).
Definition o_calls (x : outcome) : list disp := snd (fst x).
Definition o_res (x : outcome) : res := snd x.

Definition step_st (c : N) (st : sigst) (o : op) : sigst := o_st (step c o st).

(* state of condition c after a history, from the initial disposition d *)
Definition run (c : N) (d : disp) (ops : list op) : sigst :=
  fold_left (step_st c) ops (init_st d).

(* The internal dispositions the TrapSet API can request
   (the enable_... and disable_internal_disposition... methods). *)
Definition internal_ok (c : N) (d : disp) : bool :=
  (N.eqb c SIGCHLD && (disp_eqb d Catch || disp_eqb d Default))
  || (N.eqb c SIGINT && (disp_eqb d Catch || disp_eqb d Default))
  || ((N.eqb c SIGTERM || N.eqb c SIGQUIT) && (disp_eqb d Ignore || disp_eqb d Default))
  || (is_stopper c && (disp_eqb d Ignore || disp_eqb d Default)).

(* operations that the public API of TrapSet can perform *)
Definition op_ok (o : op) : bool :=
  match o with
  | OInternal c d => internal_ok c d
  | ODeliver c => is_signal c
  | OTakeSig c => is_signal c
  | _ => true
  end.

(* ---- the whole trap set: the conditions in play -------------------------- *)
Definition gstate := list (N * sigst).

Definition ginit (univ : list (N * disp)) : gstate :=
  map (fun p => (fst p, init_st (snd p))) univ.

Definition gapply (o : op) (g : gstate) : gstate :=
  map (fun p => (fst p, step_st (fst p) (snd p) o)) g.

(* operations of the public API, as the harness performs them *)
Inductive gop :=
| GOp (o : op)              (* OSetAction, OPeek, OEnterSubshell, ODeliver, OTakeSig *)
| GEnableChld               (* enable_internal_disposition_for_sigchld *)
| GEnableTerm               (* enable_internal_dispositions_for_terminators *)
| GEnableStop               (* enable_internal_dispositions_for_stoppers *)
| GDisableTerm
| GDisableStop
| GDisableAll               (* disable_internal_dispositions *)
| GTakeAny.                 (* take_caught_signal *)

(* TrapSet::take_caught_signal: the first signal, in key order, whose pending
   flag is set ([g] is kept sorted by condition number by the harness) *)
Fixpoint first_pending (g : gstate) : option N :=
  match g with
  | [] => None
  | (c, st) :: g =>
      match s_ent st with
      | Some e => if is_signal c && t_pending (e_cur e) then Some c else first_pending g
      | None => first_pending g
      end
  end.

Definition disable_term : list op :=
  [OInternal SIGINT Default; OInternal SIGTERM Default; OInternal SIGQUIT Default].
Definition disable_stop : list op :=
  [OInternal SIGTSTP Default; OInternal SIGTTIN Default; OInternal SIGTTOU Default].

Definition expand (g : gstate) (o : gop) : list op :=
  match o with
  | GOp o => [o]
  | GEnableChld => [OInternal SIGCHLD Catch]
  | GEnableTerm => [OInternal SIGINT Catch; OInternal SIGTERM Ignore; OInternal SIGQUIT Ignore]
  | GEnableStop => [OInternal SIGTSTP Ignore; OInternal SIGTTIN Ignore; OInternal SIGTTOU Ignore]
  | GDisableTerm => disable_term
  | GDisableStop => disable_stop
  | GDisableAll => OInternal SIGCHLD Default :: disable_term ++ disable_stop
  | GTakeAny => match first_pending g with Some c => [OTakeSig c] | None => [] end
  end.

Definition gstep (g : gstate) (o : gop) : gstate :=
  fold_left (fun g o => gapply o g) (expand g o) g.

Definition grun (univ : list (N * disp)) (ops : list gop) : gstate :=
  fold_left gstep ops (ginit univ).

(* which condition an operation reports a result for *)
Definition target (o : op) : option N :=
  match o with
  | OSetAction c _ _ _ | OPeek c | OTakeSig c => Some c
  | _ => None
  end.

Fixpoint glookup (g : gstate) (c : N) : option sigst :=
  match g with
  | [] => None
  | (c', st) :: g => if N.eqb c' c then Some st else glookup g c
  end.

(* result the caller of the global operation sees *)
Definition gresult (g : gstate) (o : gop) : res :=
  match o with
  | GOp o =>
      match target o with
      | Some c =>
          match glookup g c with
          | Some st => o_res (step c o st)
          | None => ROk            (* outside the conditions in play: see Run.in_domain *)
          end
      | None => ROk
      end
  | GTakeAny =>
      match first_pending g with
      | Some c => match glookup g c with
                  | Some st => o_res (step c (OTakeSig c) st)
                  | None => RNone
                  end
      | None => RNone
      end
  | _ => ROk
  end.

(* system calls made for condition c by the global operation, in order *)
Fixpoint calls_of (c : N) (st : sigst) (ops : list op) : list disp :=
  match ops with
  | [] => []
  | o :: ops => o_calls (step c o st) ++ calls_of c (step_st c st o) ops
  end.
