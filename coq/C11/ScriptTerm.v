(* C11, second half — termination of the loop that runs the traps of caught
   signals (run_traps_for_caught_signals), under a syntactic condition on the
   script: every trap command (in the script or inside an action) installs, for
   a signal sg, an action that only raises signals with a number greater than
   sg.  Then the model never runs out of fuel once the fuel exceeds the number
   of `raise` commands in the table of actions by two.  Without the condition
   an action can re-raise its own signal (directly or through others) and the
   real shell loops forever; the model then answers OutOfFuel. *)
From Coq Require Import Sorting.Sorted.
From Yv Require Import Common.Base C11.ScriptModel C11.ScriptSpec C11.ScriptProofs.

Definition raises_above (sg : N) (body : list bcmd) : bool :=
  forallb (fun b => match b with BRaise s' _ => N.ltb sg s' | _ => true end) body.

Definition b_rank_ok (tbl : table) (b : bcmd) : bool :=
  match b with
  | BTrap sg (TBody id) => raises_above sg (body_of tbl id)
  | _ => true
  end.

Fixpoint cmd_rank_ok (tbl : table) (c : cmd) : bool :=
  match c with
  | CB b => b_rank_ok tbl b
  | CBrace l => forallb (cmd_rank_ok tbl) l
  | CSub l => forallb (cmd_rank_ok tbl) l
  | CIf c t e =>
      forallb (cmd_rank_ok tbl) c && forallb (cmd_rank_ok tbl) t && forallb (cmd_rank_ok tbl) e
  end.

(* the syntactic condition *)
Definition rank_ok (tbl : table) (main : list cmd) : bool :=
  forallb (fun p => forallb (b_rank_ok tbl) (snd p)) tbl && forallb (cmd_rank_ok tbl) main.

(* the signals raised by the actions of the table, with multiplicity *)
Definition b_raises (b : bcmd) : list N := match b with BRaise s _ => [s] | _ => [] end.
Definition tbl_raises (tbl : table) : list N :=
  flat_map (fun p => flat_map b_raises (snd p)) tbl.

(* enough fuel for every boundary of a script *)
Definition enough_fuel (tbl : table) : nat := S (S (length (tbl_raises tbl))).

(* ---- invariants ------------------------------------------------------------------- *)
Definition TrapsRank (tbl : table) (s : sh) : Prop :=
  forall sg id, trap_of (traps s) sg = TBody id -> raises_above sg (body_of tbl id) = true.

Record PInv (tbl : table) (L : list N) (s : sh) : Prop := {
  p_sorted : StronglySorted N.lt (pend s);
  p_in : forall x, In x (pend s) -> In x L;
  p_rank : TrapsRank tbl s
}.

Definition mu (L : list N) (h : N) : nat := length (filter (fun u => N.leb h u) L).

Lemma mu_lt L h h' : In h L -> (h < h')%N -> (mu L h' < mu L h)%nat.
Proof.
  unfold mu. induction L as [|u L IH]; intros Hin Hlt; [destruct Hin|].
  cbn. destruct Hin as [->|Hin].
  - assert (E1 : N.leb h h = true) by (apply N.leb_le; lia).
    assert (E2 : N.leb h' h = false) by (apply N.leb_gt; lia).
    rewrite E1, E2. cbn.
    assert (H : (length (filter (fun u => N.leb h' u) L) <= length (filter (fun u => N.leb h u) L))%nat).
    { clear - Hlt. induction L as [|u L IH]; cbn; [lia|].
      destruct (N.leb h' u) eqn:E.
      - apply N.leb_le in E. assert (E' : N.leb h u = true) by (apply N.leb_le; lia).
        rewrite E'. cbn. lia.
      - destruct (N.leb h u); cbn; lia. }
    lia.
  - specialize (IH Hin Hlt).
    destruct (N.leb h' u) eqn:E.
    + apply N.leb_le in E. assert (E' : N.leb h u = true) by (apply N.leb_le; lia).
      rewrite E'. cbn. lia.
    + destruct (N.leb h u); cbn; lia.
Qed.

Lemma mu_le_length L h : (mu L h <= length L)%nat.
Proof. unfold mu. induction L as [|u L IH]; cbn; [lia|]. destruct (N.leb h u); cbn; lia. Qed.

Lemma body_of_forall (P : bcmd -> bool) tbl id :
  forallb (fun p => forallb P (snd p)) tbl = true -> forallb P (body_of tbl id) = true.
Proof.
  induction tbl as [|[i b] tbl IH]; cbn; [reflexivity|].
  intros H. apply andb_true_iff in H. destruct H as [H1 H2].
  destruct (N.eqb i id); [exact H1 | apply IH; exact H2].
Qed.

Lemma body_raises_in tbl id x :
  In x (flat_map b_raises (body_of tbl id)) -> In x (tbl_raises tbl).
Proof.
  unfold tbl_raises. induction tbl as [|[i b] tbl IH]; cbn; [intros []|].
  intros H. apply in_or_app. destruct (N.eqb i id); [left; exact H | right; apply IH; exact H].
Qed.

(* one command of an action whose raises are all above h *)
Lemma do_b_pinv tbl L h b s :
  PInv tbl L s -> b_rank_ok tbl b = true ->
  (forall x, In x (b_raises b) -> (h < x)%N /\ In x L) ->
  (forall x, In x (pend s) -> (h < x)%N) ->
  match do_b b s with
  | SOk s' => PInv tbl L s' /\ (forall x, In x (pend s') -> (h < x)%N)
  | SDead _ _ => True
  | SFuel => False
  end.
Proof.
  intros [Hs Hin Hr] Hb Hraise Hgt. destruct b as [k st | sg st | sg a]; cbn.
  - split; [constructor; cbn; auto | exact Hgt].
  - destruct (trap_of (traps s) sg) eqn:Et; try exact I.
    + split; [constructor; cbn; auto | exact Hgt].
    + destruct (Hraise sg (or_introl eq_refl)) as [H1 H2].
      split; [constructor; cbn; auto|].
      * apply sorted_insert. exact Hs.
      * intros x Hx. apply in_insert_sig in Hx. destruct Hx as [->|Hx]; auto.
      * intros x Hx. apply in_insert_sig in Hx. destruct Hx as [->|Hx]; auto.
  - split; [constructor; cbn|].
    + apply sorted_remove. exact Hs.
    + intros x Hx. apply in_remove_sig in Hx. apply Hin. tauto.
    + intros sg' id. cbn. rewrite trap_of_set. destruct (N.eqb sg sg') eqn:E.
      * apply N.eqb_eq in E. subst sg'. intros ->. exact Hb.
      * apply Hr.
    + intros x Hx. cbn in Hx. apply in_remove_sig in Hx. apply Hgt. tauto.
Qed.

Lemma run_body_pinv tbl L h l : forall s,
  PInv tbl L s -> forallb (b_rank_ok tbl) l = true ->
  (forall x, In x (flat_map b_raises l) -> (h < x)%N /\ In x L) ->
  (forall x, In x (pend s) -> (h < x)%N) ->
  match run_body l s with
  | SOk s' => PInv tbl L s' /\ (forall x, In x (pend s') -> (h < x)%N)
  | SDead _ _ => True
  | SFuel => False
  end.
Proof.
  induction l as [|b l IH]; intros s HP Hb Hraise Hgt; cbn; [split; assumption|].
  cbn in Hb. apply andb_true_iff in Hb. destruct Hb as [Hb1 Hb2].
  assert (H1 : forall x, In x (b_raises b) -> (h < x)%N /\ In x L).
  { intros x Hx. apply Hraise. cbn. apply in_or_app. left; exact Hx. }
  pose proof (do_b_pinv tbl L h b s HP Hb1 H1 Hgt) as Hd.
  destruct (do_b b s) as [s1|sg s1|]; [|exact I|exact Hd].
  destruct Hd as [HP1 Hgt1]. apply IH; auto.
  intros x Hx. apply Hraise. cbn. apply in_or_app. right; exact Hx.
Qed.

Lemma raises_above_spec h l x :
  raises_above h l = true -> In x (flat_map b_raises l) -> (h < x)%N.
Proof.
  unfold raises_above. induction l as [|b l IH]; cbn; [intros _ []|].
  intros H Hx. apply andb_true_iff in H. destruct H as [H1 H2].
  apply in_app_or in Hx. destruct Hx as [Hx|Hx]; [|apply IH; assumption].
  destruct b as [k st | sg st | sg a]; cbn in Hx; try (destruct Hx; fail).
  destruct Hx as [->|[]]. apply N.ltb_lt. exact H1.
Qed.

(* the loop terminates: the lowest caught signal grows at every round *)
Lemma boundary_fuel tbl L :
  forallb (fun p => forallb (b_rank_ok tbl) (snd p)) tbl = true ->
  (forall x, In x (tbl_raises tbl) -> In x L) ->
  forall fuel s, PInv tbl L s ->
  match pend s with [] => True | h :: _ => (mu L h < fuel)%nat end ->
  match boundary tbl fuel s with
  | SOk s' => PInv tbl L s' /\ pend s' = []
  | SDead _ _ => True
  | SFuel => False
  end.
Proof.
  intros Htbl HL. induction fuel as [|f IH]; intros s HP Hfuel.
  - cbn. destruct (pend s) as [|h rest] eqn:Hp; [split; assumption | lia].
  - cbn [boundary]. destruct (pend s) as [|h rest] eqn:Hp; [split; assumption|].
    destruct HP as [Hs Hin Hr]. rewrite Hp in Hs, Hin.
    inversion Hs as [|? ? Hs' Hall]; subst. rewrite Forall_forall in Hall.
    set (s1 := mkSh (traps s) rest (status s) (pid s) (nextpid s) (tr s)).
    assert (HP1 : PInv tbl L s1).
    { constructor; cbn; auto. intros x Hx. apply Hin. right; exact Hx. }
    assert (Hnext : forall s2, PInv tbl L s2 -> (forall x, In x (pend s2) -> (h < x)%N) ->
              match boundary tbl f s2 with
              | SOk s' => PInv tbl L s' /\ pend s' = []
              | SDead _ _ => True
              | SFuel => False
              end).
    { intros s2 HP2 Hgt2. apply IH; [exact HP2|].
      destruct (pend s2) as [|h2 r2] eqn:Hp2; [exact I|].
      assert (Hlt : (h < h2)%N) by (apply Hgt2; left; reflexivity).
      pose proof (mu_lt L h h2 (Hin h (or_introl eq_refl)) Hlt). lia. }
    destruct (trap_of (traps s) h) as [| |id] eqn:Et.
    + apply Hnext; [exact HP1 | exact Hall].
    + apply Hnext; [exact HP1 | exact Hall].
    + pose proof (Hr h id Et) as Habove.
      pose proof (run_body_pinv tbl L h (body_of tbl id) s1 HP1 (body_of_forall _ tbl id Htbl)) as Hb.
      assert (Hraise : forall x, In x (flat_map b_raises (body_of tbl id)) -> (h < x)%N /\ In x L).
      { intros x Hx. split; [apply (raises_above_spec h _ x Habove Hx)|].
        apply HL. apply (body_raises_in tbl id x Hx). }
      specialize (Hb Hraise Hall).
      destruct (run_body (body_of tbl id) s1) as [s2|sg s2|]; [|exact I|exact Hb].
      destruct Hb as [HP2 Hgt2].
      apply Hnext; [|exact Hgt2].
      destruct HP2 as [A B C]. constructor; cbn; auto.
Qed.

(* ---- whole scripts -------------------------------------------------------------------- *)
Definition TInv (tbl : table) (s : sh) : Prop := pend s = [] /\ TrapsRank tbl s.

Definition NoFuel (tbl : table) (r : sres) : Prop :=
  match r with SOk s' => TInv tbl s' | SDead _ _ => True | SFuel => False end.

Lemma leaf_fuel tbl bf b s :
  forallb (fun p => forallb (b_rank_ok tbl) (snd p)) tbl = true ->
  (enough_fuel tbl <= bf)%nat ->
  TInv tbl s -> b_rank_ok tbl b = true ->
  NoFuel tbl (match do_b b s with SOk s' => boundary tbl bf s'
              | SDead sg s0 => SDead sg s0 | SFuel => SFuel end).
Proof.
  intros Htbl Hbf [Hp Hr] Hb.
  assert (Hcase : match do_b b s with
                  | SOk s1 => TrapsRank tbl s1 /\ (pend s1 = [] \/ exists sg, pend s1 = [sg])
                  | SDead _ _ => True
                  | SFuel => False
                  end).
  { destruct b as [k st | sg st | sg a]; cbn.
    - split; [exact Hr | left; exact Hp].
    - destruct (trap_of (traps s) sg); try exact I.
      + split; [exact Hr | left; exact Hp].
      + split; [exact Hr | right; exists sg; rewrite Hp; reflexivity].
    - split; [|left; rewrite Hp; reflexivity].
      intros sg' id. cbn. rewrite trap_of_set. destruct (N.eqb sg sg') eqn:E.
      + apply N.eqb_eq in E. subst. intros ->. exact Hb.
      + apply Hr. }
  destruct (do_b b s) as [s1|sg s1|]; [|exact I|exact Hcase].
  destruct Hcase as [Hr1 Hp1].
  set (L := tbl_raises tbl ++ pend s1).
  assert (HP : PInv tbl L s1).
  { constructor; [|intros x Hx; apply in_or_app; right; exact Hx | exact Hr1].
    destruct Hp1 as [->|[sg ->]]; repeat constructor. }
  pose proof (boundary_fuel tbl L Htbl (fun x Hx => in_or_app _ _ x (or_introl Hx)) bf s1 HP) as Hb1.
  assert (Hfuel : match pend s1 with [] => True | h :: _ => (mu L h < bf)%nat end).
  { destruct Hp1 as [E|[sg E]]; rewrite E; [exact I|].
    pose proof (mu_le_length L sg) as Hm. unfold L in Hm. rewrite app_length, E in Hm.
    unfold enough_fuel in Hbf. cbn [length] in Hm. unfold L. rewrite E. lia. }
  specialize (Hb1 Hfuel).
  destruct (boundary tbl bf s1) as [s'|sg s'|]; [|exact I|exact Hb1].
  destruct Hb1 as [[_ _ Hr'] Hp']. split; assumption.
Qed.

Lemma nofuel_seq tbl r1 (k : sh -> sres) :
  NoFuel tbl r1 -> (forall s1, TInv tbl s1 -> NoFuel tbl (k s1)) ->
  NoFuel tbl (match r1 with SOk s1 => k s1 | SDead sg s0 => SDead sg s0 | SFuel => SFuel end).
Proof. intros H1 H2. destruct r1; cbn in *; auto. Qed.

Lemma exec_fuel tbl bf :
  forallb (fun p => forallb (b_rank_ok tbl) (snd p)) tbl = true ->
  (enough_fuel tbl <= bf)%nat ->
  forall c, cmd_rank_ok tbl c = true -> forall s, TInv tbl s -> NoFuel tbl (exec tbl bf c s).
Proof.
  intros Htbl Hbf.
  apply (cmd_ind2 (fun c => cmd_rank_ok tbl c = true -> forall s, TInv tbl s -> NoFuel tbl (exec tbl bf c s))
                  (fun l => forallb (cmd_rank_ok tbl) l = true ->
                            forall s, TInv tbl s -> NoFuel tbl (exec_list tbl bf l s))).
  - intros b Hb s HT. cbn [exec]. apply leaf_fuel; assumption.
  - intros l IH Hl s HT. cbn [exec]. fold (exec_list tbl bf).
    apply (nofuel_seq tbl (exec_list tbl bf l s) (fun s' => boundary tbl bf s')); [apply IH; assumption|].
    intros s1 HT1. rewrite (boundary_idle tbl bf s1 (proj1 HT1)). exact HT1.
  - intros l IH Hl s [Hp Hr]. cbn [exec]. fold (exec_list tbl bf).
    set (child := mkSh (reset_traps (traps s)) [] (status s) (nextpid s) (nextpid s + 1) (tr s)).
    assert (HTc : TInv tbl child).
    { split; [reflexivity|]. intros sg id H. cbn in H. exfalso. eapply reset_no_body. exact H. }
    specialize (IH Hl child HTc).
    destruct (exec_list tbl bf l child) as [c'|sg c'|]; [| |exact IH].
    + rewrite boundary_idle by exact Hp. split; [exact Hp | exact Hr].
    + rewrite boundary_idle by exact Hp. split; [exact Hp | exact Hr].
  - intros c t e IHc IHt IHe Hl s HT. cbn in Hl.
    apply andb_true_iff in Hl. destruct Hl as [Hl He]. apply andb_true_iff in Hl. destruct Hl as [Hc Ht].
    cbn [exec]. fold (exec_list tbl bf).
    apply (nofuel_seq tbl (exec_list tbl bf c s)
             (fun s1 => match (if N.eqb (status s1) 0 then exec_list tbl bf t s1
                               else exec_list tbl bf e s1) with
                        | SOk s2 => boundary tbl bf s2
                        | SDead sg s0 => SDead sg s0 | SFuel => SFuel end)); [apply IHc; assumption|].
    intros s1 HT1.
    apply (nofuel_seq tbl _ (fun s2 => boundary tbl bf s2)).
    + destruct (N.eqb (status s1) 0); [apply IHt | apply IHe]; assumption.
    + intros s2 HT2. rewrite (boundary_idle tbl bf s2 (proj1 HT2)). exact HT2.
  - intros _ s HT. exact HT.
  - intros c l IHc IHl Hl s HT. cbn in Hl. apply andb_true_iff in Hl. destruct Hl as [Hc Hl].
    unfold exec_list. cbn [exec_list_with]. fold (exec_list tbl bf).
    apply (nofuel_seq tbl (exec tbl bf c s) (fun s1 => exec_list tbl bf l s1)); [apply IHc; assumption|].
    intros s1 HT1. apply IHl; assumption.
Qed.

Lemma exec_list_fuel tbl bf :
  forallb (fun p => forallb (b_rank_ok tbl) (snd p)) tbl = true ->
  (enough_fuel tbl <= bf)%nat ->
  forall l, forallb (cmd_rank_ok tbl) l = true -> forall s, TInv tbl s ->
  NoFuel tbl (exec_list tbl bf l s).
Proof.
  intros Htbl Hbf. induction l as [|c l IH]; intros Hl s HT; [exact HT|].
  cbn in Hl. apply andb_true_iff in Hl. destruct Hl as [Hc Hl].
  unfold exec_list. cbn [exec_list_with]. fold (exec_list tbl bf).
  apply (nofuel_seq tbl (exec tbl bf c s) (fun s1 => exec_list tbl bf l s1)).
  - apply exec_fuel; assumption.
  - intros s1 HT1. apply IH; assumption.
Qed.

(* the theorem: under the rank condition the model never runs out of fuel *)
Lemma trap_loop_terminates_thm tbl main bf :
  rank_ok tbl main = true -> (enough_fuel tbl <= bf)%nat ->
  run_script tbl bf main <> None.
Proof.
  intros Hok Hbf. unfold rank_ok in Hok. apply andb_true_iff in Hok. destruct Hok as [Htbl Hmain].
  assert (HT : TInv tbl init_sh).
  { split; [reflexivity|]. intros sg id H. cbn in H. discriminate. }
  pose proof (exec_list_fuel tbl bf Htbl Hbf main Hmain init_sh HT) as H.
  unfold run_script. destruct (exec_list tbl bf main init_sh); [discriminate | discriminate | destruct H].
Qed.
